(* Specification for C18: the "live pairs" of a bidirectional map as a plain list of pairs,
   written independently of the two-dictionary implementation. *)
From Coq Require Import List Bool Arith.
Import ListNotations.
From HV Require Import lib.Harness model.BiMapM.

Section Spec.
  Context {L R : Type} (leqb : L -> L -> bool) (reqb : R -> R -> bool).

  Definition pairs := list (L * R).
  Definition wf_pairs (p : pairs) : Prop := NoDup (map fst p) /\ NoDup (map snd p).
  Definition wf_pairs_b (p : pairs) : bool := nodupb leqb (map fst p) && nodupb reqb (map snd p).

  (* inserting displaces any pair sharing the key or the value, and nothing else *)
  Definition a_insert (p : pairs) (k : L) (v : R) : pairs :=
    filter (fun kv => negb (leqb (fst kv) k) && negb (reqb (snd kv) v)) p ++ [(k, v)].
  Definition a_delete_left (p : pairs) (k : L) : pairs * out :=
    if existsb (fun kv => leqb (fst kv) k) p
    then (filter (fun kv => negb (leqb (fst kv) k)) p, Done) else (p, KeyError).
  Definition a_delete_right (p : pairs) (v : R) : pairs * out :=
    if existsb (fun kv => reqb (snd kv) v) p
    then (filter (fun kv => negb (reqb (snd kv) v)) p, Done) else (p, KeyError).
  Definition a_step (p : pairs) (o : op (L:=L) (R:=R)) : pairs * out :=
    match o with
    | InsL k v | SetItem k v | InsR v k => (a_insert p k v, Done)
    | DelL k | DelItem k => a_delete_left p k
    | DelR v => a_delete_right p v
    end.
  Definition a_run (p : pairs) (ops : list op) : pairs := fold_left (fun s o => fst (a_step s o)) ops p.
  Definition a_init (m : pairs) : option pairs := if nodupb reqb (map snd m) then Some m else None.

  Definition a_get_right (p : pairs) (k : L) : option R :=
    match find (fun kv => leqb (fst kv) k) p with Some kv => Some (snd kv) | None => None end.
  Definition a_get_left (p : pairs) (v : R) : option L :=
    match find (fun kv => reqb (snd kv) v) p with Some kv => Some (fst kv) | None => None end.
End Spec.
