(* C07, seeded round 3 — specification of "the same type": what an operation that hands a type back
   (resolve against a registry, copy, serialisation round trip) may change.  The property text says that
   variables, aliases and opaque types REPORT THEIR DECLARED BOUND; a type that went through such an operation
   is still that type, so every declared bound in it must be the one it was declared with.

   Written against the data types only (ty, registry as association lists), not against the functions of
   model/TypesSame.v. *)
From Coq Require Import NArith List Bool Arith.
Import ListNotations.
From HV Require Import lib.Harness model.Types.

(* pointwise relation on two lists (the relation is outside the fixpoint: usable for nested recursion) *)
Definition list_rel_b {A B} (f : A -> B -> bool) : list A -> list B -> bool :=
  fix go (l : list A) (m : list B) : bool :=
    match l, m with
    | [], [] => true
    | x :: r, y :: s => f x y && go r s
    | _, _ => false
    end.

Fixpoint tparam_eqb (a b : typaram) : bool :=
  match a, b with
  | PType x, PType y => bound_eqb x y
  | PNat x, PNat y => option_eqb N.eqb x y
  | PString, PString => true
  | PList p, PList q => tparam_eqb p q
  | PTuple ps, PTuple qs => list_rel_b tparam_eqb ps qs
  | PExts, PExts => true
  | _, _ => false
  end.
Definition tdef_eqb (a b : typedef) : bool :=
  N.eqb (td_ext a) (td_ext b) && N.eqb (td_name a) (td_name b) && N.eqb (td_descr a) (td_descr b) &&
  list_rel_b tparam_eqb (td_params a) (td_params b) && defbound_eqb (td_bound a) (td_bound b).
Definition xclass_eqb (a b : extclass) : bool :=
  match a, b with Generic, Generic => true | ElemAt i, ElemAt j => Nat.eqb i j | _, _ => false end.

(* what may differ between the type handed in and the type handed back:
   Exact    — nothing (copy.copy, copy.deepcopy, dataclasses.replace; resolve when the registry knows none of
              the type's opaque types);
   Resolved — an opaque type may have become the extension type of a definition of the same extension and
              name (resolve);
   Serial   — an extension type may have become the opaque type of its definition's extension and name (the
              serialised form; its bound is judged separately, against the computed bound of the original).
   In every mode an opaque type that stays opaque keeps its extension, id and DECLARED BOUND, variables /
   row variables / aliases keep theirs, and the structure is unchanged. *)
Inductive smode := Exact | Resolved | Serial.
Definition is_resolved (m : smode) : bool := match m with Resolved => true | _ => false end.
Definition is_serial (m : smode) : bool := match m with Serial => true | _ => false end.

Fixpoint same_b (m : smode) (a b : ty) {struct a} : bool :=
  match a, b with
  | TSum x, TSum y => list_rel_b (list_rel_b (same_b m)) x y
  | TUnitSum n, TUnitSum k => Nat.eqb n k
  | TVar i x, TVar j y | TRowVar i x, TRowVar j y => Nat.eqb i j && bound_eqb x y
  | TUSize, TUSize | TQubit, TQubit => true
  | TAlias n x, TAlias k y => N.eqb n k && bound_eqb x y
  | TFunc i o r, TFunc i' o' r' =>
      list_rel_b (same_b m) i i' && list_rel_b (same_b m) o o' && list_rel_b N.eqb r r'
  | TPoly ps i o r, TPoly ps' i' o' r' =>
      list_rel_b tparam_eqb ps ps' && list_rel_b (same_b m) i i' && list_rel_b (same_b m) o o' &&
      list_rel_b N.eqb r r'
  | TOpaque e id a1 x, TOpaque e' id' a2 y =>
      N.eqb e e' && N.eqb id id' && list_rel_b (same_arg_b m) a1 a2 && bound_eqb x y
  | TOpaque e id a1 _, TExt d a2 Generic =>
      is_resolved m && N.eqb (td_ext d) e && N.eqb (td_name d) id && list_rel_b (same_arg_b m) a1 a2
  | TExt d a1 c, TExt d' a2 c' => tdef_eqb d d' && list_rel_b (same_arg_b m) a1 a2 && xclass_eqb c c'
  | TExt d a1 _, TOpaque e id a2 _ =>
      is_serial m && N.eqb e (td_ext d) && N.eqb id (td_name d) && list_rel_b (same_arg_b m) a1 a2
  | _, _ => false
  end
with same_arg_b (m : smode) (a b : tyarg) {struct a} : bool :=
  match a, b with
  | AType t, AType u => same_b m t u
  | ANat n, ANat k => N.eqb n k
  | AString s, AString s' => N.eqb s s'
  | ASeq l, ASeq l' => list_rel_b (same_arg_b m) l l'
  | AExts es, AExts es' => list_rel_b N.eqb es es'
  | AVar i p, AVar j q => Nat.eqb i j && tparam_eqb p q
  | _, _ => false
  end.

(* the registry holds a definition named id in an extension named e *)
Definition knows_b (reg : list (name * list (name * typedef))) (e id : name) : bool :=
  existsb (fun x => N.eqb (fst x) e && existsb (fun y => N.eqb (fst y) id) (snd x)) reg.

(* the registry knows none of the opaque types occurring anywhere in the type *)
Fixpoint unknown_b (reg : list (name * list (name * typedef))) (t : ty) : bool :=
  match t with
  | TSum rs => forallb (forallb (unknown_b reg)) rs
  | TFunc i o _ | TPoly _ i o _ => forallb (unknown_b reg) i && forallb (unknown_b reg) o
  | TOpaque e id a _ => negb (knows_b reg e id) && forallb (unknown_arg_b reg) a
  | TExt _ a _ => forallb (unknown_arg_b reg) a
  | _ => true
  end
with unknown_arg_b (reg : list (name * list (name * typedef))) (a : tyarg) : bool :=
  match a with
  | AType t => unknown_b reg t
  | ASeq l => forallb (unknown_arg_b reg) l
  | _ => true
  end.

(* a registry built through Extension.add_type_def / ExtensionRegistry.add_extension: every definition is
   filed under its own name in the extension it belongs to *)
Definition reg_wf_b (reg : list (name * list (name * typedef))) : bool :=
  forallb (fun x => forallb (fun y => N.eqb (td_ext (snd y)) (fst x) && N.eqb (td_name (snd y)) (fst y)) (snd x)) reg.
