(* C12 — the Python model classes expose exactly the attributes the Rust binding reads.
   Specification over the regenerated tables of gen/ModelAttrs.v. *)
From Coq Require Import List String Bool.
Import ListNotations.
From HV Require Import lib.Harness.

Definition assoc_s {A} (k : string) (l : list (string * A)) : option A :=
  match find (fun p => String.eqb (fst p) k) l with Some p => Some (snd p) | None => None end.

Section Attrs.
  Variables (reads : list (string * list string)) (built : list string) (fields : list (string * list string)).
  (* every class the binding reads is a dataclass whose fields are exactly the attributes read *)
  Definition reads_are_fields : bool :=
    forallb (fun ca => match assoc_s (fst ca) fields with
                       | Some fs => seteq_b String.eqb (snd ca) fs && nodupb String.eqb (snd ca)
                       | None => false end) reads.
  (* every dataclass of hugr.model is read by the binding, and once *)
  Definition fields_are_read : bool :=
    forallb (fun cf => mem String.eqb (fst cf) (map fst reads)) fields && nodupb String.eqb (map fst reads).
  (* every class the binding constructs exists, with as many fields as it is given *)
  Definition built_exist : bool := forallb (fun c => mem String.eqb c (map fst fields)) built.
  Definition attrs_match_b : bool := reads_are_fields && fields_are_read && built_exist.
End Attrs.
