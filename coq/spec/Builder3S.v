(* C01 (fourth pass) — the decidable premise of the theorem about rule 1 (permitted parent/child operation pairs) for the
   third builder language (model/Builder3.v), computed from the program text:
     - no constant is asked to be placed at the root of a Hugr whose root is a Conditional (as croot_ok of
       spec/Builder2WFS.v for the second language; `strict` is true below a Conditional root);
     - no separately built MODULE is inserted under a dataflow container (Hugr.insert_hugr does not check the root of the
       inserted Hugr; a Module is no dataflow child).
   Both are refuted by examples in proofs/Builder3TagsP.v: the builders accept such programs and produce a document that
   violates rule 1. *)
From Coq Require Import NArith List Bool.
Import ListNotations.
From HV Require Import lib.Harness model.Validity model.Builder model.Builder2 model.Builder3.

Definition is_module_prog (p : prog3) : bool := match p with RModule _ _ => true | _ => false end.
Fixpoint croot3_stmt (strict : bool) (s : stmt3) {struct s} : bool :=
  match s with
  | ULoad _ _ CRoot _ => negb strict
  | UNested _ _ body _ => croot3_region strict body
  | ULoop _ _ _ body _ => croot3_region strict body
  | UCond _ _ _ cs _ => croot3_cases strict cs
  | UInsert _ sub _ _ => croot3 sub && negb (is_module_prog sub)
  | ULocalFn _ _ _ _ _ body => croot3_region strict body
  | UCfg _ _ bls _ _ => croot3_blocks strict bls
  | _ => true
  end
with croot3_region (strict : bool) (r : region3) {struct r} : bool :=
  match r with Rg _ body _ => croot3_stmts strict body end
with croot3_stmts (strict : bool) (l : stmts3) {struct l} : bool :=
  match l with UNil => true | UCons s r => croot3_stmt strict s && croot3_stmts strict r end
with croot3_cases (strict : bool) (cs : cases3) {struct cs} : bool :=
  match cs with KNil => true | KCons _ r rest => croot3_region strict r && croot3_cases strict rest end
with croot3_blocks (strict : bool) (bl : blocks3) {struct bl} : bool :=
  match bl with BNil => true | BCons _ _ body _ _ rest => croot3_region strict body && croot3_blocks strict rest end
with croot3 (p : prog3) {struct p} : bool :=
  match p with
  | RDfg _ body => croot3_region false body
  | RLoop _ _ body => croot3_region false body
  | RCond _ _ _ cs => croot3_cases true cs
  | RFunc _ _ _ body => croot3_region false body
  | RCfg _ bls _ => croot3_blocks false bls
  | RModule _ fs => croot3_funcs fs
  end
with croot3_funcs (fs : funcs3) {struct fs} : bool :=
  match fs with
  | FNil => true
  | FDecl _ _ rest => croot3_funcs rest
  | FDefn _ _ _ _ body rest => croot3_region false body && croot3_funcs rest
  end.

(* a program with the sub-programs of its function-valued constants *)
Definition croot3s (p : prog3) (subs : list prog3) : bool := croot3 p && forallb croot3 subs.
