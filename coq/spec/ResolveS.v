(* C11 — specification of extension resolution, written against the property text and not against
   the functions of model/Resolve.v: it only uses the data types (ty, registry, op), the type-bound
   function of the shared type model, and membership in the registry's dictionaries.

   "Resolving against a registry replaces an opaque operation (together with the opaque types in its
   signature and type arguments), or an opaque type inside a type expression being resolved, by its
   definition-backed form exactly when the registry holds an extension of that name containing a
   definition of that name, and leaves everything else untouched.  Resolution reaches every depth
   (sums, function types, type arguments, arguments of opaque types), changes neither the serialized
   document nor the exported model, nor signatures, port types or type bounds, except that an
   operation's description may be replaced by its definition's; resolving twice = resolving once." *)
From Coq Require Import NArith List Bool Arith.
Import ListNotations.
From HV Require Import lib.Harness model.Types model.Resolve.

(* ------------------------------------------------------------------ decidable equalities *)
Fixpoint typaram_eqb (a b : typaram) : bool :=
  match a, b with
  | PType x, PType y => bound_eqb x y
  | PNat x, PNat y => option_eqb N.eqb x y
  | PString, PString => true
  | PList p, PList q => typaram_eqb p q
  | PTuple ps, PTuple qs =>
      (fix go (l m : list typaram) : bool :=
         match l, m with
         | [], [] => true
         | x :: r, y :: s => typaram_eqb x y && go r s
         | _, _ => false
         end) ps qs
  | PExts, PExts => true
  | _, _ => false
  end.
Definition typedef_eqb (a b : typedef) : bool :=
  N.eqb (td_ext a) (td_ext b) && N.eqb (td_name a) (td_name b) && N.eqb (td_descr a) (td_descr b) &&
  list_eqb typaram_eqb (td_params a) (td_params b) && defbound_eqb (td_bound a) (td_bound b).
Definition extclass_eqb (a b : extclass) : bool :=
  match a, b with Generic, Generic => true | ElemAt i, ElemAt j => Nat.eqb i j | _, _ => false end.

Fixpoint ty_eqb (a b : ty) : bool :=
  let fix row (l m : list ty) : bool :=
    match l, m with [], [] => true | x :: r, y :: s => ty_eqb x y && row r s | _, _ => false end in
  let fix rows (l m : list (list ty)) : bool :=
    match l, m with [], [] => true | x :: r, y :: s => row x y && rows r s | _, _ => false end in
  let fix args (l m : list tyarg) : bool :=
    match l, m with [], [] => true | x :: r, y :: s => tyarg_eqb x y && args r s | _, _ => false end in
  match a, b with
  | TSum r, TSum r' => rows r r'
  | TUnitSum n, TUnitSum m => Nat.eqb n m
  | TVar i x, TVar j y | TRowVar i x, TRowVar j y => Nat.eqb i j && bound_eqb x y
  | TUSize, TUSize | TQubit, TQubit => true
  | TAlias n x, TAlias m y => N.eqb n m && bound_eqb x y
  | TFunc i o r, TFunc i' o' r' => row i i' && row o o' && list_eqb N.eqb r r'
  | TPoly ps i o r, TPoly ps' i' o' r' =>
      list_eqb typaram_eqb ps ps' && row i i' && row o o' && list_eqb N.eqb r r'
  | TOpaque e id a x, TOpaque e' id' a' y => N.eqb e e' && N.eqb id id' && args a a' && bound_eqb x y
  | TExt d a c, TExt d' a' c' => typedef_eqb d d' && args a a' && extclass_eqb c c'
  | _, _ => false
  end
with tyarg_eqb (a b : tyarg) : bool :=
  let fix args (l m : list tyarg) : bool :=
    match l, m with [], [] => true | x :: r, y :: s => tyarg_eqb x y && args r s | _, _ => false end in
  match a, b with
  | AType t, AType u => ty_eqb t u
  | ANat n, ANat m => N.eqb n m
  | AString s, AString u => N.eqb s u
  | ASeq l, ASeq m => args l m
  | AExts x, AExts y => list_eqb N.eqb x y
  | AVar i p, AVar j q => Nat.eqb i j && typaram_eqb p q
  | _, _ => false
  end.

Definition ft_eqb (a b : functype) : bool :=
  list_eqb ty_eqb (ft_in a) (ft_in b) && list_eqb ty_eqb (ft_out a) (ft_out b) &&
  list_eqb N.eqb (ft_reqs a) (ft_reqs b).
Definition opdef_eqb (a b : opdef) : bool :=
  N.eqb (od_ext a) (od_ext b) && N.eqb (od_name a) (od_name b) && N.eqb (od_descr a) (od_descr b).
Definition custom_eqb (a b : custom) : bool :=
  N.eqb (c_ext a) (c_ext b) && N.eqb (c_name a) (c_name b) && ft_eqb (c_sig a) (c_sig b) &&
  N.eqb (c_descr a) (c_descr b) && list_eqb tyarg_eqb (c_args a) (c_args b).
Definition op_eqb (a b : op) : bool :=
  match a, b with
  | OCustom x, OCustom y => custom_eqb x y
  | OExt x, OExt y => opdef_eqb (x_def x) (x_def y) && ft_eqb (x_sig x) (x_sig y) &&
                      list_eqb tyarg_eqb (x_args x) (x_args y) && N.eqb (x_descr x) (x_descr y)
  | OOther k, OOther k' => N.eqb k k'
  | _, _ => false
  end.

(* ------------------------------------------------------------------ the registry as a set of definitions *)
(* "the registry holds an extension of that name containing a definition of that name" *)
Definition defines_ty (reg : registry) (ext id : name) (d : typedef) : Prop :=
  exists x, In (ext, x) reg /\ In (id, d) (e_types x).
Definition resolvable_ty (reg : registry) (ext id : name) : Prop := exists d, defines_ty reg ext id d.
Definition defines_op (reg : registry) (ext nm : name) (d : opdef) : Prop :=
  exists x, In (ext, x) reg /\ In (nm, d) (e_ops x).
Definition resolvable_op (reg : registry) (ext nm : name) : Prop := exists d, defines_op reg ext nm d.

(* all definitions filed under (ext, id), computed by scanning every binding *)
Definition select {V} (k : name) (d : list (name * V)) : list V :=
  flat_map (fun kv => if N.eqb (fst kv) k then [snd kv] else []) d.
Definition defs_ty (reg : registry) (ext id : name) : list typedef :=
  flat_map (fun x => select id (e_types x)) (select ext reg).
Definition defs_op (reg : registry) (ext nm : name) : list opdef :=
  flat_map (fun x => select nm (e_ops x)) (select ext reg).
Definition resolvable_ty_b reg ext id : bool := match defs_ty reg ext id with [] => false | _ => true end.
Definition resolvable_op_b reg ext nm : bool := match defs_op reg ext nm with [] => false | _ => true end.

(* A registry is well formed when its dictionaries have unique keys (they are Python dicts), every
   object is filed under its own name, every definition names the extension it is filed in, and
   extension names are not empty. *)
Definition ext_wf (k : name) (x : extension) : Prop :=
  e_name x = k /\ k <> empty_name /\
  NoDup (map fst (e_types x)) /\ NoDup (map fst (e_ops x)) /\
  (forall n d, In (n, d) (e_types x) -> td_name d = n /\ td_ext d = k) /\
  (forall n d, In (n, d) (e_ops x) -> od_name d = n /\ od_ext d = k).
Definition RegWF (reg : registry) : Prop :=
  NoDup (map fst reg) /\ forall k x, In (k, x) reg -> ext_wf k x.

Definition ext_wf_b (k : name) (x : extension) : bool :=
  N.eqb (e_name x) k && negb (N.eqb k empty_name) &&
  nodupb N.eqb (map fst (e_types x)) && nodupb N.eqb (map fst (e_ops x)) &&
  forallb (fun nd => N.eqb (td_name (snd nd)) (fst nd) && N.eqb (td_ext (snd nd)) k) (e_types x) &&
  forallb (fun nd => N.eqb (od_name (snd nd)) (fst nd) && N.eqb (od_ext (snd nd)) k) (e_ops x).
Definition regwf_b (reg : registry) : bool :=
  nodupb N.eqb (map fst reg) && forallb (fun kx => ext_wf_b (fst kx) (snd kx)) reg.

(* ------------------------------------------------------------------ "at every depth" *)
(* f holds of the expression and of every type expression inside it, at any depth: variants of sums,
   inputs and outputs of function types, type arguments, sequence arguments, arguments of opaque and of
   definition-backed types *)
Fixpoint everywhere (f : ty -> bool) (t : ty) : bool :=
  let fix row (l : list ty) : bool := match l with [] => true | x :: r => everywhere f x && row r end in
  let fix rows (l : list (list ty)) : bool := match l with [] => true | x :: r => row x && rows r end in
  let fix args (l : list tyarg) : bool := match l with [] => true | x :: r => everywhere_arg f x && args r end in
  f t &&
  match t with
  | TSum rs => rows rs
  | TFunc i o _ | TPoly _ i o _ => row i && row o
  | TOpaque _ _ a _ | TExt _ a _ => args a
  | _ => true
  end
with everywhere_arg (f : ty -> bool) (a : tyarg) : bool :=
  let fix args (l : list tyarg) : bool := match l with [] => true | x :: r => everywhere_arg f x && args r end in
  match a with
  | AType t => everywhere f t
  | ASeq l => args l
  | _ => true
  end.

(* expressions loaded from serialised form: no definition-backed type anywhere *)
Definition not_ext (t : ty) : bool := match t with TExt _ _ _ => false | _ => true end.
Definition no_ext : ty -> bool := everywhere not_ext.
Definition no_ext_arg : tyarg -> bool := everywhere_arg not_ext.

(* reaching every depth: no opaque type with a definition in the registry remains anywhere *)
Definition unresolvable_here (reg : registry) (t : ty) : bool :=
  match t with TOpaque e id _ _ => negb (resolvable_ty_b reg e id) | _ => true end.
Definition clean (reg : registry) : ty -> bool := everywhere (unresolvable_here reg).
Definition clean_arg (reg : registry) : tyarg -> bool := everywhere_arg (unresolvable_here reg).

(* the same as an inductive: a path to a remaining resolvable opaque type *)
Inductive Remains (reg : registry) : ty -> Prop :=
| RmHere e id a b : resolvable_ty reg e id -> Remains reg (TOpaque e id a b)
| RmSum rows row t : In row rows -> In t row -> Remains reg t -> Remains reg (TSum rows)
| RmFuncIn i o r t : In t i -> Remains reg t -> Remains reg (TFunc i o r)
| RmFuncOut i o r t : In t o -> Remains reg t -> Remains reg (TFunc i o r)
| RmPolyIn ps i o r t : In t i -> Remains reg t -> Remains reg (TPoly ps i o r)
| RmPolyOut ps i o r t : In t o -> Remains reg t -> Remains reg (TPoly ps i o r)
| RmOpaqueArg e id a b x : In x a -> RemainsArg reg x -> Remains reg (TOpaque e id a b)
| RmExtArg d a c x : In x a -> RemainsArg reg x -> Remains reg (TExt d a c)
with RemainsArg (reg : registry) : tyarg -> Prop :=
| RmType t : Remains reg t -> RemainsArg reg (AType t)
| RmSeq l x : In x l -> RemainsArg reg x -> RemainsArg reg (ASeq l).

(* ------------------------------------------------------------------ pointwise characterisation *)
(* t' is t with exactly the resolvable opaque types replaced by their definition-backed form (generic
   class, the definition filed under that name, arguments related in the same way), everything else
   identical *)
Inductive RTy (reg : registry) : ty -> ty -> Prop :=
| RSum r r' : Forall2 (Forall2 (RTy reg)) r r' -> RTy reg (TSum r) (TSum r')
| RUnit n : RTy reg (TUnitSum n) (TUnitSum n)
| RVar i b : RTy reg (TVar i b) (TVar i b)
| RRow i b : RTy reg (TRowVar i b) (TRowVar i b)
| RUSize : RTy reg TUSize TUSize
| RQubit : RTy reg TQubit TQubit
| RAlias n b : RTy reg (TAlias n b) (TAlias n b)
| RFunc i o r i' o' : Forall2 (RTy reg) i i' -> Forall2 (RTy reg) o o' -> RTy reg (TFunc i o r) (TFunc i' o' r)
| RPoly ps i o r i' o' :
    Forall2 (RTy reg) i i' -> Forall2 (RTy reg) o o' -> RTy reg (TPoly ps i o r) (TPoly ps i' o' r)
| ROpaqueDef e id a b d a' :
    defines_ty reg e id d -> Forall2 (RArg reg) a a' -> RTy reg (TOpaque e id a b) (TExt d a' Generic)
| ROpaqueUndef e id a b a' :
    ~ resolvable_ty reg e id -> Forall2 (RArg reg) a a' -> RTy reg (TOpaque e id a b) (TOpaque e id a' b)
| RExt d a c : RTy reg (TExt d a c) (TExt d a c)
with RArg (reg : registry) : tyarg -> tyarg -> Prop :=
| RAType t t' : RTy reg t t' -> RArg reg (AType t) (AType t')
| RANat n : RArg reg (ANat n) (ANat n)
| RAString s : RArg reg (AString s) (AString s)
| RASeq l l' : Forall2 (RArg reg) l l' -> RArg reg (ASeq l) (ASeq l')
| RAExts es : RArg reg (AExts es) (AExts es)
| RAVar i p : RArg reg (AVar i p) (AVar i p).

(* the same relation, computing (used by the monitor on the implementation's result) *)
Fixpoint rty_b (reg : registry) (t t' : ty) : bool :=
  let fix row (l m : list ty) : bool :=
    match l, m with [], [] => true | x :: r, y :: s => rty_b reg x y && row r s | _, _ => false end in
  let fix rows (l m : list (list ty)) : bool :=
    match l, m with [], [] => true | x :: r, y :: s => row x y && rows r s | _, _ => false end in
  let fix args (l m : list tyarg) : bool :=
    match l, m with [], [] => true | x :: r, y :: s => rarg_b reg x y && args r s | _, _ => false end in
  match t, t' with
  | TSum r, TSum r' => rows r r'
  | TFunc i o r, TFunc i' o' r' => row i i' && row o o' && list_eqb N.eqb r r'
  | TPoly ps i o r, TPoly ps' i' o' r' =>
      list_eqb typaram_eqb ps ps' && row i i' && row o o' && list_eqb N.eqb r r'
  | TOpaque e id a b, TExt d a' c =>
      mem typedef_eqb d (defs_ty reg e id) && extclass_eqb c Generic && args a a'
  | TOpaque e id a b, TOpaque e' id' a' b' =>
      negb (resolvable_ty_b reg e id) && N.eqb e e' && N.eqb id id' && bound_eqb b b' && args a a'
  | TOpaque _ _ _ _, _ => false
  | _, _ => ty_eqb t t'
  end
with rarg_b (reg : registry) (a a' : tyarg) : bool :=
  let fix args (l m : list tyarg) : bool :=
    match l, m with [], [] => true | x :: r, y :: s => rarg_b reg x y && args r s | _, _ => false end in
  match a, a' with
  | AType t, AType t' => rty_b reg t t'
  | ASeq l, ASeq l' => args l l'
  | AType _, _ | ASeq _, _ => false
  | _, _ => tyarg_eqb a a'
  end.

Definition RFt (reg : registry) (f f' : functype) : Prop :=
  Forall2 (RTy reg) (ft_in f) (ft_in f') /\ Forall2 (RTy reg) (ft_out f) (ft_out f') /\ ft_reqs f = ft_reqs f'.
Definition rft_b (reg : registry) (f f' : functype) : bool :=
  list_eqb (rty_b reg) (ft_in f) (ft_in f') && list_eqb (rty_b reg) (ft_out f) (ft_out f') &&
  list_eqb N.eqb (ft_reqs f) (ft_reqs f').

(* operations: an opaque operation with a definition becomes that definition applied to the related
   signature and arguments, carrying the description it was loaded with or its definition's ("may be
   replaced": both are allowed, no third string is); every other operation is left as it is *)
Inductive ROp (reg : registry) : op -> op -> Prop :=
| ROpDef c d s a ds :
    defines_op reg (c_ext c) (c_name c) d -> RFt reg (c_sig c) s -> Forall2 (RArg reg) (c_args c) a ->
    ds = c_descr c \/ ds = od_descr d ->
    ROp reg (OCustom c) (OExt {| x_def := d; x_sig := s; x_args := a; x_descr := ds |})
| ROpUndef c : ~ resolvable_op reg (c_ext c) (c_name c) -> ROp reg (OCustom c) (OCustom c)
| ROpExt x : ROp reg (OExt x) (OExt x)
| ROpOther k : ROp reg (OOther k) (OOther k).
Definition rop_b (reg : registry) (o o' : op) : bool :=
  match o, o' with
  | OCustom c, OExt x =>
      mem opdef_eqb (x_def x) (defs_op reg (c_ext c) (c_name c)) && rft_b reg (c_sig c) (x_sig x) &&
      list_eqb (rarg_b reg) (c_args c) (x_args x) &&
      (N.eqb (x_descr x) (c_descr c) || N.eqb (x_descr x) (od_descr (x_def x)))
  | OCustom c, OCustom c' => negb (resolvable_op_b reg (c_ext c) (c_name c)) && custom_eqb c c'
  | OCustom _, _ => false
  | _, _ => op_eqb o o'
  end.

(* ------------------------------------------------------------------ consistency guard *)
(* the bound recorded in an opaque type is the bound its definition gives for its arguments (true of
   every document a conforming writer produced): explicit bound, or the join of the bounds of the type
   arguments at the definition's indices (all in range) *)
Definition def_bound (d : typedef) (args : list tyarg) : option bound := tbound (TExt d args Generic).
Definition consistent_here (reg : registry) (t : ty) : bool :=
  match t with
  | TOpaque e id a b => forallb (fun d => option_eqb bound_eqb (def_bound d a) (Some b)) (defs_ty reg e id)
  | _ => true
  end.
Definition consistent (reg : registry) : ty -> bool := everywhere (consistent_here reg).
Definition consistent_arg (reg : registry) : tyarg -> bool := everywhere_arg (consistent_here reg).
Definition consistent_ft (reg : registry) (f : functype) : bool :=
  forallb (consistent reg) (ft_in f) && forallb (consistent reg) (ft_out f).
Definition consistent_op (reg : registry) (o : op) : bool :=
  match o with
  | OCustom c => consistent_ft reg (c_sig c) && forallb (consistent_arg reg) (c_args c)
  | _ => true
  end.

(* ------------------------------------------------------------------ the description clause *)
(* two serial operations agree except, possibly, in the description, which then is the description of
   a definition filed under the operation's extension and name *)
Definition same_but_descr (reg : registry) (before after : op) : Prop :=
  match before, after with
  | OCustom c, OCustom c' =>
      c_ext c' = c_ext c /\ c_name c' = c_name c /\ c_sig c' = c_sig c /\ c_args c' = c_args c /\
      (c_descr c' = c_descr c \/
       exists d, defines_op reg (c_ext c) (c_name c) d /\ c_descr c' = od_descr d)
  | _, _ => after = before
  end.
Definition same_but_descr_b (reg : registry) (before after : op) : bool :=
  match before, after with
  | OCustom c, OCustom c' =>
      N.eqb (c_ext c') (c_ext c) && N.eqb (c_name c') (c_name c) && ft_eqb (c_sig c') (c_sig c) &&
      list_eqb tyarg_eqb (c_args c') (c_args c) &&
      (N.eqb (c_descr c') (c_descr c) ||
       existsb (fun d => N.eqb (c_descr c') (od_descr d)) (defs_op reg (c_ext c) (c_name c)))
  | _, _ => op_eqb after before
  end.
