(* Specification for C04 / C08: the "plain sequential model of a hierarchical port multigraph",
   written independently of the node table / free stack / sub-offset BiMap of the implementation.

   state      a finite map  live node index -> (operation, parent, ordered children, metadata,
              declared port counts)  and a list of (out-port, in-port) links read as a MULTISET
   commands   take the value the implementation returned (the index of a new node, the node mapping
              of an insertion) and say whether it is acceptable and what the next state is. *)
From Coq Require Import List Bool Arith ZArith.
Import ListNotations.
From HV Require Import lib.PyDict lib.Harness model.BiMapM model.Graph.

Section S.
  Context {Op Meta : Type}.

  Record anode := { a_op : Op; a_parent : option nid; a_children : list nid; a_meta : Meta;
                    a_nin : Z; a_nout : Z }.
  Record agraph := { a_nodes : list (nid * anode); a_links : list (port * port); a_root : nid }.
  Notation aget := (dget Nat.eqb).

  Definition a_live (g : agraph) (n : nid) : bool :=
    match aget (a_nodes g) n with Some _ => true | None => false end.
  Definition a_upd (g : agraph) (n : nid) (f : anode -> anode) : agraph :=
    match aget (a_nodes g) n with
    | Some a => {| a_nodes := dset Nat.eqb (a_nodes g) n (f a); a_links := a_links g; a_root := a_root g |}
    | None => g
    end.
  Definition a_with_children (a : anode) ch :=
    {| a_op := a_op a; a_parent := a_parent a; a_children := ch; a_meta := a_meta a; a_nin := a_nin a; a_nout := a_nout a |}.
  Definition a_with_nin (a : anode) k :=
    {| a_op := a_op a; a_parent := a_parent a; a_children := a_children a; a_meta := a_meta a; a_nin := k; a_nout := a_nout a |}.
  Definition a_with_nout (a : anode) k :=
    {| a_op := a_op a; a_parent := a_parent a; a_children := a_children a; a_meta := a_meta a; a_nin := a_nin a; a_nout := k |}.

  Definition s_init (r : nid) (o : Op) (m : Meta) : agraph :=
    {| a_nodes := [(r, {| a_op := o; a_parent := None; a_children := []; a_meta := m; a_nin := 0; a_nout := 0 |})];
       a_links := []; a_root := r |}.

  (* outcome of a specification step *)
  Inductive sres := OutOfScope | Bad | Next (g : agraph).

  Definition dflt (g : agraph) (p : option nid) : nid := match p with Some x => x | None => a_root g end.
  Definition zdflt (k : option Z) : Z := match k with Some x => x | None => 0%Z end.

  (* a new node: any index that is not live; it becomes the last child of its parent *)
  Definition s_add_node (g : agraph) (n : nid) (o : Op) (p : nid) (k : Z) (m : Meta) : agraph :=
    let g1 := a_upd g p (fun a => a_with_children a (a_children a ++ [n])) in
    {| a_nodes := a_nodes g1 ++ [(n, {| a_op := o; a_parent := Some p; a_children := []; a_meta := m;
                                        a_nin := 0; a_nout := k |})];
       a_links := a_links g1; a_root := a_root g1 |}.

  (* a new link: one more element of the multiset; the declared counts cover its offsets *)
  Definition s_add_link (g : agraph) (s t : port) : agraph :=
    let g1 := a_upd g (fst s) (fun a => a_with_nout a (Z.max (a_nout a) (snd s + 1))) in
    let g2 := a_upd g1 (fst t) (fun a => a_with_nin a (Z.max (a_nin a) (snd t + 1))) in
    {| a_nodes := a_nodes g2; a_links := a_links g2 ++ [(s, t)]; a_root := a_root g2 |}.

  Definition s_has_link (g : agraph) (s t : port) : bool := mem link_eqb (s, t) (a_links g).

  (* deleting one link removes exactly one occurrence, if there is one *)
  Definition s_delete_link (g : agraph) (s t : port) : agraph :=
    match remove1 link_eqb (s, t) (a_links g) with
    | Some l => {| a_nodes := a_nodes g; a_links := l; a_root := a_root g |}
    | None => g
    end.

  Definition touches (n : nid) (l : port * port) : bool := Nat.eqb (fst (fst l)) n || Nat.eqb (fst (snd l)) n.
  (* deleting a leaf: gone from the map and from its parent's children; every link mentioning it is gone *)
  Definition s_delete_node (g : agraph) (n : nid) (a : anode) : agraph :=
    let g1 := match a_parent a with
              | Some p => a_upd g p (fun pa => a_with_children pa (filter (fun c => negb (Nat.eqb c n)) (a_children pa)))
              | None => g
              end in
    {| a_nodes := ddel Nat.eqb (a_nodes g1) n; a_links := filter (fun l => negb (touches n l)) (a_links g1);
       a_root := a_root g1 |}.

  Definition port_ok (g : agraph) (p : port) : bool := a_live g (fst p) && Z.leb (-1) (snd p).

  (* insertion of B along a node mapping mp *)
  Notation mget := (dget Nat.eqb).
  Definition mapn (mp : list (nid * nid)) (n : nid) : nid := match mget mp n with Some x => x | None => n end.
  Definition mapp (mp : list (nid * nid)) (p : port) : port := (mapn mp (fst p), snd p).
  Definition mapping_ok (g B : agraph) (mp : list (nid * nid)) : bool :=
    nodupb Nat.eqb (map fst mp) && nodupb Nat.eqb (map snd mp) &&
    seteq_b Nat.eqb (map fst mp) (map fst (a_nodes B)) &&
    forallb (fun x => negb (a_live g x)) (map snd mp).
  Definition s_insert (g B : agraph) (mp : list (nid * nid)) (p : nid) : agraph :=
    let copies := map (fun na : nid * anode =>
                         let (n, a) := na in
                         (mapn mp n, {| a_op := a_op a;
                                        a_parent := match a_parent a with Some q => Some (mapn mp q) | None => Some p end;
                                        a_children := map (mapn mp) (a_children a); a_meta := a_meta a;
                                        a_nin := 0; a_nout := a_nout a |})) (a_nodes B) in
    let g1 := a_upd g p (fun a => a_with_children a (a_children a ++ [mapn mp (a_root B)])) in
    let g2 := {| a_nodes := a_nodes g1 ++ copies; a_links := a_links g1; a_root := a_root g1 |} in
    fold_left (fun acc l => s_add_link acc (mapp mp (fst l)) (mapp mp (snd l))) (a_links B) g2.

  Definition s_bstep (g : agraph) (c : bcmd Op Meta) (rt : ret) : sres :=
    match c with
    | AddNode o p k m =>
        if a_live g (dflt g p) then
          match rt with
          | RNode n => if a_live g n then Bad else Next (s_add_node g n o (dflt g p) (zdflt k) m)
          | _ => Bad
          end
        else OutOfScope
    | AddConst o p m =>
        if a_live g (dflt g p) then
          match rt with
          | RNode n => if a_live g n then Bad else Next (s_add_node g n o (dflt g p) 0 m)
          | _ => Bad
          end
        else OutOfScope
    | AddLink s t => if port_ok g s && port_ok g t then Next (s_add_link g s t) else OutOfScope
    | AddOrder a b =>
        if a_live g a && a_live g b
        then Next (if s_has_link g (a, (-1)%Z) (b, (-1)%Z) then g else s_add_link g (a, (-1)%Z) (b, (-1)%Z))
        else OutOfScope
    | DelLink s t => Next (s_delete_link g s t)
    | DelNode n =>
        match aget (a_nodes g) n with
        | Some a => match a_children a with
                    | [] => if Nat.eqb n (a_root g) then OutOfScope else Next (s_delete_node g n a)
                    | _ => OutOfScope                   (* the property speaks of leaf deletions *)
                    end
        | None => OutOfScope
        end
    end.

  Fixpoint s_brun (g : agraph) (cs : list (bcmd Op Meta * ret)) : sres :=
    match cs with
    | [] => Next g
    | (c, rt) :: r => match s_bstep g c rt with Next g' => s_brun g' r | e => e end
    end.

  Definition s_step (g : agraph) (c : cmd Op Meta) (rt : ret) : sres :=
    match c with
    | Basic b => s_bstep g b rt
    | Insert o m broot src p =>
        match s_brun (s_init broot o m) src with
        | Next B =>
            if a_live g (dflt g p) then
              match rt with
              | RMap mp => if mapping_ok g B mp then Next (s_insert g B mp (dflt g p)) else Bad
              | _ => Bad
              end
            else OutOfScope
        | _ => OutOfScope
        end
    end.

  (* ---------------- queries of the specification ---------------- *)
  Definition sq_nodes (g : agraph) : list nid := map fst (a_nodes g).
  Definition sq_linked_out (g : agraph) (p : port) : list port :=
    map snd (filter (fun l => port_eqb (fst l) p) (a_links g)).
  Definition sq_linked_in (g : agraph) (p : port) : list port :=
    map fst (filter (fun l => port_eqb (snd l) p) (a_links g)).
  Definition sq_outgoing (g : agraph) (n : nid) : option (list (port * list port)) :=
    option_map (fun a => map (fun o => ((n, o), sq_linked_out g (n, o))) (range0 (a_nout a))) (aget (a_nodes g) n).
  Definition sq_incoming (g : agraph) (n : nid) : option (list (port * list port)) :=
    option_map (fun a => map (fun o => ((n, o), sq_linked_in g (n, o))) (range0 (a_nin a))) (aget (a_nodes g) n).

  (* "reported port counts are never smaller than the highest offset in use plus one" *)
  Definition counts_cover (g : agraph) : bool :=
    forallb (fun l : port * port =>
               match aget (a_nodes g) (fst (fst l)), aget (a_nodes g) (fst (snd l)) with
               | Some a, Some b => Z.ltb (snd (fst l)) (a_nout a) && Z.ltb (snd (snd l)) (a_nin b)
               | _, _ => false                                    (* a link mentions a dead node *)
               end) (a_links g).
End S.
Arguments anode : clear implicits.
Arguments agraph : clear implicits.
Arguments sres : clear implicits.
