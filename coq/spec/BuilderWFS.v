(* C01 (second pass) — well-formedness of builder programs as decidable (boolean) premises, computed from the
   program text alone (no graph store): a static type system for the wire environment.

   wt_prog tys p: every wire that is used is bound and carries a type; the arguments of an operation with a
   fixed signature (extension op, Tag) have exactly the operation's input row (hugr-py does not check this:
   `add_op` wires whatever it is given); the partial operations Noop / MakeTuple / UnpackTuple can be completed
   from the argument types; a Tag names a variant of its sum type and that sum type is the table entry of its
   rows; a loaded constant inhabits its type; add_state_order never starts at the Output node and never ends
   at the Input node (those nodes have no such port).

   The checker follows the scoping of the interpreter (harness/progs.py keeps one global wire dictionary: a
   wire bound inside a nested region stays bound afterwards; using it outside makes the builders raise
   NoSiblingAncestor, which the theorems exclude by their premise `run ... = Ok _`). *)
From Coq Require Import NArith List Bool Arith.
Import ListNotations.
From HV Require Import lib.Harness model.Validity model.Builder.
Local Open Scope N_scope.

(* wire id -> the type of the out port it names, None when the port does not exist (more result wires bound
   than the operation has outputs) *)
Definition tenv := list (wid * option tyid).

Definition wire_ty (G : tenv) (w : wid) : option tyid :=
  match lookup G w with Some (Some t) => Some t | _ => None end.
Fixpoint wire_tys (G : tenv) (ws : list wid) : option row :=
  match ws with
  | [] => Some []
  | w :: r => match wire_ty G w, wire_tys G r with Some t, Some ts => Some (t :: ts) | _, _ => None end
  end.
Fixpoint tbind_from (G : tenv) (i : N) (ws : list wid) (outs : row) : tenv :=
  match ws with
  | [] => G
  | w :: r => tbind_from ((w, nthN outs i) :: G) (i + 1) r outs
  end.
Definition tbind (G : tenv) (ws : list wid) (outs : row) : tenv := tbind_from G 0 ws outs.

Definition opspec_ok (tys : list tyinfo) (o : opspec) : bool :=
  match o with
  | OTag t vs s => is_sum_of tys s vs && (t <? lenN vs)
  | _ => true
  end.
Definition order_ends_ok (src dst : nref) : bool :=
  match src with ROut => false | _ => true end && match dst with RIn => false | _ => true end.

Section WT.
  Variable tys : list tyinfo.

  Fixpoint wt_stmt (s : stmt) (G : tenv) {struct s} : option tenv :=
    match s with
    | SOp _ o args rs =>
        match wire_tys G args with
        | Some ts =>
            match completed_op tys o ts with
            | Ok op' => if row_eqb (val_in op') ts && opspec_ok tys o then Some (tbind G rs (val_out op')) else None
            | Err _ => None
            end
        | None => None
        end
    | SLoad _ v _ r => if value_ok tys [] v then Some (tbind G [r] [value_ty v]) else None
    | SNested _ args body rs =>
        match wire_tys G args with
        | Some ts => match wt_region body ts G with
                     | Some (G', outs) => Some (tbind G' rs outs)
                     | None => None
                     end
        | None => None
        end
    | SOrder src dst => if order_ends_ok src dst then Some G else None
    end
  with wt_region (r : region) (ins : row) (G : tenv) {struct r} : option (tenv * row) :=
    match r with
    | Region ws body outs =>
        match wt_stmts body (tbind G ws ins) with
        | Some G1 => match wire_tys G1 outs with Some ts => Some (G1, ts) | None => None end
        | None => None
        end
    end
  with wt_stmts (l : stmts) (G : tenv) {struct l} : option tenv :=
    match l with
    | SNil => Some G
    | SCons s r => match wt_stmt s G with Some G1 => wt_stmts r G1 | None => None end
    end.

  Definition wt_prog (p : prog) : bool :=
    match p with PDfg ins body => match wt_region body ins [] with Some _ => true | None => false end end.
End WT.

(* ------------------------------------------------------------------ add_state_order goes forward *)
(* ord_prog p: statement ids are globally unique, and every add_state_order(src, dst) joins two nodes of the
   region it is written in, in program order: Input -> a statement of this region, a statement of this region
   -> a later statement of this region, anything but Output -> Output.  (hugr-py accepts any pair of nodes;
   an order edge against the program order can close a cycle.)
   scope: the ids of the statements of the current region so far, most recent first; used: all ids so far. *)
Fixpoint before (s s' : sid) (l : list sid) : bool :=
  match l with
  | [] => false
  | x :: r => if x =? s' then memN s r else before s s' r
  end.
Definition order_fwd (scope : list sid) (src dst : nref) : bool :=
  match src, dst with
  | RIn, RStmt s' => memN s' scope
  | RIn, ROut => true
  | RStmt s, ROut => memN s scope
  | RStmt s, RStmt s' => before s s' scope
  | _, _ => false
  end.

Fixpoint ord_stmt (s : stmt) (scope used : list sid) {struct s} : option (list sid * list sid) :=
  match s with
  | SOp id _ _ _ => if memN id used then None else Some (id :: scope, id :: used)
  | SLoad id _ _ _ => if memN id used then None else Some (id :: scope, id :: used)
  | SNested id _ body _ =>
      if memN id used then None
      else match ord_region body (id :: used) with
           | Some used' => Some (id :: scope, used')
           | None => None
           end
  | SOrder src dst => if order_fwd scope src dst then Some (scope, used) else None
  end
with ord_region (r : region) (used : list sid) {struct r} : option (list sid) :=
  match r with
  | Region _ body _ => match ord_stmts body [] used with Some (_, used') => Some used' | None => None end
  end
with ord_stmts (l : stmts) (scope used : list sid) {struct l} : option (list sid * list sid) :=
  match l with
  | SNil => Some (scope, used)
  | SCons s r => match ord_stmt s scope used with Some (sc, us) => ord_stmts r sc us | None => None end
  end.

Definition ord_prog (p : prog) : bool :=
  match p with PDfg _ body => match ord_region body [] with Some _ => true | None => false end end.

(* ------------------------------------------------------------------ linear values are used exactly once, and locally *)
(* lin_prog tys p (for a well-typed p): wire ids are never re-bound; every output of non-copyable type is bound to
   a wire; every wire of non-copyable type is consumed exactly once, in the region that bound it (as an argument
   of add_op / add_nested or by set_outputs).  pend: the non-copyable wires of the current region not yet
   consumed.  Wires of copyable type may be used any number of times, also from enclosing regions. *)
Definition removeN (w : wid) (l : list wid) : list wid := filter (fun x => negb (x =? w)) l.

Section LIN.
  Variable tys : list tyinfo.

  Fixpoint use_wires (G : tenv) (pend : list wid) (args : list wid) : option (list wid) :=
    match args with
    | [] => Some pend
    | w :: r =>
        match wire_ty G w with
        | None => None
        | Some t => if ty_copy tys t then use_wires G pend r
                    else if memN w pend then use_wires G (removeN w pend) r else None
        end
    end.
  (* the result wires bound to non-copyable outputs *)
  Fixpoint lin_outs_from (i : N) (rs : list wid) (outs : row) : list wid :=
    match rs with
    | [] => []
    | r :: rest =>
        match nthN outs i with
        | Some t => if ty_copy tys t then lin_outs_from (i + 1) rest outs else r :: lin_outs_from (i + 1) rest outs
        | None => lin_outs_from (i + 1) rest outs
        end
    end.
  Definition lin_outs (rs : list wid) (outs : row) : list wid := lin_outs_from 0 rs outs.
  (* every non-copyable output has a wire *)
  Definition covers (rs : list wid) (outs : row) : bool :=
    forallb (fun x => ty_copy tys (snd x) || (fst x <? lenN rs)) (indexed outs).
  (* new wire ids: distinct and not bound so far *)
  Definition fresh_ws (G : tenv) (rs : list wid) : bool :=
    nodupb N.eqb rs && forallb (fun r => negb (is_some (lookup G r))) rs.

  Fixpoint lin_stmt (s : stmt) (G : tenv) (pend : list wid) {struct s} : option (list wid) :=
    match s with
    | SOp _ o args rs =>
        match wire_tys G args with
        | Some ts =>
            match completed_op tys o ts, use_wires G pend args with
            | Ok op', Some pend1 =>
                if fresh_ws G rs && covers rs (val_out op') then Some (lin_outs rs (val_out op') ++ pend1) else None
            | _, _ => None
            end
        | None => None
        end
    | SLoad _ v _ r => if fresh_ws G [r] then Some (lin_outs [r] [value_ty v] ++ pend) else None
    | SNested _ args body rs =>
        match wire_tys G args with
        | Some ts =>
            match use_wires G pend args, wt_region tys body ts G with
            | Some pend1, Some (G1, outs) =>
                if lin_region body ts G && fresh_ws G1 rs && covers rs outs then Some (lin_outs rs outs ++ pend1) else None
            | _, _ => None
            end
        | None => None
        end
    | SOrder _ _ => Some pend
    end
  with lin_region (r : region) (ins : row) (G : tenv) {struct r} : bool :=
    match r with
    | Region ws body oids =>
        fresh_ws G ws && covers ws ins &&
        match lin_stmts body (tbind G ws ins) (lin_outs ws ins), wt_stmts tys body (tbind G ws ins) with
        | Some pend1, Some G1 => match use_wires G1 pend1 oids with Some [] => true | _ => false end
        | _, _ => false
        end
    end
  with lin_stmts (l : stmts) (G : tenv) (pend : list wid) {struct l} : option (list wid) :=
    match l with
    | SNil => Some pend
    | SCons s r =>
        match lin_stmt s G pend, wt_stmt tys s G with
        | Some p1, Some G1 => lin_stmts r G1 p1
        | _, _ => None
        end
    end.

  Definition lin_prog (p : prog) : bool := match p with PDfg ins body => lin_region body ins [] end.
End LIN.

(* the well-formedness premise of the property: all three *)
Definition wf_prog (tys : list tyinfo) (p : prog) : bool := wt_prog tys p && ord_prog p && lin_prog tys p.
