(* Specification for C15, written independently of the tracked list of the implementation:
   an abstract history of binding events (index |-> wire, or index retired), newest first.  An integer
   argument denotes the wire of the most recent event for that index.  `explicit p` is the plain-Dfg
   program obtained from the tracked program p by replacing every integer by the wire it denotes at
   that moment; the plain builder itself (Tracked.prun) is the reference semantics. *)
From Coq Require Import ZArith NArith List Bool Arith.
Import ListNotations.
From HV Require Import lib.Harness model.Tracked.

Definition event := (Z * option wire)%type.      (* Some w: bound to w;  None: untracked for good *)
Record astate := mkA {
  a_log : list event;      (* newest first *)
  a_next : Z;              (* next fresh index *)
  a_cnt : N }.             (* nodes added so far by the explicit program *)

Fixpoint latest (log : list event) (i : Z) : option (option wire) :=
  match log with
  | [] => None
  | (k, v) :: r => if (k =? i)%Z then Some v else latest r i
  end.
(* the wire an integer denotes *)
Definition denotes (st : astate) (i : Z) : option wire :=
  match latest (a_log st) i with Some (Some w) => Some w | _ => None end.

Definition resolve_arg (st : astate) (a : arg) : option wire :=
  match a with AW w => Some w | AI i => denotes st i end.
Fixpoint resolve_args (st : astate) (args : list arg) : option (list wire) :=
  match args with
  | [] => Some []
  | a :: r => match resolve_arg st a, resolve_args st r with
              | Some w, Some ws => Some (w :: ws)
              | _, _ => None
              end
  end.

Definition a_track (st : astate) (w : wire) : astate :=
  mkA ((a_next st, Some w) :: a_log st) (a_next st + 1)%Z (a_cnt st).
Definition a_untrack (st : astate) (i : Z) : astate :=
  mkA ((i, None) :: a_log st) (a_next st) (a_cnt st).

(* binding events of one added command, oldest first: integer at argument position j is rebound to
   output j of the new node n *)
Fixpoint rebind_events (n j : N) (args : list arg) : list event :=
  match args with
  | [] => []
  | AW _ :: r => rebind_events n (j + 1)%N r
  | AI i :: r => (i, Some (n, j)) :: rebind_events n (j + 1)%N r
  end.
Definition a_added (st : astate) (args : list arg) : astate :=
  mkA (rev (rebind_events (2 + a_cnt st)%N 0%N args) ++ a_log st) (a_next st) (a_cnt st + 1)%N.

(* all live indices in increasing order *)
Definition live_wires (st : astate) : list wire :=
  flat_map (fun k => match denotes st (Z.of_nat k) with Some w => [w] | None => [] end)
           (seq 0 (Z.to_nat (a_next st))).

(* one command: the plain commands it stands for, whether every integer denoted a wire, and the
   abstract state reached (when an integer does not denote a wire the tracked builder must raise
   IndexError there; the state is the one at that moment and nothing follows) *)
Fixpoint explicit_coms (st : astate) (coms : list (opd * list arg)) : list pcmd * bool * astate :=
  match coms with
  | [] => ([], true, st)
  | (op, args) :: r =>
      match resolve_args st args with
      | None => ([], false, st)
      | Some ws => let '(q, ok, st') := explicit_coms (a_added st args) r in (PAdd op [] ws :: q, ok, st')
      end
  end.

Definition explicit_cmd (nin : N) (st : astate) (c : cmd) : list pcmd * bool * astate :=
  match c with
  | TrackWire w => ([], true, a_track st w)
  | TrackWires ws => ([], true, fold_left a_track ws st)
  | TrackInputs => ([], true, fold_left a_track (inputs nin) st)
  | Untrack i => match denotes st i with
                 | Some _ => ([], true, a_untrack st i)
                 | None => ([], false, st)
                 end
  | Add op m args => match resolve_args st args with
                     | Some ws => ([PAdd op m ws], true, a_added st args)
                     | None => ([], false, st)
                     end
  | Extend coms => explicit_coms st coms
  | SetIndexedOutputs args => match resolve_args st args with
                              | Some ws => ([PSetOutputs ws], true, st)
                              | None => ([], false, st)
                              end
  | SetTrackedOutputs => ([PSetOutputs (live_wires st)], true, st)
  end.

Fixpoint explicit_from (nin : N) (st : astate) (p : list cmd) : list pcmd * bool * astate :=
  match p with
  | [] => ([], true, st)
  | c :: r => match explicit_cmd nin st c with
              | (q, true, st') => let '(q', ok, fin) := explicit_from nin st' r in (q ++ q', ok, fin)
              | (q, false, st') => (q, false, st')
              end
  end.

Definition a_init (nin : N) (track : bool) : astate :=
  if track then fold_left a_track (inputs nin) (mkA [] 0%Z 0%N) else mkA [] 0%Z 0%N.
Definition explicit (nin : N) (track : bool) (p : list cmd) : list pcmd * bool * astate :=
  explicit_from nin (a_init nin track) p.

(* the tracked table as the abstract state sees it: index k |-> denotes k, for k < a_next *)
Definition table (st : astate) : list (option wire) :=
  map (fun k => denotes st (Z.of_nat k)) (seq 0 (Z.to_nat (a_next st))).
