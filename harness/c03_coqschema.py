"""C03 — JSON documents as Gallina data for the Coq-evaluated schema monitor and the tie between the model's
`doc_json` and the JSON text the implementation emitted (coq/run/C03SchemaRun.v).

Size matters: Coq elaborates ~25 KB of JSON text per second when every string is written out as a `string`
literal, and nested `let`s are far worse (measured: 1600 nested lets around 400 KB take 220 s).  So the values of
one case are hash-consed into a flat table: a list of strings (each distinct string once) and a list of `sj`
definitions in which strings are indices into the first list and every sub-value that occurs more than once in
the DAG of the case is its own definition, referred to by `SR index`.  HUGR documents are very repetitive (types,
signatures, keys); the literal shrinks about 10x and elaborates in linear time.  `expand_all` (run file)
rebuilds the `json` trees.  Objects keep their member order (the order of the emitted text)."""
from __future__ import annotations

import json
import math


class Unprintable(Exception):
    pass


def gstring(s: str) -> str:
    """Coq string literal (bytes = UTF-8 of s).  Characters a Coq string literal cannot hold are spliced in
    through their code."""
    parts, cur = [], []
    for ch in s:
        o = ord(ch)
        if 0xD800 <= o <= 0xDFFF:
            raise Unprintable("lone surrogate U+%04X" % o)
        if (o < 32 and ch not in "\n\t") or o == 127:
            if cur:
                parts.append('"' + "".join(cur) + '"')
                cur = []
            parts.append("(String (Ascii.ascii_of_nat %d) EmptyString)" % o)
        elif ch == '"':
            cur.append('""')
        else:
            cur.append(ch)
    if cur or not parts:
        parts.append('"' + "".join(cur) + '"')
    if len(parts) == 1:
        return parts[0] if parts[0].startswith('"') else parts[0]
    return "(" + " ++ ".join(parts) + ")%string"


class Dag:
    """Hash-consed JSON values of one case."""

    def __init__(self):
        self.tab = {}        # structural key -> id
        self.nodes = []      # id -> (tag, payload)
        self.roots = []

    def _mk(self, key, node):
        i = self.tab.get(key)
        if i is None:
            i = len(self.nodes)
            self.tab[key] = i
            self.nodes.append(node)
        return i

    def s(self, x: str) -> int:
        return self._mk(("s", x), ("s", x))

    def add(self, j) -> int:
        if j is None:
            return self._mk(("n",), ("n", None))
        if j is True or j is False:
            return self._mk(("b", j), ("b", j))
        if isinstance(j, int):
            return self._mk(("i", j), ("i", j))
        if isinstance(j, float):
            if math.isnan(j) or math.isinf(j):
                raise Unprintable("non-finite number")
            if j.is_integer():          # JSON Schema: 2.0 is an integer
                return self._mk(("i", int(j)), ("i", int(j)))
            return self._mk(("f", repr(j)), ("f", self.s(repr(j))))
        if isinstance(j, str):
            return self._mk(("S", j), ("S", self.s(j)))
        if isinstance(j, list):
            ch = tuple(self.add(x) for x in j)
            return self._mk(("a", ch), ("a", ch))
        if isinstance(j, dict):
            ch = tuple((self.s(k), self.add(v)) for k, v in j.items())
            return self._mk(("o", ch), ("o", ch))
        raise Unprintable("not a JSON value: %r" % type(j))

    def members(self, j: dict) -> int:
        """an object whose member list the Coq side uses (operation / metadata tables)"""
        assert isinstance(j, dict)
        return self.add(j)

    def children(self, i):
        tag, p = self.nodes[i]
        if tag in ("f", "S"):
            return [p]
        if tag == "a":
            return list(p)
        if tag == "o":
            return [x for kv in p for x in kv]
        return []

    def render(self, roots: list[int]):
        """-> (Gallina list of strings, Gallina list of sj definitions, {root id: definition index}).
        Every string goes to the string table; every sub-value referenced more than once in the DAG, and every
        root, becomes a definition; a definition refers to earlier ones by `SR index`
        (coq/run/C03SchemaRun.v `expand_all`)."""
        refs = [0] * len(self.nodes)
        seen = set()
        stack = list(roots)
        while stack:
            i = stack.pop()
            if i in seen:
                continue
            seen.add(i)
            for c in self.children(i):
                refs[c] += 1
                stack.append(c)
        rootset = set(roots)
        strs, sidx = [], {}
        defs, didx = [], {}

        def sref(k):
            x = self.nodes[k][1]
            if x not in sidx:
                sidx[x] = len(strs)
                strs.append(gstring(x))
            return "%d" % sidx[x]

        for r in roots:
            if r in didx:
                continue
            out = {}
            st = [(r, False)]
            while st:
                k, done = st.pop()
                if k in didx or k in out:
                    continue
                tag, p = self.nodes[k]
                if tag == "s":
                    continue
                if not done:
                    st.append((k, True))
                    for c in self.children(k):
                        if c not in didx and c not in out:
                            st.append((c, False))
                    continue
                g = lambda c: ("(SR %d)" % didx[c]) if c in didx else out[c]
                if tag == "n":
                    t = "SN"
                elif tag == "b":
                    t = "(SB true)" if p else "(SB false)"
                elif tag == "i":
                    t = "(SI (%d))" % p
                elif tag == "f":
                    t = "(SF %s)" % sref(p)
                elif tag == "S":
                    t = "(SS %s)" % sref(p)
                elif tag == "a":
                    t = "(SA [" + "; ".join(g(c) for c in p) + "])"
                else:
                    t = "(SO [" + "; ".join("P %s %s" % (sref(a), g(b)) for a, b in p) + "])"
                if k in rootset or (refs[k] >= 2 and tag in ("a", "o", "S", "f") and len(t) > 10):
                    didx[k] = len(defs)
                    defs.append(t)
                else:
                    out[k] = t
        return ("[" + "; ".join(strs) + "]", "[" + ";\n".join(defs) + "]", didx)


def _no_dups(pairs):
    d = {}
    for k, v in pairs:
        if k in d:
            raise Unprintable("duplicate member %r in an object" % k)
        d[k] = v
    return d


def parse(text: str):
    """the emitted text as Python data; duplicate members (never produced by pydantic; Python's json would silently
    keep the last) are refused"""
    return json.loads(text, object_pairs_hook=_no_dups)


def gopt_string(s):
    return "None" if s is None else "(Some %s)" % gstring(s)
