#!/bin/sh
# Stand-alone test of the Rust-table tie of C01: regenerate coq/gen/RustTables.v from $VERIF_REPO (default /repo),
# build gen/RustTables.vo, model/Validity.vo (if stale), proofs/RustTablesP.vo and proofs/RustSigP.vo, and print the assumptions of the
# theorems.  Exit 0 iff the scanner accepted the sources, both files compiled and every theorem is closed.
#   usage: VERIF_REPO=/work/r-V01 harness/translators/test_rust_tables.sh
set -u
HERE=$(cd "$(dirname "$0")" && pwd)
VERIF=$(cd "$HERE/../.." && pwd)
REPO=${VERIF_REPO:-/repo}
PY=${VERIF_PYTHON:-/venv/bin/python}
COQ="$VERIF/coq"
W="-w -notation-overridden,-deprecated-hint-without-locality,-deprecated-syntactic-definition"

"$PY" "$HERE/rust_tables.py" "$REPO" "$COQ" || { echo "FAIL: scanner rejected $REPO"; exit 2; }
cd "$COQ" || exit 2
for f in lib/Harness model/Validity; do
  if [ ! -f "$f.vo" ] || [ "$f.v" -nt "$f.vo" ]; then
    timeout 600 coqc -Q . HV $W "$f.v" || { echo "FAIL: $f.v"; exit 1; }
  fi
done
timeout 600 coqc -Q . HV $W gen/RustTables.v || { echo "FAIL: gen/RustTables.v"; exit 1; }
timeout 900 coqc -Q . HV $W proofs/RustTablesP.v || { echo "FAIL: proofs/RustTablesP.v does not hold of the regenerated tables"; exit 1; }
timeout 900 coqc -Q . HV $W proofs/RustSigP.v || { echo "FAIL: proofs/RustSigP.v does not hold of the regenerated tables"; exit 1; }
TMP=$(mktemp -d)
cat > "$TMP/RustTablesCheck.v" <<'EOF'
From HV Require Import proofs.RustTablesP proofs.RustSigP.
Print Assumptions is_superset_spec.
Print Assumptions is_superset_fuel_enough.
Print Assumptions is_superset_antisym.
Print Assumptions vrow_total.
Print Assumptions optypes_modelled.
Print Assumptions rnames_are_optypes.
Print Assumptions flag_tags_in_lattice.
Print Assumptions allowed_child_matches.
Print Assumptions r_child_tags_matches.
Print Assumptions fs_check_matches.
Print Assumptions r_first_second_matches.
Print Assumptions requires_children_matches.
Print Assumptions requires_dag_matches.
Print Assumptions r_acyclic_matches.
Print Assumptions children_check_matches.
Print Assumptions signature_matches.
Print Assumptions static_ports_match.
Print Assumptions other_ports_match.
Print Assumptions port_layout_matches.
Print Assumptions tag_tests_match.
Print Assumptions kind_in_matches.
Print Assumptions kind_out_matches.
Print Assumptions edge_kinds_match.
Print Assumptions inputs_must_connect_matches.
Print Assumptions r_inputs_once_matches.
Print Assumptions r_linear_once_matches.
Print Assumptions fields_modelled.
Print Assumptions df_sig_matches.
Print Assumptions inner_sig_matches.
Print Assumptions case_rows_match.
Print Assumptions successor_rows_match.
Print Assumptions block_input_rows_match.
EOF
OUT=$(cd "$TMP" && timeout 300 coqc -Q "$COQ" HV $W RustTablesCheck.v 2>&1)
rc=$?
# the property-level statements proposed for coq/props/C01.v
cp "$HERE/C01_rust_tables.props.v" "$TMP/C01RustTablesProps.v"
OUT2=$(cd "$TMP" && timeout 300 coqc -Q "$COQ" HV $W C01RustTablesProps.v 2>&1)
rc2=$?
rm -rf "$TMP"
echo "$OUT"
[ $rc -eq 0 ] || { echo "FAIL: Print Assumptions"; exit 1; }
n=$(echo "$OUT" | grep -c "Closed under the global context")
if [ "$n" -ne 32 ]; then echo "FAIL: $n of 32 theorems closed"; exit 1; fi
echo "$OUT2"
[ $rc2 -eq 0 ] || { echo "FAIL: C01_rust_tables.props.v"; exit 1; }
m=$(echo "$OUT2" | grep -c "Closed under the global context")
k=$(grep -c "^Theorem C01_validity_tables_match_rust" "$HERE/C01_rust_tables.props.v")
if [ "$m" -ne "$k" ]; then echo "FAIL: $m of $k property-level theorems closed"; exit 1; fi
echo "OK rust-tables-props: $k property-level theorems closed under the global context"
echo "OK rust-tables: scanner accepted $REPO, 32 theorems closed under the global context"
