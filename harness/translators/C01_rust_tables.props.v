(* C01 — property-level theorems of the Rust-table tie (to be pasted into coq/props/C01.v by the orchestrator; this
   file is compiled by harness/translators/test_rust_tables.sh to make sure the lines are right).

   Additional imports for props/C01.v:
     (none from Coq)
     From HV Require Import gen.RustTables proofs.RustTablesP proofs.RustSigP.

   coq/model/Validity.v (the executable validity predicate `valid`) is a hand transcription of the Rust reference
   validator.  The theorems below tie its TABLES to constants regenerated on every run from the Rust source text
   (gen/RustTables.v, harness/translators/rust_tables.py, fail closed).  `vrow o` is the row of the regenerated tables
   for the OpType variant the operation `o` of Validity.v stands for (`rnames`, proofs/RustTablesP.v). *)
From Coq Require Import NArith List Bool.
Import ListNotations.
From HV Require Import lib.Harness model.Validity gen.RustTables proofs.RustTablesP proofs.RustSigP.

(* OpTag::is_superset over the regenerated lattice (fuel = number of tags) is the reflexive-transitive closure of
   immediate_supersets, whatever the fuel ... *)
Theorem C01_validity_tables_match_rust_lattice : forall a b, In a rs_tags ->
  (is_superset a b = true <-> Sup a b).
Proof. exact is_superset_spec. Qed.
Print Assumptions C01_validity_tables_match_rust_lattice.

(* ... and the lattice has no cycle (the Rust recursion terminates). *)
Theorem C01_validity_tables_match_rust_lattice_acyclic : forall a b, In a rs_tags -> In b rs_tags ->
  is_superset a b = true -> is_superset b a = true -> a = b.
Proof. exact is_superset_antisym. Qed.
Print Assumptions C01_validity_tables_match_rust_lattice_acyclic.

(* Every table has a row for every OpType variant an operation of Validity.v stands for; these are variants of enum
   OpType; every variant of enum OpType is modelled. *)
Theorem C01_validity_tables_match_rust_coverage :
  (forall o k, In k (rnames o) -> krow k = Some (vrow o)) /\
  (forall o k, In k (rnames o) -> In k rs_optypes) /\
  (forall k, In k rs_optypes -> exists o, In k (rnames o)).
Proof. exact tables_cover. Qed.
Print Assumptions C01_validity_tables_match_rust_coverage.

(* Rule 1 (permitted parent/child pairs), for every graph: the child's tag is in the parent's allowed_children. *)
Theorem C01_validity_tables_match_rust_child_tags : forall g,
  r_child_tags g =
  forallb (fun x => (fst x =? 0)%N ||
                    match op_of g (n_parent (snd x)) with
                    | Some p => is_superset (rw_allowed (vrow p)) (vtag (n_op (snd x)))
                    | None => false
                    end) (indexed (g_nodes g)).
Proof. exact r_child_tags_matches. Qed.
Print Assumptions C01_validity_tables_match_rust_child_tags.

(* Rule 2 (first/second child, containers non-empty, no inner Input/Output/Exit), for every graph satisfying rule 1:
   the decision validate_children + validate_op_children make from the flags (r_children_ok; a single child of a
   dataflow parent / CFG makes the Rust code panic = not accepted). *)
Theorem C01_validity_tables_match_rust_children : forall g, r_child_tags g = true ->
  r_first_second g =
  forallb (fun x => match r_children_ok (vrow (n_op (snd x))) (map vtag (child_ops g (fst x))) with
                    | Some b => b
                    | None => false
                    end) (indexed (g_nodes g)).
Proof. exact r_first_second_matches. Qed.
Print Assumptions C01_validity_tables_match_rust_children.

(* Rule 10 applies to exactly the regions whose parent has requires_dag. *)
Theorem C01_validity_tables_match_rust_acyclic : forall g,
  r_acyclic g =
  forallb (fun x => negb (rw_req_dag (vrow (n_op (snd x)))) || region_acyclic g (redges g) (fst x)) (indexed (g_nodes g)).
Proof. exact r_acyclic_matches. Qed.
Print Assumptions C01_validity_tables_match_rust_acyclic.

(* Which operations have a dataflow signature / an inner signature / a static input or output / other ports, of which
   kind and how many. *)
Theorem C01_validity_tables_match_rust_ports : forall o,
  is_some (df_sig o) = rw_sig (vrow o) /\
  is_some (inner_sig o) = rw_dfparent (vrow o) /\
  kclass (static_in o) = rw_static_in (vrow o) /\
  kclass (static_out o) = rw_static_out (vrow o) /\
  kclass (fst (other_in o)) = rw_other_in (vrow o) /\
  kclass (fst (other_out o)) = rw_other_out (vrow o) /\
  r_count o (rw_cnt_in (vrow o)) (rw_other_in (vrow o)) = Some (snd (other_in o)) /\
  r_count o (rw_cnt_out (vrow o)) (rw_other_out (vrow o)) = Some (snd (other_out o)).
Proof. exact ports_match. Qed.
Print Assumptions C01_validity_tables_match_rust_ports.

(* OpType::port_kind: value ports, then the static port, then the other ports — for every port an operation has. *)
Theorem C01_validity_tables_match_rust_port_kind_in : forall o off, (off <? count_in o)%N = true ->
  kclass (kind_in o off) = r_port_kind (lenN (val_in o)) (rw_static_in (vrow o)) (rw_other_in (vrow o)) off.
Proof. exact kind_in_matches. Qed.
Print Assumptions C01_validity_tables_match_rust_port_kind_in.
Theorem C01_validity_tables_match_rust_port_kind_out : forall o off, (off <? count_out o)%N = true ->
  kclass (kind_out o off) = r_port_kind (lenN (val_out o)) (rw_static_out (vrow o)) (rw_other_out (vrow o)) off.
Proof. exact kind_out_matches. Qed.
Print Assumptions C01_validity_tables_match_rust_port_kind_out.

(* Rule 8, for every graph: every incoming port the operation has, whose kind is not one of rs_unconnected_ok_kinds
   (StateOrder, ControlFlow: validate_port's must_be_connected), has exactly one link (Rust: at least one). *)
Theorem C01_validity_tables_match_rust_inputs_once : forall g,
  r_inputs_once g =
  forallb (fun x => (fst x =? 0)%N ||
     forallb (fun off => match kind_in (n_op (snd x)) off with
                         | Some k => smem (kname k) rs_unconnected_ok_kinds || (links_into (redges g) (fst x) off =? 1)%N
                         | None => true
                         end) (upto (N.to_nat (count_in (n_op (snd x)))))) (indexed (g_nodes g)).
Proof. exact r_inputs_once_matches. Qed.
Print Assumptions C01_validity_tables_match_rust_inputs_once.

(* Rule 9, for every graph: every outgoing port the operation has, whose kind is a non-copyable value
   (EdgeKind::is_linear) or one of rs_linear_out_extra_kinds (ControlFlow: outgoing_is_linear), has exactly one link. *)
Theorem C01_validity_tables_match_rust_linear_once : forall tys g,
  r_linear_once tys g =
  forallb (fun x => (fst x =? 0)%N ||
     forallb (fun off => match kind_out (n_op (snd x)) off with
                         | Some k => negb (r_linear tys k) || (links_from (redges g) (fst x) off =? 1)%N
                         | None => true
                         end) (upto (N.to_nat (count_out (n_op (snd x)))))) (indexed (g_nodes g)).
Proof. exact r_linear_once_matches. Qed.
Print Assumptions C01_validity_tables_match_rust_linear_once.

(* The rows of df_sig / inner_sig are the rows `fn signature` / `fn inner_signature` build from the struct fields; a type
   built by Type::new_sum / Type::new_function is the id rule 4 checks against the table. *)
Theorem C01_validity_tables_match_rust_signatures : forall tys o k, derived_ok tys o = true -> In k (rnames o) ->
  sig_agrees tys o [] (slookup k rs_signature) (df_sig o) = true.
Proof. exact df_sig_matches. Qed.
Print Assumptions C01_validity_tables_match_rust_signatures.
Theorem C01_validity_tables_match_rust_inner_signatures : forall tys o k, derived_ok tys o = true -> In k (rnames o) ->
  sig_agrees tys o [] (slookup k rs_inner_signature) (inner_sig o) = true.
Proof. exact inner_sig_matches. Qed.
Print Assumptions C01_validity_tables_match_rust_inner_signatures.
