"""C17 translator (fail closed): specification/schema/*.json and the schemas the pydantic models define NOW
-> coq/gen/Schemas.v  (JSON trees as Gallina constants of type HV.model.Schema.json).

* published_*: the files on disk, parsed with Python's json (duplicate keys, NaN, non-UTF-8 rejected).
* generated_*: `scripts/generate_schema.py <tmpdir>` of the checkout under test, run in a fresh subprocess
  (it rebuilds the pydantic models with another config, which must not leak into this process), files read back.
* version constants: serialization_version(), get_version() of the four model classes (fresh subprocess),
  and the <prefix>_<version>.json naming of both file sets.

Compactness: every `$defs` entry is emitted once (`Definition dN`) and shared between the eight schemas
(strict/lax x hugr/testing x published/generated overlap almost entirely), strings are Coq string literals.
"""
from __future__ import annotations

import json
import os
import re
import subprocess
import sys
import tempfile

PREFIXES = ["testing_hugr_schema_strict", "testing_hugr_schema", "hugr_schema_strict", "hugr_schema"]
CONST = {"hugr_schema": "hugr", "hugr_schema_strict": "hugr_strict",
         "testing_hugr_schema": "testing", "testing_hugr_schema_strict": "testing_strict"}
FILE_RE = re.compile(r"^(testing_hugr_schema_strict|testing_hugr_schema|hugr_schema_strict|hugr_schema)_(.+)\.json$")

KEYWORDS = {
    "type": "payload", "properties": "map", "required": "set", "additionalProperties": "schema", "items": "schema",
    "prefixItems": "list", "anyOf": "list", "oneOf": "list", "const": "payload", "enum": "set", "$ref": "payload",
    "$defs": "map", "minItems": "payload", "maxItems": "payload", "uniqueItems": "payload", "pattern": "payload",
    "title": "data", "description": "data", "default": "data", "discriminator": "data",
}


class TranslatorError(Exception):
    pass


def _no_dups(pairs):
    d = {}
    for k, v in pairs:
        if k in d:
            raise TranslatorError("duplicate key %r in a JSON object" % k)
        d[k] = v
    return d


def _bad_const(x):
    raise TranslatorError("non-finite number %s" % x)


def load_json(path):
    with open(path, "rb") as f:
        raw = f.read()
    return json.loads(raw.decode("utf-8"), object_pairs_hook=_no_dups, parse_constant=_bad_const)


def check_keywords(s, path="$"):
    """Fails closed on any keyword outside the formalised subset (schema positions only)."""
    if isinstance(s, bool):
        return
    if not isinstance(s, dict):
        raise TranslatorError("%s: a schema must be an object or a boolean" % path)
    for k, v in s.items():
        kind = KEYWORDS.get(k)
        if kind is None:
            raise TranslatorError("%s: JSON-Schema keyword %r is outside the formalised subset" % (path, k))
        if kind == "schema":
            check_keywords(v, path + "/" + k)
        elif kind == "list":
            if not isinstance(v, list):
                raise TranslatorError("%s/%s: array of schemas expected" % (path, k))
            for i, x in enumerate(v):
                check_keywords(x, "%s/%s/%d" % (path, k, i))
        elif kind == "map":
            if not isinstance(v, dict):
                raise TranslatorError("%s/%s: object expected" % (path, k))
            for n, x in v.items():
                check_keywords(x, "%s/%s/%s" % (path, k, n))


# ------------------------------------------------------------------------------------- Gallina printing

def gstring(s: str) -> str:
    for ch in s:
        o = ord(ch)
        if (o < 32 and ch not in "\n\t") or o == 127 or 0xD800 <= o <= 0xDFFF:
            raise TranslatorError("unprintable character U+%04X in a string" % o)
    return '"' + s.replace('"', '""') + '"'


def gjson(j) -> str:
    if j is None:
        return "JNull"
    if j is True:
        return "(JBool true)"
    if j is False:
        return "(JBool false)"
    if isinstance(j, int):
        return "(JNum (%d))" % j
    if isinstance(j, float):
        if j != j or j in (float("inf"), float("-inf")):
            raise TranslatorError("non-finite number")
        if j == int(j) and abs(j) < 2 ** 63:
            return "(JNum (%d))" % int(j)
        return "(JFlt %s)" % gstring(repr(j))
    if isinstance(j, str):
        return "(JStr %s)" % gstring(j)
    if isinstance(j, list):
        return "(JArr [" + "; ".join(gjson(x) for x in j) + "])"
    if isinstance(j, dict):
        return "(JObj [" + "; ".join("(%s, %s)" % (gstring(k), gjson(v)) for k, v in j.items()) + "])"
    raise TranslatorError("not a JSON value: %r" % type(j))


# ------------------------------------------------------------------------------------- sources

def read_published(repo):
    d = os.path.join(repo, "specification", "schema")
    found, files = {}, []
    for fn in sorted(os.listdir(d)):
        if not fn.endswith(".json"):
            continue
        m = FILE_RE.match(fn)
        if not m:
            raise TranslatorError("unexpected file in specification/schema: " + fn)
        files.append((m.group(1), m.group(2)))
        if m.group(1) in found:
            raise TranslatorError("two published files for " + m.group(1))
        found[m.group(1)] = load_json(os.path.join(d, fn))
    for p in PREFIXES:
        if p not in found:
            raise TranslatorError("published schema file missing: %s_<version>.json" % p)
    return found, files


def _env(repo):
    env = dict(os.environ)
    env.update(PYTHONPATH=os.path.join(repo, "hugr-py", "src"), PYTHONHASHSEED="0", PYTHONDONTWRITEBYTECODE="1")
    return env


def run_generate(repo, workdir):
    out = tempfile.mkdtemp(prefix="gen-schema-", dir=workdir)
    p = subprocess.run([sys.executable, os.path.join(repo, "scripts", "generate_schema.py"), out],
                       env=_env(repo), stdout=subprocess.PIPE, stderr=subprocess.STDOUT, text=True, timeout=300)
    if p.returncode != 0:
        raise TranslatorError("scripts/generate_schema.py failed:\n" + p.stdout[-2000:])
    found, files = {}, []
    for fn in sorted(os.listdir(out)):
        m = FILE_RE.match(fn)
        if not m:
            raise TranslatorError("generate_schema.py wrote an unexpected file: " + fn)
        files.append((m.group(1), m.group(2)))
        found[m.group(1)] = load_json(os.path.join(out, fn))
    for p_ in PREFIXES:
        if p_ not in found:
            raise TranslatorError("generate_schema.py did not write %s_<version>.json" % p_)
    return found, files


VERSION_PROG = r"""
import json
from hugr._serialization.serial_hugr import SerialHugr, serialization_version
from hugr._serialization.testing_hugr import TestingHugr
from hugr._serialization.extension import Extension, Package
print(json.dumps({"serialization_version": serialization_version(),
                  "models": [[c.__name__, c.get_version()] for c in (SerialHugr, TestingHugr, Extension, Package)]}))
"""


def read_versions(repo):
    p = subprocess.run([sys.executable, "-c", VERSION_PROG], env=_env(repo), stdout=subprocess.PIPE,
                       stderr=subprocess.PIPE, text=True, timeout=120)
    if p.returncode != 0:
        raise TranslatorError("version query failed:\n" + p.stderr[-2000:])
    v = json.loads(p.stdout.strip().splitlines()[-1])
    if not isinstance(v["serialization_version"], str) or not all(isinstance(x[1], str) for x in v["models"]):
        raise TranslatorError("version strings are not strings: %r" % v)
    return v


# ------------------------------------------------------------------------------------- the .v file

def render(published, pub_files, generated, gen_files, versions, defs_out=None) -> str:
    defs: dict[str, str] = {} if defs_out is None else defs_out     # canonical text -> constant name
    body = []

    def schema_const(name, s):
        check_keywords(s, name)
        if not isinstance(s, dict) or "$defs" not in s or not isinstance(s["$defs"], dict):
            raise TranslatorError(name + ": top level must be an object with $defs")
        ents = []
        for k, v in s.items():
            if k == "$defs":
                ds = []
                for dn, dv in v.items():
                    key = json.dumps(dv, ensure_ascii=False)
                    if key not in defs:
                        defs[key] = "d%d" % len(defs)
                        body.append("Definition %s : json := %s." % (defs[key], gjson(dv)))
                    ds.append("(%s, %s)" % (gstring(dn), defs[key]))
                ents.append('("$defs", JObj [\n  ' + ";\n  ".join(ds) + "])")
            else:
                ents.append("(%s, %s)" % (gstring(k), gjson(v)))
        return "Definition %s : json := JObj [%s]." % (name, ";\n ".join(ents))

    consts = []
    for p in PREFIXES:
        consts.append(schema_const("published_" + CONST[p], published[p]))
        consts.append(schema_const("generated_" + CONST[p], generated[p]))
    gl = lambda xs: "[" + "; ".join("(%s, %s)" % (gstring(a), gstring(b)) for a, b in xs) + "]"
    head = ("(* GENERATED by harness/translators/schema.py on every check run - do not edit. *)\n"
            "From Coq Require Import List ZArith String.\nImport ListNotations.\n"
            "From HV Require Import model.Schema.\nOpen Scope string_scope.\nOpen Scope Z_scope.\n\n")
    tail = ("\nDefinition serialization_version : string := %s.\n"
            "Definition model_versions : list (string * string) := %s.\n"
            "Definition published_files : list (string * string) := %s.\n"
            "Definition generated_files : list (string * string) := %s.\n"
            % (gstring(versions["serialization_version"]), gl(versions["models"]), gl(pub_files), gl(gen_files)))
    return head + "\n".join(body) + "\n\n" + "\n".join(consts) + "\n" + tail


def regenerate(repo, coq_dir, workdir):
    """Writes coq/gen/Schemas.v; returns (path, info) where info keeps the parsed schemas for extra()."""
    published, pub_files = read_published(repo)
    generated, gen_files = run_generate(repo, workdir)
    versions = read_versions(repo)
    defs: dict[str, str] = {}
    text = render(published, pub_files, generated, gen_files, versions, defs)
    path = os.path.join(coq_dir, "gen", "Schemas.v")
    same = _write_if_changed(path, text)
    return path, {"published": published, "generated": generated, "versions": versions,
                  "published_files": pub_files, "generated_files": gen_files, "changed": not same, "defs": defs}


def _write_if_changed(path, text):
    os.makedirs(os.path.dirname(path), exist_ok=True)
    try:
        same = open(path).read() == text
    except FileNotFoundError:
        same = False
    if not same:
        tmp = path + ".tmp%d" % os.getpid()
        with open(tmp, "w") as f:
            f.write(text)
        os.replace(tmp, path)
    return same


# ------------------------------------------------------------------------------------- rebuild ORDERS (C17 only)
# scripts/generate_schema.py runs ONE order of the four (root, configuration) rebuilds; what a rebuild defines must
# not depend on what was rebuilt before it in the process.  coq/gen/SchemaOrders.v holds, for a FIXED set of
# histories (it must not depend on tier or seed: the file is shared state), the schema `write_schema` of the
# checkout writes after every step, each history in its own fresh process.  gen/Schemas.v is not touched by this
# (C03 regenerates it too and must obtain the same text).

STEPS = [("testing", "strict"), ("testing", "lax"), ("hugr", "strict"), ("hugr", "lax")]      # generate_schema.py's order
STEP_PREFIX = {("hugr", "strict"): "hugr_schema_strict", ("hugr", "lax"): "hugr_schema",
               ("testing", "strict"): "testing_hugr_schema_strict", ("testing", "lax"): "testing_hugr_schema"}
ROOT_NAME = {"hugr": "SerialHugr", "testing": "TestingHugr"}


def euler_circuit(nodes, start):
    """Hierholzer on the complete digraph with loops: every ordered pair (a, b), a == b included, occurs as two
    consecutive steps exactly once (len = |nodes|^2 + 1)."""
    adj = {a: list(nodes) for a in nodes}
    stack, circ = [start], []
    while stack:
        v = stack[-1]
        if adj[v]:
            stack.append(adj[v].pop())
        else:
            circ.append(stack.pop())
    circ.reverse()
    return circ


def order_runs():
    ts, tl, hs, hl = STEPS
    runs = [[s] for s in STEPS]                        # each pair alone in a fresh process: the reference
    runs.append([hl, hs, tl, ts])                      # generate_schema.py's order reversed
    runs.append([ts, hs, tl, hl])                      # one configuration at a time, testing root first
    runs.append([hs, ts, hl, tl])                      # one configuration at a time, HUGR root first
    runs.append(euler_circuit(STEPS, ts))              # all 16 ordered pairs of consecutive steps
    runs.append(euler_circuit(list(reversed(STEPS)), hs))
    return runs


def run_order(repo, workdir, steps):
    out = tempfile.mkdtemp(prefix="gen-order-", dir=workdir)
    prog = os.path.join(os.path.dirname(os.path.dirname(os.path.abspath(__file__))), "c17", "seq_schema.py")
    p = subprocess.run([sys.executable, prog, repo, out, json.dumps(steps)], env=_env(repo),
                       stdout=subprocess.PIPE, stderr=subprocess.STDOUT, text=True, timeout=600)
    if p.returncode != 0:
        raise TranslatorError("write_schema in the order %r failed:\n%s" % (steps, p.stdout[-2000:]))
    files = json.loads(p.stdout.strip().splitlines()[-1])
    if len(files) != len(steps):
        raise TranslatorError("order %r: %d files for %d steps" % (steps, len(files), len(steps)))
    res = []
    for (fam, mode), fn in zip(steps, files):
        m = FILE_RE.match(os.path.basename(fn))
        if not m or m.group(1) != STEP_PREFIX[(fam, mode)]:
            raise TranslatorError("order %r: step (%s, %s) wrote %s" % (steps, fam, mode, os.path.basename(fn)))
        res.append({"step": [fam, mode], "version": m.group(2), "schema": load_json(fn)})
    return res


def expected_py(published, state, fam, mode):
    """Python mirror of SchemaSeq.expected (reports and searches only; the verdict is Coq's)."""
    e = dict(published[STEP_PREFIX[(fam, mode)]])
    e["$defs"] = dict(e["$defs"])
    subst = []
    for g in ("hugr", "testing"):
        s = state.get(g)
        if g != fam and s is not None:
            other = published[STEP_PREFIX[(g, s)]]["$defs"]
            if ROOT_NAME[g] in e["$defs"] and ROOT_NAME[g] in other:
                e["$defs"][ROOT_NAME[g]] = other[ROOT_NAME[g]]
                subst.append(ROOT_NAME[g])
    return e, subst


def render_orders(defs, runs) -> str:
    """runs: list of lists of {"step", "schema"}; `defs` = text -> constant name of gen/Schemas.v (shared)."""
    body, consts, names = [], [], {}
    local: dict[str, str] = {}

    def schema_const(s):
        key = json.dumps(s, ensure_ascii=False)
        if key in names:
            return names[key]
        name = "order_schema_%d" % len(names)
        check_keywords(s, name)
        if not isinstance(s, dict) or "$defs" not in s or not isinstance(s["$defs"], dict):
            raise TranslatorError(name + ": top level must be an object with $defs")
        ents = []
        for k, v in s.items():
            if k == "$defs":
                ds = []
                for dn, dv in v.items():
                    dk = json.dumps(dv, ensure_ascii=False)
                    if dk in defs:
                        ref = defs[dk]
                    else:
                        if dk not in local:
                            local[dk] = "od%d" % len(local)
                            body.append("Definition %s : json := %s." % (local[dk], gjson(dv)))
                        ref = local[dk]
                    ds.append("(%s, %s)" % (gstring(dn), ref))
                ents.append('("$defs", JObj [\n  ' + ";\n  ".join(ds) + "])")
            else:
                ents.append("(%s, %s)" % (gstring(k), gjson(v)))
        consts.append("Definition %s : json := JObj [%s]." % (name, ";\n ".join(ents)))
        names[key] = name
        return name

    fam = {"hugr": "FHugr", "testing": "FTesting"}
    mode = {"strict": "true", "lax": "false"}
    rs = []
    for run in runs:
        items = ["((%s, %s), %s)" % (fam[x["step"][0]], mode[x["step"][1]], schema_const(x["schema"])) for x in run]
        rs.append("  [" + "; ".join(items) + "]")
    head = ("(* GENERATED by harness/translators/schema.py (C17) on every check run - do not edit.\n"
            "   The schema scripts/generate_schema.py's write_schema writes after every step of a history of\n"
            "   (root, configuration) rebuilds; one fresh process per history. *)\n"
            "From Coq Require Import List ZArith String.\nImport ListNotations.\n"
            "From HV Require Import model.Schema model.SchemaSeq gen.Schemas.\nOpen Scope string_scope.\nOpen Scope Z_scope.\n\n")
    tail = "\nDefinition order_runs : list (list (step * json)) := [\n" + ";\n".join(rs) + "\n].\n"
    return head + "\n".join(body) + "\n\n" + "\n".join(consts) + "\n" + tail


def regenerate_orders(repo, coq_dir, workdir, info, jobs=4):
    """Writes coq/gen/SchemaOrders.v; returns (path, runs) with the parsed schemas for extra()."""
    from concurrent.futures import ThreadPoolExecutor
    hist = order_runs()
    with ThreadPoolExecutor(max_workers=max(1, jobs)) as ex:      # longest histories first; results in the fixed order
        futs = {i: ex.submit(run_order, repo, workdir, hist[i])
                for i in sorted(range(len(hist)), key=lambda i: -len(hist[i]))}
        runs = [futs[i].result() for i in range(len(hist))]
    text = render_orders(info["defs"], runs)
    path = os.path.join(coq_dir, "gen", "SchemaOrders.v")
    _write_if_changed(path, text)
    return path, runs


if __name__ == "__main__":
    repo = sys.argv[1]
    coq = sys.argv[2]
    with tempfile.TemporaryDirectory() as td:
        path, info = regenerate(repo, coq, td)
    print(path, os.path.getsize(path), info["versions"], info["published_files"], info["generated_files"])
