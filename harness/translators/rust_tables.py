"""C01 translator (fail closed): the DATA the reference validator reads from hugr-core's Rust sources
-> coq/gen/RustTables.v (Gallina constants only: strings, booleans, options, association lists).

The Rust validator cannot be built here; coq/model/Validity.v is a hand transcription.  What it transcribes is partly
code (the algorithms of hugr-core/src/hugr/validate.rs) and partly tables.  This module re-reads the tables from the
Rust source text on every run:

* ops/tag.rs      enum OpTag, `fn immediate_supersets` (the lattice), and the pinned text of `is_superset`/`is_empty`;
* ops.rs          enum OpType (with its enum_dispatch attribute), the defaults of trait OpTrait and trait ValidateOp,
                  the macro impl_validate_op, the `other_port` formula (which tag marks a static input);
* ops/{module,dataflow,controlflow,constant,custom,sum}.rs
                  per OpType variant: the tag (`impl StaticTag` + `fn tag`, or `impl DataflowOpTrait { const TAG }`
                  through the blanket `impl<T: DataflowOpTrait + Clone> OpTrait for T`), static_input / static_output /
                  other_input / other_output / non_df_port_count, whether it has a dataflow signature, whether it
                  implements DataflowParent;
* ops/validate.rs struct OpValidityFlags + its Default, `fn validity_flags` of every variant (explicit impl, the blanket
                  `impl<T: DataflowParent> ValidateOp for T`, or `impl_validate_op!(X)` = the default), which impl
                  supplies `validate_op_children`, the tags `validate_io_nodes` / CFG's children check reject in
                  inner positions;
* hugr/validate.rs the tag / edge-kind comparisons the edge and port rules make (`!= OpTag::Cfg`, `!= OpTag::Case`,
                  `!= EdgeKind::StateOrder`, `== EdgeKind::ControlFlow`) and the places where the flags are consulted;
* types.rs        enum EdgeKind, `is_static` (its matches! alternatives), pinned text of `is_linear`.

Everything is parsed from a token stream (comments and literals removed, brackets matched).  Fail closed: syntax outside
the few shapes listed below, an unknown tag or field, a duplicate or missing arm / impl, an unknown macro at item level,
an impl of one of the five traits for a type that is not an OpType variant => TranslatorError.  No Rust semantics is
guessed: a function body the scanner does not recognise literally is an error, never a default.
"""
from __future__ import annotations

import os
import re
import sys


class TranslatorError(Exception):
    pass


def fail(msg, *a):
    raise TranslatorError(msg % a if a else msg)


# ------------------------------------------------------------------------------------------------ tokens
_PUNCT = ["..=", "...", "::", "=>", "->", "..", "&&", "||", "==", "!=", "<=", ">=", "+=", "-=", "*=", "/=", "<<", ">>"]


def tokenize(src: str, path: str) -> list[str]:
    """Rust source -> tokens.  Comments dropped; string/char literals become the single token '"' (their content can
    never matter to a table); lifetimes become "'a".  Unknown characters fail."""
    toks = []
    i, n = 0, len(src)
    while i < n:
        c = src[i]
        if c.isspace():
            i += 1
        elif src.startswith("//", i):
            j = src.find("\n", i)
            i = n if j < 0 else j
        elif src.startswith("/*", i):
            depth, i = 1, i + 2
            while depth and i < n:
                if src.startswith("/*", i):
                    depth, i = depth + 1, i + 2
                elif src.startswith("*/", i):
                    depth, i = depth - 1, i + 2
                else:
                    i += 1
            if depth:
                fail("%s: unterminated block comment", path)
        elif c == '"' or (c in "br" and re.match(r'(b?r#*"|b")', src[i:])):
            m = re.match(r'b?r(#*)"', src[i:])
            if m:                                   # raw string
                end = '"' + m.group(1)
                j = src.find(end, i + m.end())
                if j < 0:
                    fail("%s: unterminated raw string", path)
                i = j + len(end)
            else:
                i = src.index('"', i) + 1
                while i < n and src[i] != '"':
                    i += 2 if src[i] == "\\" else 1
                if i >= n:
                    fail("%s: unterminated string", path)
                i += 1
            toks.append('"')
        elif c == "'":
            m = re.match(r"'(\\x[0-9a-fA-F]{2}|\\u\{[0-9a-fA-F_]+\}|\\.|[^\\'])'", src[i:])
            if m:
                toks.append('"')
                i += m.end()
            else:
                m = re.match(r"'[A-Za-z_][A-Za-z0-9_]*", src[i:])
                if not m:
                    fail("%s: stray quote at offset %d", path, i)
                toks.append(m.group(0))
                i += m.end()
        elif c.isalpha() or c == "_":
            m = re.match(r"[A-Za-z_][A-Za-z0-9_]*", src[i:])
            toks.append(m.group(0))
            i += m.end()
        elif c.isdigit():
            m = re.match(r"[0-9][0-9A-Za-z_]*(\.[0-9][0-9A-Za-z_]*)?", src[i:])
            toks.append(m.group(0))
            i += m.end()
        else:
            for p in _PUNCT:
                if src.startswith(p, i):
                    toks.append(p)
                    i += len(p)
                    break
            else:
                if c in "{}()[]<>,;:.=&|!#$?*+-/%^@~":
                    toks.append(c)
                    i += 1
                else:
                    fail("%s: unexpected character %r at offset %d", path, c, i)
    return toks


_OPEN = {"{": "}", "(": ")", "[": "]"}


def group(toks: list[str], path: str) -> list:
    """Tokens -> tree: a bracketed group becomes (open, [children])."""
    stack = [[]]
    opens = []
    for t in toks:
        if t in _OPEN:
            opens.append(t)
            stack.append([])
        elif t in _OPEN.values():
            if not opens or _OPEN[opens[-1]] != t:
                fail("%s: unbalanced %r", path, t)
            inner = stack.pop()
            stack[-1].append((opens.pop(), inner))
        else:
            stack[-1].append(t)
    if opens:
        fail("%s: unclosed %r", path, opens[-1])
    return stack[0]


def flat(tree) -> str:
    """Canonical text of a token tree (single spaces), for literal comparison with an expected shape."""
    out = []
    for t in tree:
        if isinstance(t, tuple):
            out.append(t[0])
            inner = flat(t[1])
            if inner:
                out.append(inner)
            out.append(_OPEN[t[0]])
        else:
            out.append(t)
    return " ".join(out)


def is_grp(t, o):
    return isinstance(t, tuple) and t[0] == o


# ------------------------------------------------------------------------------------------------ items
class Item:
    def __init__(self, kind, header, body, path, attrs):
        self.kind, self.header, self.body, self.path, self.attrs = kind, header, body, path, attrs

    def __repr__(self):
        return "<%s %s @%s>" % (self.kind, flat(self.header), self.path)


_ITEM_KW = {"impl", "trait", "enum", "struct", "fn", "mod", "use", "const", "static", "type", "macro_rules", "extern"}
# item-level macro invocations that cannot define any of the traits scanned here (their definitions are checked:
# impl_op_name in ops.rs implements NamedOp only; impl_op_ref_try_into defines as_x/is_x/TryFrom only)
_KNOWN_MACROS = {"impl_op_name", "impl_validate_op", "impl_op_ref_try_into"}


def items(tree, path, top=True) -> list[Item]:
    """Splits a brace body (or a file) into items.  Test modules (`#[cfg(test)] mod x {..}`) are dropped, every other
    item is kept.  An item = [attributes] [pub[(..)]] keyword header ( `{body}` | `;` ), or a macro invocation
    `name!( .. );`."""
    res = []
    i, n = 0, len(tree)
    while i < n:
        attrs = []
        while i < n and tree[i] == "#":
            j = i + 1
            if j < n and tree[j] == "!":
                j += 1
            if j >= n or not is_grp(tree[j], "["):
                fail("%s: malformed attribute", path)
            attrs.append(flat(tree[j][1]))
            i = j + 1
        if i >= n:
            if attrs:
                fail("%s: dangling attribute", path)
            break
        if tree[i] == "pub":
            i += 1
            if i < n and is_grp(tree[i], "("):
                i += 1
        # qualifiers
        while i < n and tree[i] in ("unsafe", "async", "default") :
            i += 1
        t = tree[i]
        if isinstance(t, tuple):
            fail("%s: unexpected group at item level: %s", path, flat([t])[:60])
        if t == "const" and i + 1 < n and tree[i + 1] == "fn":
            i += 1
            t = tree[i]
        if t in _ITEM_KW:
            kind = t
            j = i + 1
            if kind == "macro_rules":
                if tree[j] != "!":
                    fail("%s: macro_rules without !", path)
                j += 1
            header = []
            body = None
            while j < n:
                x = tree[j]
                if is_grp(x, "{") and kind not in ("use", "const", "static", "type"):
                    body = x[1]
                    j += 1
                    break
                if x == ";":
                    j += 1
                    break
                header.append(x)
                j += 1
            else:
                fail("%s: unterminated item %s", path, flat(header)[:60])
            # `= value;` after a body-less const/type/static is inside header (up to ';'): fine.
            if kind == "struct" and body is not None and j < n and tree[j] == ";":
                j += 1
            if kind == "mod" and any(a.replace(" ", "") == "cfg(test)" for a in attrs):
                pass                                             # test module: dropped
            else:
                res.append(Item(kind, header, body, path, attrs))
            i = j
        elif re.match(r"[A-Za-z_]", t) and i + 1 < n and tree[i + 1] == "!":
            # macro invocation at item level
            j = i + 2
            if j < n and isinstance(tree[j], tuple):
                args = tree[j][1]
                braces = tree[j][0] == "{"
                j += 1
                if j < n and tree[j] == ";":
                    j += 1
                elif not braces:
                    fail("%s: macro invocation %s! without ';'", path, t)
                res.append(Item("macro!", [t], args, path, attrs))
                i = j
            else:
                fail("%s: malformed macro invocation %s!", path, t)
        else:
            fail("%s: unknown item-level syntax near %r", path, flat(tree[i:i + 6]))
    return res


def methods(body, path, lenient=False) -> dict:
    """Items of an impl/trait body -> {'fn': {name: (signature tokens, body tree or None)}, 'const': {name: value text}}"""
    fns, consts = {}, {}
    for it in items(body, path, top=False):
        if it.kind == "fn":
            name = it.header[0]
            if name in fns:
                fail("%s: duplicate fn %s", path, name)
            fns[name] = (it.header[1:], it.body)
        elif it.kind == "const":
            txt = flat(it.header)
            m = re.match(r"^(\w+) : ([\w: ]+?)(?: = (.*))?$", txt)
            if not m:
                fail("%s: unreadable const %s", path, txt)
            if m.group(1) in consts:
                fail("%s: duplicate const %s", path, m.group(1))
            consts[m.group(1)] = m.group(3)
        elif it.kind in ("type",):
            pass
        elif lenient and it.kind == "macro!":
            pass                         # inherent impls only (searched for helper fns by name)
        else:
            fail("%s: unexpected %s inside impl/trait body", path, it.kind)
    return {"fn": fns, "const": consts}


def load(path):
    with open(path, "rb") as f:
        src = f.read().decode("utf-8")
    return items(group(tokenize(src, path), path), path)


# ------------------------------------------------------------------------------------------------ tag.rs
def ident_list_enum(it: Item, what: str) -> list[str]:
    """`enum X { A, #[attr] B, C }` with unit variants only."""
    names = []
    body = it.body
    i = 0
    while i < len(body):
        t = body[i]
        if t == "#":
            if not is_grp(body[i + 1], "["):
                fail("%s: malformed attribute in enum %s", it.path, what)
            i += 2
            continue
        if not isinstance(t, str) or not re.match(r"^[A-Z][A-Za-z0-9]*$", t):
            fail("%s: enum %s: variant with payload or unknown syntax near %r", it.path, what, flat(body[i:i + 4]))
        names.append(t)
        i += 1
        if i < len(body):
            if body[i] != ",":
                fail("%s: enum %s: variant %s is not a unit variant", it.path, what, t)
            i += 1
    if len(set(names)) != len(names) or not names:
        fail("%s: enum %s: duplicate or no variants", it.path, what)
    return names


def find_items(its, kind, pred):
    return [it for it in its if it.kind == kind and pred(it)]


def one(xs, what):
    if len(xs) != 1:
        fail("expected exactly one %s, found %d", what, len(xs))
    return xs[0]


IS_SUPERSET_BODY = ("if self . eq ( other ) { return true ; } let parents = other . immediate_supersets ( ) ; "
                    "let mut i = 0 ; while i < parents . len ( ) { if self . is_superset ( parents [ i ] ) "
                    "{ return true ; } i += 1 ; } false")
IS_EMPTY_BODY = "matches ! ( self , & OpTag :: None )"
EQ_BODY = "self as u32 == other as u32"


def parse_tag_list(tree, path, tags) -> list[str]:
    """`OpTag::A, OpTag::B,` -> names"""
    out = []
    i = 0
    while i < len(tree):
        if tree[i:i + 2] != ["OpTag", "::"] or i + 2 >= len(tree) or not isinstance(tree[i + 2], str):
            fail("%s: expected OpTag::X in list, got %r", path, flat(tree[i:i + 4]))
        name = tree[i + 2]
        if name not in tags:
            fail("%s: unknown tag OpTag::%s", path, name)
        out.append(name)
        i += 3
        if i < len(tree):
            if tree[i] != ",":
                fail("%s: expected ',' in tag list", path)
            i += 1
    if len(set(out)) != len(out):
        fail("%s: duplicate tag in a superset list: %s", path, out)
    return out


def scan_tag_rs(path):
    its = load(path)
    enum = one(find_items(its, "enum", lambda it: it.header[:1] == ["OpTag"]), "enum OpTag in " + path)
    tags = ident_list_enum(enum, "OpTag")
    impl = one(find_items(its, "impl", lambda it: flat(it.header) == "OpTag"), "inherent impl OpTag in " + path)
    ms = methods(impl.body, path)["fn"]
    for name, want in (("is_superset", IS_SUPERSET_BODY), ("is_empty", IS_EMPTY_BODY), ("eq", EQ_BODY)):
        if name not in ms:
            fail("%s: OpTag::%s missing", path, name)
        got = flat(ms[name][1])
        if got != want:
            fail("%s: OpTag::%s is no longer the function Validity.v/RustTablesP.v transcribe:\n  %s", path, name, got)
    if flat(ms["is_superset"][0]) != "( self , other : OpTag ) -> bool":
        fail("%s: is_superset signature changed", path)
    if "immediate_supersets" not in ms:
        fail("%s: immediate_supersets missing", path)
    body = ms["immediate_supersets"][1]
    if not (len(body) == 3 and body[0] == "match" and body[1] == "self" and is_grp(body[2], "{")):
        fail("%s: immediate_supersets is not a single `match self {..}`", path)
    arms = body[2][1]
    lattice = {}
    i = 0
    while i < len(arms):
        if arms[i:i + 2] != ["OpTag", "::"] or not isinstance(arms[i + 2], str) or arms[i + 3] != "=>" \
                or arms[i + 4] != "&" or not is_grp(arms[i + 5], "["):
            fail("%s: immediate_supersets: arm is not `OpTag::X => &[..]` near %r", path, flat(arms[i:i + 6])[:80])
        name = arms[i + 2]
        if name not in tags:
            fail("%s: immediate_supersets: unknown tag %s", path, name)
        if name in lattice:
            fail("%s: immediate_supersets: duplicate arm for %s", path, name)
        lattice[name] = parse_tag_list(arms[i + 5][1], path, tags)
        i += 6
        if i < len(arms):
            if arms[i] != ",":
                fail("%s: immediate_supersets: missing ',' after arm %s", path, name)
            i += 1
    missing = [t for t in tags if t not in lattice]
    if missing:
        fail("%s: immediate_supersets: no arm for %s", path, missing)
    return tags, [(t, lattice[t]) for t in tags]


# ------------------------------------------------------------------------------------------------ ops.rs
TRAITS = ("OpTrait", "DataflowOpTrait", "StaticTag", "DataflowParent", "ValidateOp")
OPS_FILES = ["module.rs", "dataflow.rs", "controlflow.rs", "constant.rs", "custom.rs", "sum.rs", "validate.rs"]

KIND_SHAPES = [
    (re.compile(r"^None$"), None),
    (re.compile(r"^Some \( EdgeKind :: StateOrder \)$"), "StateOrder"),
    (re.compile(r"^Some \( EdgeKind :: ControlFlow \)$"), "ControlFlow"),
    (re.compile(r"^Some \( EdgeKind :: Function \( .* \) \)$"), "Function"),
    (re.compile(r"^Some \( EdgeKind :: Const \( .* \) \)$"), "Const"),
]


def kind_of_body(body, where):
    txt = flat(body)
    for rx, k in KIND_SHAPES:
        if rx.match(txt):
            if k in ("Function", "Const") and txt.count("EdgeKind") != 1:
                fail("%s: nested EdgeKind in %s", where, txt)
            return k
    fail("%s: port-kind function body not understood: %s", where, txt)


def count_of_body(body, where):
    """non_df_port_count bodies: `match dir { Direction::Incoming => A, Direction::Outgoing => B, }` with A, B a
    literal or self.sum_rows.len();  the trait default `match dir {..}.is_some() as usize`."""
    txt = flat(body)
    m = re.match(r"^match dir \{ Direction :: Incoming => (.+?) , Direction :: Outgoing => (.+?) ,? \}$", txt)
    if not m:
        fail("%s: non_df_port_count body not understood: %s", where, txt)
    res = []
    for v in m.groups():
        if re.match(r"^[0-9]+$", v):
            res.append(v)
        elif v == "self . sum_rows . len ( )":
            res.append("sum_rows.len")
        else:
            fail("%s: non_df_port_count arm not understood: %s", where, v)
    return tuple(res)


DEFAULT_COUNT_BODY = ("match dir { Direction :: Incoming => self . other_input ( ) , Direction :: Outgoing => "
                      "self . other_output ( ) , } . is_some ( ) as usize")


def impl_header(it: Item):
    """-> (generics text or '', trait name or None, type text)"""
    h = list(it.header)
    gen = ""
    if h and h[0] == "<":
        depth, j = 0, 0
        for j, t in enumerate(h):
            if t == "<":
                depth += 1
            elif t in (">", ">>"):
                depth -= len(t)
                if depth <= 0:
                    break
        if depth != 0:
            fail("%s: impl generics not understood: %s", it.path, flat(h))
        gen = flat(h[1:j])
        h = h[j + 1:]
    if "for" in h:
        k = h.index("for")
        trait, ty = flat(h[:k]), flat(h[k + 1:])
    else:
        trait, ty = None, flat(h)
    return gen, trait, ty


def strip_path(ty: str) -> str:
    return re.sub(r"^(super|crate :: ops|self) :: ", "", ty)


def trait_name(tr):
    if tr is None:
        return None
    return tr.split(" :: ")[-1]


def scan_ops(core_src):
    """Everything but the lattice.  core_src = <repo>/hugr-core/src"""
    ops_rs = os.path.join(core_src, "ops.rs")
    top = load(ops_rs)
    files = {ops_rs: top}
    for f in OPS_FILES:
        p = os.path.join(core_src, "ops", f)
        files[p] = load(p)
    # --- every scanned file: no unknown item-level macro, no nested non-test module hiding impls
    for p, its in files.items():
        for it in its:
            if it.kind == "macro!" and it.header[0] not in _KNOWN_MACROS:
                fail("%s: unknown item-level macro %s!", p, it.header[0])
            if it.kind == "mod" and it.body is not None:
                fail("%s: inline module %s (its items are not scanned)", p, flat(it.header))
            if it.kind == "macro_rules" and p != ops_rs:
                fail("%s: macro definition %s outside ops.rs", p, flat(it.header))
    # --- OpType
    enum = one(find_items(top, "enum", lambda it: it.header[:1] == ["OpType"]), "enum OpType")
    optypes = ident_list_enum(enum, "OpType")
    disp = [a for a in enum.attrs if a.startswith("enum_dispatch")]
    if len(disp) != 1:
        fail("%s: enum OpType has no single enum_dispatch attribute", ops_rs)
    m = re.match(r"^enum_dispatch \( (.*) \)$", disp[0])
    dispatched = m.group(1).split(" , ") if m else []
    for t in ("OpTrait", "ValidateOp"):
        if t not in dispatched:
            fail("%s: OpType does not enum_dispatch %s", ops_rs, t)
    # --- macros of ops.rs
    macros = {it.header[0]: flat(it.body) for it in top if it.kind == "macro_rules"}
    if macros.get("impl_validate_op") != "( $ i : ident ) => { impl $ crate :: ops :: ValidateOp for $ i { } } ;":
        fail("%s: impl_validate_op! is no longer `impl ValidateOp for $i {}`: %s", ops_rs, macros.get("impl_validate_op"))
    if macros.get("impl_op_name") is None or not re.match(
            r"^\( \$ i : ident \) => \{ impl \$ crate :: ops :: NamedOp for \$ i \{ fn name \( & self \) -> "
            r"\$ crate :: ops :: OpName \{ stringify ! \( \$ i \) \. into \( \) \} \} \} ;$", macros["impl_op_name"]):
        fail("%s: impl_op_name! changed: %s", ops_rs, macros.get("impl_op_name"))
    body = macros.get("impl_op_ref_try_into") or ""
    for tr in TRAITS:
        if re.search(r"\b%s\b" % tr, body):
            fail("%s: impl_op_ref_try_into! mentions %s", ops_rs, tr)
    if set(macros) != {"impl_validate_op", "impl_op_name", "impl_op_ref_try_into"}:
        fail("%s: unknown macro definitions %s", ops_rs, sorted(macros))
    # --- trait defaults
    def trait_item(its, name, p):
        return one(find_items(its, "trait", lambda it: it.header[:1] == [name]), "trait %s in %s" % (name, p))

    optrait = methods(trait_item(top, "OpTrait", ops_rs).body, ops_rs)["fn"]
    op_defaults = {}
    for fn in ("other_input", "other_output", "static_input", "static_output"):
        if fn not in optrait or optrait[fn][1] is None:
            fail("%s: trait OpTrait: no default for %s", ops_rs, fn)
        op_defaults[fn] = kind_of_body(optrait[fn][1], "OpTrait::" + fn)
    if flat(optrait["dataflow_signature"][1]) != "None":
        fail("%s: OpTrait::dataflow_signature default is not None", ops_rs)
    if flat(optrait["non_df_port_count"][1]) != DEFAULT_COUNT_BODY:
        fail("%s: OpTrait::non_df_port_count default changed: %s", ops_rs, flat(optrait["non_df_port_count"][1]))
    if optrait["tag"][1] is not None:
        fail("%s: OpTrait::tag has a default body", ops_rs)
    vtrait = methods(trait_item(top, "ValidateOp", ops_rs).body, ops_rs)["fn"]
    if flat(vtrait["validity_flags"][1]) != "Default :: default ( )":
        fail("%s: ValidateOp::validity_flags default changed", ops_rs)
    if flat(vtrait["validate_op_children"][1]) != "Ok ( ( ) )":
        fail("%s: ValidateOp::validate_op_children default changed", ops_rs)
    # --- the `other_port` formula: which tag marks "has a static input"
    optype_impl = [it for it in find_items(top, "impl", lambda it: flat(it.header) == "OpType")
                   if "other_port" in methods(it.body, ops_rs)["fn"]]
    inh = methods(one(optype_impl, "impl OpType with other_port").body, ops_rs)["fn"]
    want_other_port = ("let df_count = self . value_port_count ( dir ) ; let non_df_count = self . non_df_port_count ( dir ) ; "
                       "let static_input = ( dir == Direction :: Incoming && OpTag :: (\\w+) . is_superset ( self . tag ( ) ) ) "
                       "as usize ; if self . other_port_kind ( dir ) . is_some ( ) && non_df_count >= 1 "
                       "{ Some ( Port :: new ( dir , df_count + static_input ) ) } else { None }")
    m = re.match("^" + re.escape(want_other_port).replace(re.escape("(\\w+)"), r"(\w+)") + "$", flat(inh["other_port"][1]))
    if not m:
        fail("%s: OpType::other_port changed: %s", ops_rs, flat(inh["other_port"][1]))
    static_input_tag = m.group(1)
    want_port_count = ("let has_static_port = self . static_port_kind ( dir ) . is_some ( ) ; let non_df_count = "
                       "self . non_df_port_count ( dir ) ; self . value_port_count ( dir ) + has_static_port as usize + non_df_count")
    if flat(inh["port_count"][1]) != want_port_count:
        fail("%s: OpType::port_count changed: %s", ops_rs, flat(inh["port_count"][1]))
    want_port_kind = ("let signature = self . dataflow_signature ( ) . unwrap_or_default ( ) ; let port : Port = port . into ( ) ; "
                      "let dir = port . direction ( ) ; let port_count = signature . port_count ( dir ) ; if port . index ( ) < port_count "
                      "{ return signature . port_type ( port ) . cloned ( ) . map ( EdgeKind :: Value ) ; } let static_kind = "
                      "self . static_port_kind ( dir ) ; if port . index ( ) == port_count { if let Some ( kind ) = static_kind "
                      "{ return Some ( kind ) ; } } self . other_port_kind ( dir )")
    if flat(inh["port_kind"][1]) != want_port_kind:
        fail("%s: OpType::port_kind changed: %s", ops_rs, flat(inh["port_kind"][1]))
    want_is_container = "self . validity_flags ( ) . allowed_children != OpTag :: None"
    if flat(inh["is_container"][1]) != want_is_container:
        fail("%s: OpType::is_container changed", ops_rs)

    # --- collect impls of the five traits over all files
    impls = {t: {} for t in TRAITS}       # trait -> type name -> (Item, methods)
    blanket = {}                          # (trait, bound) -> (Item, methods)
    for p, its in files.items():
        for it in its:
            if it.kind != "impl":
                continue
            gen, tr, ty = impl_header(it)
            tn = trait_name(tr)
            if tn not in TRAITS:
                continue
            if gen:
                key = (tn, gen, ty)
                if key in blanket:
                    fail("%s: duplicate blanket impl %s", p, key)
                blanket[key] = (it, methods(it.body, p))
                continue
            name = strip_path(ty)
            if name not in optypes:
                fail("%s: impl %s for %s: not an OpType variant", p, tn, ty)
            if name in impls[tn]:
                fail("%s: duplicate impl %s for %s", p, tn, name)
            impls[tn][name] = (it, methods(it.body, p))
    want_blankets = {("OpTrait", "T : DataflowOpTrait + Clone", "T"), ("StaticTag", "T : DataflowOpTrait", "T"),
                     ("ValidateOp", "T : DataflowParent", "T")}
    if set(blanket) != want_blankets:
        fail("blanket impls changed: %s", sorted(set(blanket) ^ want_blankets))
    # the blanket OpTrait impl forwards exactly these and nothing else that matters
    b = blanket[("OpTrait", "T : DataflowOpTrait + Clone", "T")][1]["fn"]
    fwd = {"tag": "T :: TAG", "dataflow_signature": "Some ( DataflowOpTrait :: signature ( self ) )",
           "other_input": "DataflowOpTrait :: other_input ( self )", "other_output": "DataflowOpTrait :: other_output ( self )",
           "static_input": "DataflowOpTrait :: static_input ( self )"}
    for fn, want in fwd.items():
        if fn not in b or flat(b[fn][1]) != want:
            fail("blanket OpTrait impl: %s is not `%s`", fn, want)
    for fn in ("static_output", "non_df_port_count"):
        if fn in b:
            fail("blanket OpTrait impl now defines %s", fn)
    bs = blanket[("StaticTag", "T : DataflowOpTrait", "T")][1]["const"]
    if bs.get("TAG") != "T :: TAG":
        fail("blanket StaticTag impl changed")
    # DataflowOpTrait defaults
    dft = methods(trait_item(files[os.path.join(core_src, "ops", "dataflow.rs")], "DataflowOpTrait",
                             "dataflow.rs").body, "dataflow.rs")
    df_defaults = {}
    for fn in ("other_input", "other_output", "static_input"):
        if fn not in dft["fn"] or dft["fn"][fn][1] is None:
            fail("trait DataflowOpTrait: no default for %s", fn)
        df_defaults[fn] = kind_of_body(dft["fn"][fn][1], "DataflowOpTrait::" + fn)
    for fn in ("static_output", "non_df_port_count", "tag"):
        if fn in dft["fn"]:
            fail("trait DataflowOpTrait now has %s", fn)
    if "TAG" not in dft["const"] or dft["const"]["TAG"] is not None:
        fail("trait DataflowOpTrait: `const TAG: OpTag;` expected")

    return {"optypes": optypes, "impls": impls, "blanket": blanket, "op_defaults": op_defaults,
            "df_defaults": df_defaults, "static_input_tag": static_input_tag, "files": files, "core_src": core_src}


def tag_const(txt, tags, where):
    m = re.match(r"^OpTag :: (\w+)$", txt or "")
    if not m or m.group(1) not in tags:
        fail("%s: TAG is not a known OpTag: %s", where, txt)
    return m.group(1)


def per_op_tables(sc, tags):
    """op -> tag / port structure, through exactly one of the two ways an OpType variant gets its OpTrait impl."""
    impls = sc["impls"]
    op_tag, ports, has_sig, dfparent = [], [], [], []
    for op in sc["optypes"]:
        direct = op in impls["OpTrait"]
        viadf = op in impls["DataflowOpTrait"]
        if direct == viadf:
            fail("OpType::%s: %s", op, "both OpTrait and DataflowOpTrait impls" if direct else "no OpTrait impl found")
        if viadf:
            if op in impls["StaticTag"]:
                fail("OpType::%s: DataflowOpTrait and explicit StaticTag", op)
            ms = impls["DataflowOpTrait"][op][1]
            tag = tag_const(ms["const"].get("TAG"), tags, "impl DataflowOpTrait for " + op)
            kinds = {}
            for fn in ("other_input", "other_output", "static_input"):
                kinds[fn] = kind_of_body(ms["fn"][fn][1], "%s::%s" % (op, fn)) if fn in ms["fn"] else sc["df_defaults"][fn]
            for fn in ("static_output", "non_df_port_count", "tag", "dataflow_signature"):
                if fn in ms["fn"]:
                    fail("impl DataflowOpTrait for %s defines %s", op, fn)
            kinds["static_output"] = sc["op_defaults"]["static_output"]
            counts = ("default", "default")
            sig = True
        else:
            ms = impls["OpTrait"][op][1]
            if op not in impls["StaticTag"]:
                fail("OpType::%s: OpTrait impl without StaticTag impl", op)
            tag = tag_const(impls["StaticTag"][op][1]["const"].get("TAG"), tags, "impl StaticTag for " + op)
            if "tag" not in ms["fn"] or flat(ms["fn"]["tag"][1]) not in ("< Self as StaticTag > :: TAG", "Self :: TAG"):
                fail("impl OpTrait for %s: fn tag is not the StaticTag constant", op)
            kinds = {}
            for fn in ("other_input", "other_output", "static_input", "static_output"):
                kinds[fn] = kind_of_body(ms["fn"][fn][1], "%s::%s" % (op, fn)) if fn in ms["fn"] else sc["op_defaults"][fn]
            counts = count_of_body(ms["fn"]["non_df_port_count"][1], op) if "non_df_port_count" in ms["fn"] \
                else ("default", "default")
            if "dataflow_signature" in ms["fn"]:
                fail("impl OpTrait for %s overrides dataflow_signature (shape unknown)", op)
            sig = False
        for c in counts:
            if c == "sum_rows.len" and op != "DataflowBlock":
                fail("%s: sum_rows.len outside DataflowBlock", op)
        op_tag.append((op, tag))
        ports.append((op, kinds, counts))
        has_sig.append((op, sig))
        if op in impls["DataflowParent"]:
            if set(impls["DataflowParent"][op][1]["fn"]) != {"inner_signature"}:
                fail("impl DataflowParent for %s: unexpected members", op)
            dfparent.append(op)
    return op_tag, ports, has_sig, dfparent


FLAG_FIELDS = {"allowed_children": "tag", "allowed_first_child": "tag", "allowed_second_child": "tag",
               "requires_children": "bool", "requires_dag": "bool", "edge_check": "optfn"}


def parse_flags_literal(tree, tags, where, need_all):
    """`OpValidityFlags { f: v, .., ..Default::default() }` / `Self { f: v, .. }` -> dict"""
    if not (len(tree) == 2 and tree[0] in ("OpValidityFlags", "Self") and is_grp(tree[1], "{")):
        fail("%s: body is not a single OpValidityFlags literal: %s", where, flat(tree)[:100])
    parts, cur = [], []
    for t in tree[1][1]:
        if t == ",":
            parts.append(cur)
            cur = []
        else:
            cur.append(t)
    if cur:
        parts.append(cur)
    vals, rest = {}, False
    for p in parts:
        txt = flat(p)
        if txt == ".. Default :: default ( )":
            rest = True
            continue
        m = re.match(r"^(\w+) : (.+)$", txt)
        if not m or m.group(1) not in FLAG_FIELDS:
            fail("%s: unknown flag field: %s", where, txt)
        f, v = m.groups()
        if f in vals:
            fail("%s: duplicate field %s", where, f)
        ty = FLAG_FIELDS[f]
        if ty == "tag":
            vals[f] = tag_const(v, tags, where + "." + f)
        elif ty == "bool":
            if v not in ("true", "false"):
                fail("%s: %s is not a boolean literal", where, f)
            vals[f] = v == "true"
        else:
            mm = re.match(r"^Some \( (\w+) \)$", v)
            if v == "None":
                vals[f] = None
            elif mm:
                vals[f] = mm.group(1)
            else:
                fail("%s: edge_check not understood: %s", where, v)
    if need_all and (rest or set(vals) != set(FLAG_FIELDS)):
        fail("%s: the Default impl must give every field", where)
    if not need_all and not rest and set(vals) != set(FLAG_FIELDS):
        fail("%s: literal without ..Default::default() misses fields", where)
    return vals


def tags_mentioned(tree):
    out = []
    ts = flat(tree).split(" ")
    for i in range(len(ts) - 2):
        if ts[i] == "OpTag" and ts[i + 1] == "::":
            out.append(ts[i + 2])
    return out


def flags_tables(sc, tags, dfparent):
    core = sc["core_src"]
    vpath = os.path.join(core, "ops", "validate.rs")
    its = sc["files"][vpath]
    st = one(find_items(its, "struct", lambda it: it.header[:1] == ["OpValidityFlags"]), "struct OpValidityFlags")
    # field list: `pub name :` at depth 0 of the struct body (generic arguments never contain `pub`)
    names = []
    body = st.body
    for i, t in enumerate(body):
        if t == "pub":
            if i + 2 >= len(body) or not isinstance(body[i + 1], str) or body[i + 2] != ":":
                fail("%s: struct OpValidityFlags: unreadable field", vpath)
            names.append(body[i + 1])
    if body.count(":") != len(names):
        fail("%s: struct OpValidityFlags: non-pub field", vpath)
    if sorted(names) != sorted(FLAG_FIELDS):
        fail("%s: struct OpValidityFlags fields changed: %s", vpath, names)
    dimpl = one(find_items(its, "impl", lambda it: flat(it.header) == "Default for OpValidityFlags"), "Default for OpValidityFlags")
    dm = methods(dimpl.body, vpath)["fn"]
    # `// comment` lines were removed by the tokenizer
    default = parse_flags_literal(dm["default"][1], tags, "OpValidityFlags::default", True)
    # invocations of impl_validate_op!
    defaulted = []
    for it in its:
        if it.kind == "macro!" and it.header[0] == "impl_validate_op":
            if len(it.body) != 1 or not isinstance(it.body[0], str):
                fail("%s: impl_validate_op! argument not an identifier", vpath)
            if it.body[0] in defaulted:
                fail("%s: duplicate impl_validate_op!(%s)", vpath, it.body[0])
            defaulted.append(it.body[0])
    for p, fits in sc["files"].items():
        if p != vpath and any(it.kind == "macro!" and it.header[0] == "impl_validate_op" for it in fits):
            fail("%s: impl_validate_op! used outside validate.rs", p)
    vimpls = sc["impls"]["ValidateOp"]
    bl = sc["blanket"][("ValidateOp", "T : DataflowParent", "T")][1]["fn"]
    flags, checks = [], []
    for op in sc["optypes"]:
        ways = [op in vimpls, op in dfparent, op in defaulted]
        if sum(ways) != 1:
            fail("OpType::%s: ValidateOp comes from %d sources (explicit %s, DataflowParent %s, impl_validate_op! %s)",
                 op, sum(ways), *ways)
        if op in vimpls:
            ms = vimpls[op][1]["fn"]
            src = op
        elif op in dfparent:
            ms = bl
            src = "DataflowParent"
        else:
            ms = {}
            src = "default"
        if set(ms) - {"validity_flags", "validate_op_children"}:
            fail("impl ValidateOp (%s): unexpected members %s", src, sorted(ms))
        fl = dict(default)
        if "validity_flags" in ms:
            fl.update(parse_flags_literal(ms["validity_flags"][1], tags, "validity_flags of " + src, False))
        flags.append((op, fl))
        checks.append((op, src if "validate_op_children" in ms else "default"))
    for op in defaulted:
        if op not in sc["optypes"]:
            fail("impl_validate_op!(%s): not an OpType variant", op)
    for e in {fl["edge_check"] for _, fl in flags} - {None}:
        if not find_items(its, "fn", lambda it, e=e: it.header[:1] == [e]):
            fail("%s: edge_check function %s not found", vpath, e)
    # tags rejected in inner positions
    if flat(bl["validate_op_children"][1]) != ("let sig = self . inner_signature ( ) ; validate_io_nodes "
                                               "( & sig . input , & sig . output , \" , children )"):
        fail("%s: DataflowParent::validate_op_children changed: %s", vpath, flat(bl["validate_op_children"][1]))
    io = one(find_items(its, "fn", lambda it: it.header[:1] == ["validate_io_nodes"]), "fn validate_io_nodes")
    io_txt = flat(io.body)
    m = re.search(r"for \( child , optype \) in children \{ match optype \. tag \( \) \{ (.*) \} \} Ok \( \( \) \)$", io_txt)
    if not m:
        fail("%s: validate_io_nodes: inner-children loop not found", vpath)
    arm_rx = re.compile(r"(OpTag :: \w+|_) => \{ (return Err \( ChildrenValidationError :: InternalIOChildren "
                        r"\{ [^{}]* \} \) )?\}(?: ,)?(?: |$)")
    arms, pos, body_txt = [], 0, m.group(1)
    while pos < len(body_txt):
        am = arm_rx.match(body_txt, pos)
        if not am:
            fail("%s: validate_io_nodes: inner-children match not understood near: %s", vpath, body_txt[pos:pos + 80])
        arms.append((am.group(1), am.group(2) or ""))
        pos = am.end()
    io_tags = []
    for a, b in arms:
        if a == "_":
            if b:
                fail("%s: validate_io_nodes: wildcard arm rejects", vpath)
        else:
            if not b:
                fail("%s: validate_io_nodes: tag arm %s does not reject", vpath, a)
            io_tags.append(tag_const(a, tags, "validate_io_nodes"))
    if io_txt.count("children . next ( ) . unwrap ( )") != 2:
        fail("%s: validate_io_nodes no longer takes exactly two children unconditionally", vpath)
    cfgc = vimpls["CFG"][1]["fn"].get("validate_op_children")
    if cfgc is None:
        fail("%s: CFG has no validate_op_children", vpath)
    ctxt = flat(cfgc[1])
    m = re.search(r"for \( child , optype \) in children \{ if optype \. tag \( \) == OpTag :: (\w+) \{ return Err \( "
                  r"ChildrenValidationError :: InternalExitChildren \{ child \} \) ; \} \} Ok \( \( \) \)$", ctxt)
    if not m or m.group(1) not in tags:
        fail("%s: CFG::validate_op_children: inner-children loop not understood", vpath)
    exit_tags = [m.group(1)]
    if ctxt.count("children . next ( ) . unwrap ( )") != 2:
        fail("%s: CFG::validate_op_children no longer takes exactly two children unconditionally", vpath)
    if "validate_op_children" not in vimpls["Conditional"][1]["fn"]:
        fail("%s: Conditional has no validate_op_children", vpath)
    return flags, checks, io_tags, exit_tags


# The CODE of the reference validator that coq/model/Validity.v transcribes by hand (rules 5-16: port counts, edge kinds,
# connectedness, linearity, acyclicity, non-local edges, dominance).  It is not data and cannot be regenerated; what can
# be done on every run is to notice that it is no longer the text that was transcribed: sha256 of the token stream
# (comments, layout and string contents do not count) of each function of `impl ValidationContext`.  On a mismatch:
# re-read the function, update Validity.v if its meaning changed, then update the digest here.
TRANSCRIBED_CODE = {
    "validate": "d5ef6f4c02af396d2686a078dc2de145449b1aae0c30021ada8e157fea6a3fc6",
    "compute_dominator": "a838297cb4cb479703d11f4a823bcfe71c8212bb5ade9fffb04ca67523b22d72",
    "validate_node": "ff124f121643361e1d64e93ded50226097cbf14cd5b352473583859a264c708b",
    "validate_port": "2908834ed37623497d44297b369f3177504d8c136d9fde8c0778dc666b111a36",
    "validate_children": "112b9f523dc2be8725e4a60bbbd6b6067c56d0ce3a4e9808fb11edc133984c25",
    "validate_children_dag": "4dd8b83f84122b39690187af89e90c74edf18fd3bcc2692ff615e96129e0d55f",
    "validate_edge": "d7cafec38b3e8a2a5a6c91a886aba7472f04e0378795c4e17d5f1b82c8c41e3f",
}


LOADER_DIGEST = "f45eb06e555316ba15eb0fd7767e768806bba2f799646315ca382503234e2728"


def check_transcribed_code(core_src):
    import hashlib
    path = os.path.join(core_src, "hugr", "validate.rs")
    ctx = [it for it in load(path) if it.kind == "impl" and impl_header(it)[1] is None
           and impl_header(it)[2].startswith("ValidationContext")]
    ms = methods(one(ctx, "impl ValidationContext in " + path).body, path, lenient=True)["fn"]
    out = []
    # the loader: `impl TryFrom<SerHugrLatest> for Hugr` (node i of the document = node i, every node gets the ports of its
    # operation, a missing offset = OpType::other_port) — what Validity.v's `resolve` and rule 0 / 5 transcribe
    spath = os.path.join(core_src, "hugr", "serialize.rs")
    ld = [it for it in load(spath) if it.kind == "impl" and impl_header(it)[1:] == ("TryFrom < SerHugrLatest >", "Hugr")]
    lms = methods(one(ld, "impl TryFrom<SerHugrLatest> for Hugr").body, spath, lenient=True)["fn"]
    if "try_from" not in lms:
        fail("%s: loader try_from not found", spath)
    got = hashlib.sha256(flat(lms["try_from"][1]).encode()).hexdigest()
    if got != LOADER_DIGEST:
        fail("%s: the loader (TryFrom<SerHugrLatest> for Hugr) is no longer the code coq/model/Validity.v transcribes "
             "(sha256 of its tokens %s, transcribed %s)", spath, got, LOADER_DIGEST)
    out.append(("serialize.try_from", got))
    for name, want in TRANSCRIBED_CODE.items():
        if name not in ms or ms[name][1] is None:
            fail("%s: ValidationContext::%s not found", path, name)
        got = hashlib.sha256(flat(ms[name][1]).encode()).hexdigest()
        if got != want:
            fail("%s: ValidationContext::%s is no longer the code coq/model/Validity.v transcribes (sha256 of its tokens %s, "
                 "transcribed %s): re-read it, then update Validity.v and TRANSCRIBED_CODE", path, name, got, want)
        out.append((name, got))
    return out


def scan_hugr_validate(core_src, tags):
    """The tag comparisons of hugr/validate.rs that Validity.v transcribes as constructor tests."""
    path = os.path.join(core_src, "hugr", "validate.rs")
    with open(path, "rb") as f:
        txt = flat(group(tokenize(f.read().decode("utf-8"), path), path))
    m = re.findall(r"if ancestor_parent_op \. tag \( \) != OpTag :: (\w+) \{ return Err \( InterGraphEdgeError :: NonCFGAncestor", txt)
    if len(m) != 1 or m[0] not in tags:
        fail("%s: dominator-edge parent test not found", path)
    dom_tag = m[0]
    m = re.findall(r"let must_be_connected = match dir \{ Direction :: Incoming => \{ port_kind != EdgeKind :: (\w+) && "
                   r"port_kind != EdgeKind :: (\w+) && op_type \. tag \( \) != OpTag :: (\w+) \} "
                   r"Direction :: Outgoing => outgoing_is_linear , \} ;", txt)
    if len(m) != 1 or m[0][2] not in tags:
        fail("%s: must_be_connected test not found", path)
    unconnected_ok_kinds = [m[0][0], m[0][1]]
    unconnected_ok_tag = m[0][2]
    m = re.findall(r"let outgoing_is_linear = port_kind \. is_linear \( \) \|\| port_kind == EdgeKind :: (\w+) ;", txt)
    if len(m) != 1:
        fail("%s: outgoing_is_linear test not found", path)
    linear_extra = [m[0]]
    if txt.count("let is_static = edge_kind . is_static ( ) ;") != 1:
        fail("%s: validate_edge no longer uses EdgeKind::is_static", path)
    if txt.count("if ! is_static && self . hugr . get_optype ( ancestor ) . is_func_defn ( )") != 1:
        fail("%s: value-edge-into-FuncDefn test not found", path)
    uses = [("allowed_children", r"let allowed_children = parent_optype \. validity_flags \( \) \. allowed_children ; "
                                 r"if ! allowed_children \. is_superset \( op_type \. tag \( \) \)"),
            ("first", r"if ! flags \. allowed_first_child \. is_superset \( first_child \. tag \( \) \)"),
            ("second", r"if ! flags \. allowed_second_child \. is_superset \( second_child \. tag \( \) \)"),
            ("nonempty", r"if self \. hugr \. hierarchy \( \) \. child_count \( node \. pg_index \( \) \) > 0 \{ "
                         r"if flags \. allowed_children \. is_empty \( \) \{ return Err \( ValidationError :: NonContainerWithChildren"),
            ("requires_children", r"\} else if flags \. requires_children \{ return Err \( ValidationError :: ContainerWithoutChildren"),
            ("requires_dag", r"if flags \. requires_dag \{ self \. validate_children_dag \( node , op_type \) \? ; \}"),
            ("edge_check", r"if let Some \( edge_check \) = flags \. edge_check \{")]
    for name, rx in uses:
        if len(re.findall(rx, txt)) != 1:
            fail("%s: the use of flag %s in validate_node/validate_children changed", path, name)
    return dom_tag, unconnected_ok_tag, unconnected_ok_kinds, linear_extra


def scan_edge_kind(core_src):
    """types.rs: enum EdgeKind and the two classifications the validator uses."""
    path = os.path.join(core_src, "types.rs")
    with open(path, "rb") as f:
        tree = group(tokenize(f.read().decode("utf-8"), path), path)
    enums = [i for i in range(len(tree) - 2) if tree[i] == "enum" and tree[i + 1] == "EdgeKind" and is_grp(tree[i + 2], "{")]
    impls = [i for i in range(len(tree) - 2) if tree[i] == "impl" and tree[i + 1] == "EdgeKind" and is_grp(tree[i + 2], "{")]
    if len(enums) != 1 or len(impls) != 1:
        fail("%s: enum EdgeKind / impl EdgeKind not found exactly once", path)
    body = tree[enums[0] + 2][1]
    kinds, i = [], 0
    while i < len(body):
        t = body[i]
        if t == "#":
            i += 2
            continue
        if not isinstance(t, str) or not re.match(r"^[A-Z][A-Za-z0-9]*$", t):
            fail("%s: enum EdgeKind: unknown syntax near %r", path, flat(body[i:i + 4]))
        kinds.append(t)
        i += 1
        if i < len(body) and is_grp(body[i], "("):
            i += 1
        if i < len(body):
            if body[i] != ",":
                fail("%s: enum EdgeKind: struct-like or discriminant variant %s", path, t)
            i += 1
    if len(set(kinds)) != len(kinds):
        fail("%s: enum EdgeKind: duplicate variant", path)
    ms = methods(tree[impls[0] + 2][1], path)["fn"]
    if "is_static" not in ms or "is_linear" not in ms:
        fail("%s: EdgeKind::is_static / is_linear missing", path)
    if flat(ms["is_linear"][1]) != "matches ! ( self , EdgeKind :: Value ( t ) if ! t . copyable ( ) )":
        fail("%s: EdgeKind::is_linear changed: %s", path, flat(ms["is_linear"][1]))
    m = re.match(r"^matches ! \( self , (.*) \)$", flat(ms["is_static"][1]))
    if not m:
        fail("%s: EdgeKind::is_static is not a single matches!", path)
    static = []
    for alt in m.group(1).split(" | "):
        mm = re.match(r"^EdgeKind :: (\w+) \( _ \)$", alt)
        if not mm or mm.group(1) not in kinds or mm.group(1) in static:
            fail("%s: EdgeKind::is_static: alternative not understood: %s", path, alt)
        static.append(mm.group(1))
    return kinds, static



# ------------------------------------------------------------------------------------------------ signatures
# Row expressions: a row is a list of items (kind, [args]):
#   ("row",[F])       the TypeRow field F            ("ty",[F])        the Type field F
#   ("sum_rows",[F])  Type::new_sum(F), F: Vec<TypeRow>   ("sum2",[A,B])  Type::new_sum([A, B]), A, B: TypeRow
#   ("fn",[F])        Type::new_function(F), F: Signature ("row_at",[F,I]) F.get(I), I a usize field or "#param"
#   ("sig_in",[F]) / ("sig_out",[F])   rows of the Signature field F;  ("body_in",[F]) / ("body_out",[F])  of F.body()
FIELD_TYPES = {"TypeRow": "row", "Vec < TypeRow >": "rows", "Type": "ty", "Signature": "sig",
               "PolyFuncType": "poly", "usize": "nat"}


def split_top(tree, sep):
    """Splits a token tree at top-level `sep`, not inside <..> (generic arguments)."""
    parts, cur, depth = [], [], 0
    for t in tree:
        if t == "<":
            depth += 1
        elif t == ">":
            depth -= 1
        elif t == ">>":
            depth -= 2
        if t == sep and depth == 0:
            parts.append(cur)
            cur = []
        else:
            cur.append(t)
    if cur:
        parts.append(cur)
    return parts


def struct_fields(files, name):
    found = []
    for p, its in files.items():
        for it in its:
            if it.kind == "struct" and it.header[:1] == [name]:
                found.append((p, it))
    p, it = one(found, "struct " + name)
    if it.body is None:
        fail("%s: struct %s is not a braced struct", p, name)
    fields = []
    for part in split_top(it.body, ","):
        toks = list(part)
        while toks and toks[0] == "#":
            toks = toks[2:]
        if toks[:1] == ["pub"]:
            toks = toks[1:]
            if toks and is_grp(toks[0], "("):
                toks = toks[1:]
        if len(toks) < 3 or toks[1] != ":" or not isinstance(toks[0], str):
            fail("%s: struct %s: unreadable field %s", p, name, flat(part))
        fields.append((toks[0], flat(toks[2:])))
    if len({f for f, _ in fields}) != len(fields):
        fail("%s: struct %s: duplicate field", p, name)
    return fields


class SigScan:
    def __init__(self, op, fields, helpers):
        self.op, self.fields, self.helpers = op, dict(fields), helpers

    def field(self, f, want):
        ty = FIELD_TYPES.get(self.fields.get(f, ""))
        if ty not in want:
            fail("%s: field %s has type %r, expected %s", self.op, f, self.fields.get(f), want)
        return f

    def row_expr(self, tree, env):
        txt = flat(tree)
        if txt in ("TypeRow :: new ( )", "type_row ! [ ]"):
            return []
        if re.match(r"^\w+$", txt) and txt in env and isinstance(env[txt], list):
            return env[txt]
        m = re.match(r"^TypeRow :: from \( (\w+) \)$", txt)
        if m and isinstance(env.get(m.group(1)), list):
            return env[m.group(1)]
        m = re.match(r"^self \. (\w+) \. clone \( \)$", txt)
        if m:
            return [("row", [self.field(m.group(1), {"row"})])]
        m = re.match(r"^vec ! \[ self \. (\w+) \. clone \( \) \]$", txt)
        if m:
            return [("ty", [self.field(m.group(1), {"ty"})])]
        m = re.match(r"^Type :: new_function \( self \. (\w+) \. clone \( \) \)$", txt)
        if m:
            return [("fn", [self.field(m.group(1), {"sig"})])]
        m = re.match(r"^vec ! \[ Type :: new_sum \( self \. (\w+) \. clone \( \) \) \]$", txt)
        if m:
            return [("sum_rows", [self.field(m.group(1), {"rows"})])]
        m = re.match(r'^self \. (\w+) \. get \( self \. (\w+) \) \. expect \( " \) \. clone \( \)$', txt)
        if m:
            return [("row_at", [self.field(m.group(1), {"rows"}), self.field(m.group(2), {"nat"})])]
        m = re.match(r"^self \. (\w+) \( \)$", txt)
        if m and m.group(1) in self.helpers:
            return self.helpers[m.group(1)]
        fail("%s: row expression not understood: %s", self.op, txt)

    def helper(self, sig, body):
        """TypeRow-valued helper methods (body_input_row, body_output_row, case_input_row, successor_input)."""
        txt = flat(body)
        params = re.findall(r"(\w+) : usize", flat(sig))
        m = re.match(r"^self \. (\w+) \. extend \( self \. (\w+) \. iter \( \) \)$", txt)
        if m:
            return [("row", [self.field(m.group(1), {"row"})]), ("row", [self.field(m.group(2), {"row"})])]
        m = re.match(r"^let sum_type = Type :: new_sum \( \[ self \. (\w+) \. clone \( \) , self \. (\w+) \. clone \( \) \] \) ; "
                     r"let mut outputs = vec ! \[ sum_type \] ; outputs \. extend_from_slice \( & self \. (\w+) \) ; "
                     r"outputs \. into \( \)$", txt)
        if m:
            return [("sum2", [self.field(m.group(1), {"row"}), self.field(m.group(2), {"row"})]),
                    ("row", [self.field(m.group(3), {"row"})])]
        m = re.match(r"^Some \( self \. (\w+) \. get \( (\w+) \) \? \. extend \( self \. (\w+) \. iter \( \) \)(?: ,)? \)$", txt)
        if m and m.group(2) in params:
            return [("row_at", [self.field(m.group(1), {"rows"}), "#" + m.group(2)]),
                    ("row", [self.field(m.group(3), {"row"})])]
        fail("%s: helper body not understood: %s", self.op, txt)

    def signature(self, body):
        stmts = split_top(body, ";")
        if flat(body).endswith(";"):
            fail("%s: signature body ends with ';'", self.op)
        lets, tail = stmts[:-1], stmts[-1]
        env = {}
        for st in lets:
            txt = flat(st)
            m = re.match(r"^let mut (\w+) = self \. (\w+) \. clone \( \)$", txt)
            if m:
                env[m.group(1)] = ("clone", m.group(2))
                continue
            m = re.match(r"^(\w+) \. to_mut \( \) \. insert \( 0 , Type :: new_sum \( self \. (\w+) \. clone \( \) \) \)$", txt)
            if m and isinstance(env.get(m.group(1)), tuple) and env[m.group(1)][0] == "clone":
                env[m.group(1)] = [("sum_rows", [self.field(m.group(2), {"rows"})]),
                                   ("row", [self.field(env[m.group(1)][1], {"row"})])]
                continue
            m = re.match(r"^(\w+) \. input \. to_mut \( \) \. insert \( 0 , Type :: new_function \( self \. (\w+) \. clone \( \) \) \)$", txt)
            if m and env.get(m.group(1)) == ("clone", m.group(2)):
                f = self.field(m.group(2), {"sig"})
                env[m.group(1)] = ("sig", [("fn", [f]), ("sig_in", [f])], [("sig_out", [f])])
                continue
            m = re.match(r"^let \[ (\w+) , (\w+) \] = \[ & self \. (\w+) , & self \. (\w+) \] \. map \( \| row \| row \. extend "
                         r"\( self \. (\w+) \. iter \( \) \) \)$", txt)
            if m:
                r = ("row", [self.field(m.group(5), {"row"})])
                env[m.group(1)] = [("row", [self.field(m.group(3), {"row"})]), r]
                env[m.group(2)] = [("row", [self.field(m.group(4), {"row"})]), r]
                continue
            m = re.match(r"^let (\w+) = Type :: new_sum \( self \. (\w+) \. clone \( \) \)$", txt)
            if m:
                env[m.group(1)] = ("item", ("sum_rows", [self.field(m.group(2), {"rows"})]))
                continue
            m = re.match(r"^let mut (\w+) = vec ! \[ (\w+) \]$", txt)
            if m and isinstance(env.get(m.group(2)), tuple) and env[m.group(2)][0] == "item":
                env[m.group(1)] = [env[m.group(2)][1]]
                continue
            m = re.match(r"^(\w+) \. extend_from_slice \( & self \. (\w+) \)$", txt)
            if m and isinstance(env.get(m.group(1)), list):
                env[m.group(1)] = env[m.group(1)] + [("row", [self.field(m.group(2), {"row"})])]
                continue
            fail("%s: signature statement not understood: %s", self.op, txt)
        txt = flat(tail)
        m = re.match(r"^Cow :: Owned \( (\w+) \)$", txt)
        if m and isinstance(env.get(m.group(1)), tuple) and env[m.group(1)][0] == "sig":
            return env[m.group(1)][1], env[m.group(1)][2]
        m = re.match(r"^Cow :: Borrowed \( & self \. (\w+) \)$", txt)
        if m:
            f = self.field(m.group(1), {"sig"})
            return [("sig_in", [f])], [("sig_out", [f])]
        m = re.match(r"^Cow :: Borrowed \( self \. (\w+) \. body \( \) \)$", txt)
        if m:
            f = self.field(m.group(1), {"poly"})
            return [("body_in", [f])], [("body_out", [f])]
        if txt == "self . inner_signature ( )":
            return "inner"
        # Cow::Owned(Signature::new(X, Y)[.with_extension_delta(self.extension_delta.clone())])
        if len(tail) == 4 and tail[:3] == ["Cow", "::", "Owned"] and is_grp(tail[3], "("):
            inner = tail[3][1]
            if inner[:3] == ["Signature", "::", "new"] and len(inner) >= 4 and is_grp(inner[3], "("):
                rest = re.sub(r" ?,$", "", flat(inner[4:]))
                if rest not in ("", ". with_extension_delta ( self . extension_delta . clone ( ) )"):
                    fail("%s: signature tail not understood: %s", self.op, rest)
                args = split_top(inner[3][1], ",")
                if len(args) != 2:
                    fail("%s: Signature::new with %d arguments", self.op, len(args))
                return self.row_expr(args[0], env), self.row_expr(args[1], env)
        fail("%s: signature expression not understood: %s", self.op, txt)


def signature_tables(sc, has_sig, dfparent):
    files, impls = sc["files"], sc["impls"]
    fields_tab, sigs, inners = [], [], []
    extra = {}
    for op in sc["optypes"]:
        fields = struct_fields(files, op)
        fields_tab.append((op, [(f, FIELD_TYPES[t]) for f, t in fields if t in FIELD_TYPES]))
        # helper methods of the inherent impls
        raw_helpers = {}
        for p, its in files.items():
            for it in its:
                if it.kind == "impl" and flat(it.header) == op:
                    for name, (sig, body) in methods(it.body, p, lenient=True)["fn"].items():
                        if name in ("body_input_row", "body_output_row", "case_input_row", "successor_input"):
                            if name in raw_helpers:
                                fail("%s: duplicate helper %s", op, name)
                            raw_helpers[name] = (sig, body)
        scn = SigScan(op, fields, {})
        helpers = {name: scn.helper(sig, body) for name, (sig, body) in raw_helpers.items()}
        scn.helpers = helpers
        inner = None
        if op in dfparent:
            body = impls["DataflowParent"][op][1]["fn"]["inner_signature"][1]
            inner = scn.signature(body)
            if inner == "inner":
                fail("%s: inner_signature refers to itself", op)
            inners.append((op, inner))
        if dict(has_sig)[op]:
            body = impls["DataflowOpTrait"][op][1]["fn"]["signature"][1]
            sg = scn.signature(body)
            if sg == "inner":
                if inner is None:
                    fail("%s: signature = inner_signature of a non-parent", op)
                sg = inner
            sigs.append((op, sg))
        extra[op] = helpers
    # Conditional / DataflowBlock helpers used by the children and edge checks
    for op, h in (("Conditional", "case_input_row"), ("DataflowBlock", "successor_input")):
        if h not in extra[op]:
            fail("%s::%s not found", op, h)
    # BasicBlock::dataflow_input
    bb = []
    for p, its in files.items():
        for it in its:
            if it.kind == "impl":
                gen, tr, ty = impl_header(it)
                if trait_name(tr) == "BasicBlock":
                    name = strip_path(ty)
                    ms = methods(it.body, p)["fn"]
                    m = re.match(r"^& self \. (\w+)$", flat(ms["dataflow_input"][1])) if "dataflow_input" in ms else None
                    if gen or name not in sc["optypes"] or not m:
                        fail("%s: impl BasicBlock for %s not understood", p, ty)
                    f = dict(struct_fields(files, name)).get(m.group(1))
                    if f != "TypeRow":
                        fail("%s: %s.%s is not a TypeRow", p, name, m.group(1))
                    bb.append((name, [("row", [m.group(1)])]))
    if sorted(n for n, _ in bb) != ["DataflowBlock", "ExitBlock"]:
        fail("impl BasicBlock: expected exactly DataflowBlock and ExitBlock, got %s", [n for n, _ in bb])
    # the comparisons of the children / edge checks (pinned)
    vpath = os.path.join(sc["core_src"], "ops", "validate.rs")
    with open(vpath, "rb") as f:
        vtxt = flat(group(tokenize(f.read().decode("utf-8"), vpath), vpath))
    pins = [
        "let first_sig = first_optype . dataflow_signature ( ) . unwrap_or_default ( ) ; if & first_sig . output != expected_input {",
        "let second_sig = second_optype . dataflow_signature ( ) . unwrap_or_default ( ) ; if & second_sig . input != expected_output {",
        "if self . sum_rows . len ( ) != children . len ( ) {",
        "let sig = & case_op . inner_signature ( ) ; if sig . input != self . case_input_row ( i ) . unwrap ( ) || sig . output != self . outputs {",
        "let sig = self . signature ( ) ; if entry_op . inner_signature ( ) . input ( ) != sig . input ( ) {",
        "if & exit_op . cfg_outputs != sig . output ( ) {",
        "let target_input = match & edge . target_op { OpType :: DataflowBlock ( dfb ) => dfb . dataflow_input ( ) , "
        "OpType :: ExitBlock ( exit ) => exit . dataflow_input ( ) , _ => panic ! ( \" ) , } ;",
        "let source_types = source . successor_input ( edge . source_port . index ( ) ) ; "
        "if source_types . as_ref ( ) != Some ( target_input ) {",
    ]
    for pin in pins:
        if vtxt.count(pin) != 1:
            fail("%s: the children / edge checks changed; not found exactly once: %s", vpath, pin)
    cond_fields = dict(struct_fields(files, "Conditional"))
    if cond_fields.get("outputs") != "TypeRow" or dict(struct_fields(files, "ExitBlock")).get("cfg_outputs") != "TypeRow":
        fail("Conditional.outputs / ExitBlock.cfg_outputs are not TypeRows")
    return {"fields": fields_tab, "sigs": sigs, "inners": inners,
            "case_input_row": extra["Conditional"]["case_input_row"], "case_output_row": [("row", ["outputs"])],
            "successor_input": extra["DataflowBlock"]["successor_input"], "block_input": bb}


# ------------------------------------------------------------------------------------------------ Coq text
def q(s):
    if not re.match(r"^[A-Za-z0-9_.#]*$", s):
        fail("unprintable name %r", s)
    return '"%s"' % s


def qlist(xs):
    return "[" + "; ".join(q(x) for x in xs) + "]"


def qopt(x):
    return "None" if x is None else "Some %s" % q(x)


def qbool(b):
    return "true" if b else "false"


def assoc(name, ty, rows, comment):
    lines = ["(* %s *)" % comment, "Definition %s : list (string * %s) := [" % (name, ty)]
    lines.append(";\n".join("  (%s, %s)" % (q(k), v) for k, v in rows))
    lines.append("].\n")
    return "\n".join(lines)


def qitems(items):
    return "[" + "; ".join("(%s, %s)" % (q(k), "[" + "; ".join('"%s"' % a if re.match(r"^#?\w+$", a) else fail("bad arg %r", a)
                                                                 for a in args) + "]") for k, args in items) + "]"


def scan(repo):
    core = os.path.join(repo, "hugr-core", "src")
    tags, lattice = scan_tag_rs(os.path.join(core, "ops", "tag.rs"))
    sc = scan_ops(core)
    if sc["static_input_tag"] not in tags:
        fail("other_port: unknown tag %s", sc["static_input_tag"])
    op_tag, ports, has_sig, dfparent = per_op_tables(sc, tags)
    flags, checks, io_tags, exit_tags = flags_tables(sc, tags, dfparent)
    dom_tag, unconnected_ok_tag, unconnected_ok_kinds, linear_extra = scan_hugr_validate(core, tags)
    edge_kinds, static_kinds = scan_edge_kind(core)
    sigt = signature_tables(sc, has_sig, dfparent)
    pinned = check_transcribed_code(core)
    for k in unconnected_ok_kinds + linear_extra:
        if k not in edge_kinds:
            fail("hugr/validate.rs: unknown EdgeKind::%s", k)
    for _, kinds, _ in ports:
        for k in kinds.values():
            if k is not None and k not in edge_kinds:
                fail("unknown EdgeKind::%s in a port function", k)
    return {"tags": tags, "lattice": lattice, "optypes": sc["optypes"], "op_tag": op_tag, "ports": ports,
            "has_sig": has_sig, "dfparent": dfparent, "flags": flags, "checks": checks, "io_tags": io_tags,
            "exit_tags": exit_tags, "static_input_tag": sc["static_input_tag"], "dom_tag": dom_tag,
            "unconnected_ok_tag": unconnected_ok_tag, "unconnected_ok_kinds": unconnected_ok_kinds,
            "linear_extra": linear_extra, "edge_kinds": edge_kinds, "static_kinds": static_kinds, "sigt": sigt,
            "pinned": pinned}


def render(t) -> str:
    out = ["(* GENERATED by harness/translators/rust_tables.py on every run from hugr-core/src/ops/tag.rs, ops.rs,",
           "   ops/{module,dataflow,controlflow,constant,custom,sum,validate}.rs and hugr/validate.rs of the checkout under test.",
           "   Constants only.  Do not edit. *)",
           "From Coq Require Import List String.", "Import ListNotations.", "Open Scope string_scope.", ""]
    out.append("(* ops/tag.rs: enum OpTag *)\nDefinition rs_tags : list string :=\n  %s.\n" % qlist(t["tags"]))
    out.append(assoc("rs_lattice", "list string", [(k, qlist(v)) for k, v in t["lattice"]],
                     "ops/tag.rs: fn immediate_supersets (match arms, in the order of enum OpTag)"))
    out.append("(* ops.rs: enum OpType *)\nDefinition rs_optypes : list string :=\n  %s.\n" % qlist(t["optypes"]))
    out.append(assoc("rs_op_tag", "string", [(k, q(v)) for k, v in t["op_tag"]],
                     "OpTrait::tag of every OpType variant (StaticTag constant or DataflowOpTrait::TAG)"))
    fl = t["flags"]
    out.append(assoc("rs_allowed_children", "string", [(k, q(v["allowed_children"])) for k, v in fl],
                     "ops/validate.rs: validity_flags().allowed_children"))
    out.append(assoc("rs_allowed_first_child", "string", [(k, q(v["allowed_first_child"])) for k, v in fl],
                     "validity_flags().allowed_first_child"))
    out.append(assoc("rs_allowed_second_child", "string", [(k, q(v["allowed_second_child"])) for k, v in fl],
                     "validity_flags().allowed_second_child"))
    out.append(assoc("rs_requires_children", "bool", [(k, qbool(v["requires_children"])) for k, v in fl],
                     "validity_flags().requires_children"))
    out.append(assoc("rs_requires_dag", "bool", [(k, qbool(v["requires_dag"])) for k, v in fl],
                     "validity_flags().requires_dag"))
    out.append(assoc("rs_edge_check", "option string", [(k, qopt(v["edge_check"])) for k, v in fl],
                     "validity_flags().edge_check (name of the function)"))
    out.append(assoc("rs_children_check", "string", [(k, q(v)) for k, v in t["checks"]],
                     "which impl supplies validate_op_children (\"default\" = Ok(()))"))
    out.append("(* tags validate_io_nodes rejects after the second child; the tag CFG::validate_op_children rejects there *)\n"
               "Definition rs_internal_io_tags : list string := %s.\nDefinition rs_internal_exit_tags : list string := %s.\n"
               % (qlist(t["io_tags"]), qlist(t["exit_tags"])))
    out.append(assoc("rs_has_signature", "bool", [(k, qbool(v)) for k, v in t["has_sig"]],
                     "OpTrait::dataflow_signature is Some (the variant implements DataflowOpTrait)"))
    out.append("(* variants implementing DataflowParent (inner_signature) *)\nDefinition rs_dataflow_parents : list string :=\n  %s.\n"
               % qlist(t["dfparent"]))
    for fn in ("static_input", "static_output", "other_input", "other_output"):
        out.append(assoc("rs_" + fn, "option string", [(k, qopt(kinds[fn])) for k, kinds, _ in t["ports"]],
                         "OpTrait::%s: constructor of the EdgeKind, or None" % fn))
    out.append(assoc("rs_non_df_in", "string", [(k, q(c[0])) for k, _, c in t["ports"]],
                     "OpTrait::non_df_port_count(Incoming): \"default\" = other_input().is_some() as usize"))
    out.append(assoc("rs_non_df_out", "string", [(k, q(c[1])) for k, _, c in t["ports"]],
                     "OpTrait::non_df_port_count(Outgoing): \"default\" = other_output().is_some() as usize"))
    out.append("(* ops.rs OpType::other_port: the tag whose subsets have a static input before the other port *)\n"
               "Definition rs_static_input_tag : string := %s.\n"
               "(* hugr/validate.rs validate_edge: a dominator edge needs a grandparent with exactly this tag *)\n"
               "Definition rs_dom_parent_tag : string := %s.\n"
               "(* hugr/validate.rs validate_port: inputs of operations with this tag need no link *)\n"
               "Definition rs_unconnected_ok_tag : string := %s.\n"
               % (q(t["static_input_tag"]), q(t["dom_tag"]), q(t["unconnected_ok_tag"])))
    out.append("(* types.rs: enum EdgeKind; the kinds EdgeKind::is_static matches *)\n"
               "Definition rs_edge_kinds : list string := %s.\nDefinition rs_static_kinds : list string := %s.\n"
               "(* hugr/validate.rs validate_port: input ports of these kinds need no link; besides non-copyable values,\n"
               "   output ports of these kinds must have exactly one link *)\n"
               "Definition rs_unconnected_ok_kinds : list string := %s.\nDefinition rs_linear_out_extra_kinds : list string := %s.\n"
               % (qlist(t["edge_kinds"]), qlist(t["static_kinds"]), qlist(t["unconnected_ok_kinds"]), qlist(t["linear_extra"])))
    g = t["sigt"]
    ity = "list (string * list string)"
    out.append(assoc("rs_fields", "list (string * string)",
                     [(k, "[" + "; ".join("(%s, %s)" % (q(f), q(ty)) for f, ty in fs) + "]") for k, fs in g["fields"]],
                     "fields of the operation structs of type TypeRow (row), Vec<TypeRow> (rows), Type (ty), Signature (sig), "
                     "PolyFuncType (poly), usize (nat)"))
    out.append(assoc("rs_signature", "(%s * %s)" % (ity, ity), [(k, "(%s, %s)" % (qitems(a), qitems(b))) for k, (a, b) in g["sigs"]],
                     "DataflowOpTrait::signature as (input row, output row); a row is a concatenation of items:\n"
                     "   row F | ty F | sum_rows F = Type::new_sum(F) | sum2 A B = Type::new_sum([A, B]) | fn F = Type::new_function(F) |\n"
                     "   row_at F I = F.get(I) | sig_in F, sig_out F | body_in F, body_out F = rows of F.body()"))
    out.append(assoc("rs_inner_signature", "(%s * %s)" % (ity, ity),
                     [(k, "(%s, %s)" % (qitems(a), qitems(b))) for k, (a, b) in g["inners"]],
                     "DataflowParent::inner_signature"))
    out.append("(* Conditional::case_input_row(case) and the row compared with the case's output; DataflowBlock::successor_input(successor) *)\n"
               "Definition rs_case_input_row : %s := %s.\nDefinition rs_case_output_row : %s := %s.\n"
               "Definition rs_successor_input : %s := %s.\n"
               % (ity, qitems(g["case_input_row"]), ity, qitems(g["case_output_row"]), ity, qitems(g["successor_input"])))
    out.append(assoc("rs_block_input", ity, [(k, qitems(v)) for k, v in g["block_input"]], "BasicBlock::dataflow_input"))
    out.append(assoc("rs_transcribed_code", "string", [(k, '"%s"' % v) for k, v in t["pinned"]],
                     "hugr/validate.rs: sha256 of the token stream of the functions of impl ValidationContext that Validity.v "
                     "transcribes (checked by the scanner against the digests recorded when they were transcribed)"))
    return "\n".join(out)


def regenerate(repo, coq_dir):
    """Scans <repo>/hugr-core/src and (re)writes <coq_dir>/gen/RustTables.v; returns its path."""
    text = render(scan(repo))
    path = os.path.join(coq_dir, "gen", "RustTables.v")
    try:
        same = open(path).read() == text
    except FileNotFoundError:
        same = False
    if not same:
        os.makedirs(os.path.dirname(path), exist_ok=True)
        tmp = path + ".tmp%d" % os.getpid()
        with open(tmp, "w") as f:
            f.write(text)
        os.replace(tmp, path)
    return path


if __name__ == "__main__":
    here = os.path.dirname(os.path.abspath(__file__))
    repo = sys.argv[1] if len(sys.argv) > 1 else os.environ.get("VERIF_REPO", "/repo")
    coq = sys.argv[2] if len(sys.argv) > 2 else os.path.join(os.path.dirname(os.path.dirname(here)), "coq")
    try:
        print(regenerate(repo, coq))
    except TranslatorError as e:
        print("TRANSLATOR ERROR: %s" % e, file=sys.stderr)
        sys.exit(2)
