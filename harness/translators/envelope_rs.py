"""C09 translator (fail closed): the documented envelope header as DATA.

* `hugr-core/src/envelope/header.rs` (the documentation of record of the envelope header) is scanned for
  - the magic string of `MAGIC_NUMBERS`,
  - every variant of `enum EnvelopeFormat` with its explicit discriminant,
  - the variants `ascii_printable` returns true for,
  - the flags base byte and the way the zstd bit is or-ed in (`EnvelopeHeader::write`),
  - the buffer lengths, the order of the three reads and the zstd bit mask (`EnvelopeHeader::read`),
  - the header length, if the doc comment of `read` states one ("Consumes exactly N bytes"),
  and written to `coq/gen/EnvelopeRust.v` (constants only).  The scanner recognises exactly the shape of the
  file it was written for; any construct it does not recognise (a variant without a discriminant, another body
  of `ascii_printable`, a fourth write, another read order, a block comment ...) raises `TranslatorError`
  instead of producing constants: a header.rs that says something the transcription in
  `coq/model/EnvelopeRustM.v` does not model never yields a proved theorem.
* the module-level constants of `hugr.envelope` (`MAGIC_NUMBERS`, the members of `EnvelopeFormat` with their
  values, and for each member what `ascii_printable()` answers), read by IMPORTING the module of the checkout
  under test, are written to `coq/gen/EnvelopePy.v`.

`rust_read` / `rust_write` below are a Python transcription of the same reader / writer over the scanned
constants.  They never decide a verdict: `extra()` of harness/props/c09.py uses them to PROPOSE concrete
differing inputs, which Coq (`coq/run/C09RustRun.v`, the transcription in Gallina) then confirms.
"""
from __future__ import annotations

import os
import re
import sys

HEADER_RS = os.path.join("hugr-core", "src", "envelope", "header.rs")


class TranslatorError(Exception):
    pass


def fail(msg):
    raise TranslatorError("header.rs: " + msg)


# ------------------------------------------------------------------------------------------------ lexing

def lex(src: str):
    """Returns (code, blank, docs): `code` = the source with `//` comments removed (same length, comments
    replaced by spaces), `blank` = `code` with the contents of string literals blanked as well (for brace
    matching and pattern search), `docs` = list of (offset, text) of the line comments.  Fails closed on block
    comments, raw strings and char literals holding a quote."""
    code, blank, docs = [], [], []
    i, n = 0, len(src)
    while i < n:
        c = src[i]
        if src.startswith("//", i):
            j = src.find("\n", i)
            j = n if j < 0 else j
            docs.append((i, src[i:j]))
            code.append(" " * (j - i))
            blank.append(" " * (j - i))
            i = j
        elif src.startswith("/*", i):
            fail("block comment at offset %d (not handled by the scanner)" % i)
        elif c == '"':
            if i > 0 and src[i - 1] in "r#" and re.search(r"\bb?r#*$", src[max(0, i - 8):i]):
                fail("raw string literal at offset %d" % i)
            j = i + 1
            while j < n and src[j] != '"':
                if src[j] == "\n":
                    fail("string literal spanning lines at offset %d" % i)
                j += 2 if src[j] == "\\" else 1
            if j >= n:
                fail("unterminated string literal at offset %d" % i)
            code.append(src[i:j + 1])
            blank.append('"' + " " * (j - i - 1) + '"')
            i = j + 1
        elif c == "'":
            # a char literal ('x', '\n', '"') or a lifetime ('a): only the literal holding a quote / a brace
            # could disturb the scan
            m = re.match(r"'(\\.|[^\\'])'", src[i:])
            if m:
                if m.group(1) in ('"', "{", "}", "\\\""):
                    fail("char literal %s at offset %d" % (m.group(0), i))
                code.append(m.group(0))
                blank.append("' '" if len(m.group(0)) == 3 else "'" + " " * (len(m.group(0)) - 2) + "'")
                i += len(m.group(0))
            else:
                code.append(c)
                blank.append(c)
                i += 1
        else:
            code.append(c)
            blank.append(c)
            i += 1
    code, blank = "".join(code), "".join(blank)
    assert len(code) == len(src) == len(blank)
    return code, blank, docs


def block_after(code, blank, pattern, what, start=0, end=None):
    """The brace-balanced block that follows the ONLY match of `pattern` in blank[start:end]:
    returns (body, body_start, body_end) with body taken from `code`."""
    ms = list(re.finditer(pattern, blank[start:end]))
    if len(ms) != 1:
        fail("%s: expected exactly one match of /%s/, found %d" % (what, pattern, len(ms)))
    p = start + ms[0].end()
    lim = len(blank) if end is None else end
    while p < lim and blank[p] != "{":
        if blank[p] == ";":
            fail("%s: declaration without a body" % what)
        p += 1
    if p >= lim:
        fail("%s: no body found" % what)
    depth, q = 0, p
    while q < lim:
        if blank[q] == "{":
            depth += 1
        elif blank[q] == "}":
            depth -= 1
            if depth == 0:
                return code[p + 1:q], p + 1, q
        q += 1
    fail("%s: unbalanced braces" % what)


INT = r"(?:0b[01_]+|0x[0-9a-fA-F_]+|0o[0-7_]+|[0-9][0-9_]*)(?:u8|u16|u32|u64|usize|i8|i16|i32|i64|isize)?"


def parse_int(s, what):
    m = re.fullmatch(r"(0b[01_]+|0x[0-9a-fA-F_]+|0o[0-7_]+|[0-9][0-9_]*)([ui](?:8|16|32|64|size))?", s.strip())
    if not m:
        fail("%s: %r is not an integer literal" % (what, s))
    lit = m.group(1).replace("_", "")
    v = int(lit, 0) if lit[:2] in ("0b", "0x", "0o") else int(lit, 10)
    if m.group(2) == "u8" and v > 255:
        fail("%s: %r does not fit its u8 suffix" % (what, s))
    return v


def squeeze(s):
    return " ".join(s.split())


def in_order(body, patterns, what):
    """Every pattern must match, each after the end of the previous match; returns the match objects."""
    pos, out = 0, []
    for name, pat in patterns:
        m = re.compile(pat).search(body, pos)
        if not m:
            fail("%s: expected `%s` (pattern /%s/) after offset %d of the body: %r"
                 % (what, name, pat, pos, body[pos:pos + 80]))
        out.append(m)
        pos = m.end()
    return out


def count(body, pat, n, what):
    k = len(re.findall(pat, body))
    if k != n:
        fail("%s: expected %d occurrence(s) of /%s/, found %d" % (what, n, pat, k))


# ------------------------------------------------------------------------------------------------ scanning

def scan_text(src: str) -> dict:
    code, blank, docs = lex(src)

    # the unit tests at the end of the file use the same names; they are not part of the header definition
    mt = re.search(r"#\[cfg\(test\)\]\s*mod\s+tests\s*\{", blank)
    end = mt.start() if mt else len(blank)

    # --- magic
    if len(re.findall(r"\bMAGIC_NUMBERS\s*:", blank[:end])) != 1:
        fail("expected exactly one definition of MAGIC_NUMBERS")
    ms = list(re.finditer(r'pub\s+const\s+MAGIC_NUMBERS\s*:\s*&\s*\[\s*u8\s*\]\s*=\s*'
                          r'(?:"([^"\\]*)"\s*\.\s*as_bytes\s*\(\s*\)|b"([^"\\]*)")\s*;', code[:end]))
    if len(ms) != 1:
        fail("MAGIC_NUMBERS is not `pub const MAGIC_NUMBERS: &[u8] = \"...\".as_bytes();` (or b\"...\") with a "
             "literal without escapes")
    m = ms[0]
    magic_s = m.group(1) if m.group(1) is not None else m.group(2)
    if any(ord(c) > 127 for c in magic_s):
        fail("non-ASCII character in the magic string %r" % magic_s)
    magic = [ord(c) for c in magic_s]

    # --- enum EnvelopeFormat
    body, b0, _ = block_after(code, blank, r"\bpub\s+enum\s+EnvelopeFormat\b", "enum EnvelopeFormat", 0, end)
    head = blank[:b0]
    mh = re.search(r"((?:#\[[^\]]*\]\s*)+)pub\s+enum\s+EnvelopeFormat\b[^{]*\{$", head)
    attrs = squeeze(mh.group(1)) if mh else ""
    if not re.search(r"#\[ ?derive ?\([^\]]*\bstrum ?:: ?FromRepr\b", attrs):
        fail("enum EnvelopeFormat does not derive strum::FromRepr (from_repr = lookup by discriminant is what "
             "the transcription of `read` assumes): %r" % attrs)
    if re.search(r"#\[ ?repr\b", attrs) and not re.search(r"#\[ ?repr ?\( ?u8 ?\) ?\]", attrs):
        fail("unexpected repr attribute on enum EnvelopeFormat: %r" % attrs)
    items_src = re.sub(r"#\[[^\]\[]*\]", " ", body)
    if "#" in items_src or "{" in items_src or "(" in items_src:
        fail("enum EnvelopeFormat: a variant with fields or an attribute the scanner does not handle")
    formats = []
    for item in items_src.split(","):
        if not item.strip():
            continue
        mi = re.fullmatch(r"\s*([A-Z][A-Za-z0-9_]*)\s*=\s*(%s)\s*" % INT, item)
        if not mi:
            fail("enum EnvelopeFormat: variant %r is not `Name = <integer literal>`" % squeeze(item))
        v = parse_int(mi.group(2), "discriminant of " + mi.group(1))
        if v > 255:
            fail("discriminant of %s = %d does not fit the format byte" % (mi.group(1), v))
        formats.append((mi.group(1), v))
    if not formats:
        fail("enum EnvelopeFormat has no variants")
    if len({n for n, _ in formats}) != len(formats) or len({v for _, v in formats}) != len(formats):
        fail("enum EnvelopeFormat: repeated variant name or discriminant: %r" % formats)
    names = {n for n, _ in formats}

    # --- impl EnvelopeFormat { fn ascii_printable }
    body, _, _ = block_after(code, blank, r"\bpub\s+fn\s+ascii_printable\s*\(\s*self\s*\)\s*->\s*bool\b",
                             "fn ascii_printable", 0, end)
    b = squeeze(body)
    if b == "false":
        ascii_printable = []
    else:
        ma = re.fullmatch(r"matches ?! ?\( ?self ?, ?((?:Self|EnvelopeFormat) ?:: ?\w+(?: ?\| ?(?:Self|EnvelopeFormat) ?:: ?\w+)*) ?,? ?\)", b)
        if not ma:
            fail("fn ascii_printable: body is not `matches!(self, Self::A | Self::B …)`: %r" % b)
        ascii_printable = [squeeze(x).split("::")[-1].strip() for x in ma.group(1).split("|")]
    for a in ascii_printable:
        if a not in names:
            fail("fn ascii_printable names %r, which is not a variant of EnvelopeFormat" % a)
    if len(set(ascii_printable)) != len(ascii_printable):
        fail("fn ascii_printable repeats a variant: %r" % ascii_printable)

    # --- impl EnvelopeHeader { fn write, fn read }
    hb, h0, h1 = block_after(code, blank, r"\bimpl\s+EnvelopeHeader\b", "impl EnvelopeHeader", 0, end)
    wbody, _, _ = block_after(code, blank, r"\bpub\s+fn\s+write\s*\(", "EnvelopeHeader::write", h0, h1)
    w = squeeze(wbody)
    mw = in_order(w, [
        ("write the magic number", r"writer ?\. ?write_all ?\( ?MAGIC_NUMBERS ?\) ?\? ?;"),
        ("format byte = discriminant", r"let format_bytes ?= ?\[ ?self ?\. ?format as u8 ?\] ?;"),
        ("write the format byte", r"writer ?\. ?write_all ?\( ?& ?format_bytes ?\) ?\? ?;"),
        ("flags base", r"let mut flags ?= ?(%s) ?;" % INT),
        ("zstd bit", r"flags ?\|= ?self ?\. ?zstd as u8 ?;"),
        ("write the flags byte", r"writer ?\. ?write_all ?\( ?& ?\[ ?flags ?\] ?\) ?\? ?;"),
        ("Ok", r"Ok ?\( ?\( ?\) ?\)$"),
    ], "EnvelopeHeader::write")
    count(w, r"\bwrite_all\b", 3, "EnvelopeHeader::write")
    count(w, r"\bwriter\b", 3, "EnvelopeHeader::write")
    count(w, r"\bflags\b", 3, "EnvelopeHeader::write")
    count(w, r"\bformat_bytes\b", 2, "EnvelopeHeader::write")
    count(w, r";", 6, "EnvelopeHeader::write")
    flags_base = parse_int(mw[3].group(1), "flags base")
    if flags_base > 255:
        fail("flags base %d does not fit a byte" % flags_base)

    rbody, r0, _ = block_after(code, blank, r"\bpub\s+fn\s+read\s*\(", "EnvelopeHeader::read", h0, h1)
    r = squeeze(rbody)
    mr = in_order(r, [
        ("magic buffer", r"let mut magic ?= ?\[ ?0 ?; ?(%s) ?\] ?;" % INT),
        ("read the magic number", r"reader ?\. ?read_exact ?\( ?&mut magic ?\) ?\? ?;"),
        ("compare the magic number", r"if magic ?!= ?MAGIC_NUMBERS ?\{ ?return Err ?\( ?EnvelopeError ?:: ?MagicNumber\b"),
        ("format buffer", r"let mut format_bytes ?= ?\[ ?0 ?; ?(%s) ?\] ?;" % INT),
        ("read the format byte", r"reader ?\. ?read_exact ?\( ?&mut format_bytes ?\) ?\? ?;"),
        ("discriminant", r"let format_discriminant ?= ?format_bytes ?\[ ?0 ?\] as usize ?;"),
        ("from_repr", r"let Some ?\( ?format ?\) ?= ?EnvelopeFormat ?:: ?from_repr ?\( ?format_discriminant ?\) ?else ?\{ ?"
                      r"return Err ?\( ?EnvelopeError ?:: ?InvalidFormatDescriptor\b"),
        ("flags buffer", r"let mut flags_bytes ?= ?\[ ?0 ?; ?(%s) ?\] ?;" % INT),
        ("read the flags byte", r"reader ?\. ?read_exact ?\( ?&mut flags_bytes ?\) ?\? ?;"),
        ("zstd bit", r"let zstd ?= ?flags_bytes ?\[ ?0 ?\] ?& ?(%s) ?!= ?0 ?;" % INT),
        ("result", r"Ok ?\( ?Self ?\{ ?format ?, ?zstd ?,? ?\} ?\)$"),
    ], "EnvelopeHeader::read")
    count(r, r"\bread_exact\b", 3, "EnvelopeHeader::read")
    count(r, r"\breader\b", 3, "EnvelopeHeader::read")
    count(r, r"\breturn\b", 2, "EnvelopeHeader::read")
    count(r, r"\bif\b", 1, "EnvelopeHeader::read")
    count(r, r"\belse\b", 1, "EnvelopeHeader::read")
    count(r, r"\bzstd\b", 2, "EnvelopeHeader::read")
    count(r, r"\bflags_bytes\b", 3, "EnvelopeHeader::read")
    count(r, r"\bformat_bytes\b", 3, "EnvelopeHeader::read")
    count(r, r"\bmagic\b", 4, "EnvelopeHeader::read")      # let, read_exact, comparison, `found: magic`
    magic_len = parse_int(mr[0].group(1), "length of the magic buffer")
    format_len = parse_int(mr[3].group(1), "length of the format buffer")
    flags_len = parse_int(mr[7].group(1), "length of the flags buffer")
    zstd_mask = parse_int(mr[9].group(1), "zstd mask")
    for nm, v in (("magic", magic_len), ("format", format_len), ("flags", flags_len)):
        if not 0 < v < 64:
            fail("length %d of the %s buffer" % (v, nm))
    if format_len != 1 or flags_len != 1:
        fail("the format / flags buffers are not single bytes (%d, %d): `[0]` would not be the whole field"
             % (format_len, flags_len))
    if zstd_mask > 255:
        fail("zstd mask %d does not fit a byte" % zstd_mask)

    # --- the header length, if the doc comment of `read` states one
    stated = None
    fn_pos = blank.rfind("pub", h0, r0)
    doc = " ".join(t.lstrip("/ ").strip() for off, t in docs if h0 <= off < r0 and off > blank.rfind("}", h0, fn_pos))
    md = re.findall(r"Consumes exactly (\d+) bytes", doc)
    if len(md) > 1:
        fail("the doc comment of EnvelopeHeader::read states two lengths: %r" % md)
    if md:
        stated = int(md[0])

    return {"magic": magic, "magic_str": magic_s, "formats": formats, "ascii_printable": ascii_printable,
            "flags_base": flags_base, "zstd_mask": zstd_mask, "magic_len": magic_len, "format_len": format_len,
            "flags_len": flags_len, "header_len_stated": stated}


def scan(repo: str) -> dict:
    path = os.path.join(repo, HEADER_RS)
    try:
        with open(path, "rb") as f:
            raw = f.read()
    except OSError as e:
        raise TranslatorError("cannot read %s: %s" % (path, e)) from None
    try:
        src = raw.decode("utf-8")
    except UnicodeDecodeError as e:
        raise TranslatorError("%s is not UTF-8: %s" % (path, e)) from None
    return scan_text(src)


def read_python() -> dict:
    """Module-level constants of hugr.envelope of the checkout under test (PYTHONPATH), read by import."""
    try:
        import hugr.envelope as E
        from enum import Enum
    except Exception as e:                              # fail closed
        raise TranslatorError("cannot import hugr.envelope: %s: %s" % (type(e).__name__, e)) from None
    mg = getattr(E, "MAGIC_NUMBERS", None)
    if not isinstance(mg, (bytes, bytearray)):
        raise TranslatorError("hugr.envelope.MAGIC_NUMBERS is not a bytes object: %r" % (mg,))
    F = getattr(E, "EnvelopeFormat", None)
    if not (isinstance(F, type) and issubclass(F, Enum)):
        raise TranslatorError("hugr.envelope.EnvelopeFormat is not an Enum class: %r" % (F,))
    formats, printable = [], []
    for name, member in F.__members__.items():          # aliases included
        v = member.value
        if isinstance(v, bool) or not isinstance(v, int) or v < 0:
            raise TranslatorError("EnvelopeFormat.%s has the value %r, not a non-negative int" % (name, v))
        formats.append((name, v))
        try:
            p = member.ascii_printable()
        except Exception as e:
            raise TranslatorError("EnvelopeFormat.%s.ascii_printable() raised %s" % (name, type(e).__name__)) from None
        if not isinstance(p, bool):
            raise TranslatorError("EnvelopeFormat.%s.ascii_printable() returned %r, not a bool" % (name, p))
        if p:
            printable.append(name)
    return {"magic": list(bytes(mg)), "formats": formats, "ascii_printable": printable}


# ------------------------------------------------------------------------------------------------ rendering

def gstring(s: str) -> str:
    if not re.fullmatch(r"[A-Za-z0-9_]+", s):
        raise TranslatorError("name %r is not an identifier" % s)
    return '"%s"%%string' % s


def gN(v):
    return "%d%%N" % v


def glist(xs):
    xs = list(xs)
    return "[" + "; ".join(xs) + "]" if xs else "[]"


def render_rust(c: dict) -> str:
    return ("(* GENERATED on every run by harness/translators/envelope_rs.py from\n"
            "     hugr-core/src/envelope/header.rs\n"
            "   (fail-closed scan).  Constants only; do not edit. *)\n"
            "From Coq Require Import NArith List String.\nImport ListNotations.\n\n"
            "(* pub const MAGIC_NUMBERS: &[u8] = \"%s\".as_bytes(); *)\n"
            "Definition rust_magic : list N := %s.\n"
            "(* pub enum EnvelopeFormat: every variant with its discriminant, in source order *)\n"
            "Definition rust_formats : list (string * N) := %s.\n"
            "(* fn ascii_printable: matches!(self, ...) *)\n"
            "Definition rust_ascii_printable : list string := %s.\n"
            "(* EnvelopeHeader::write: let mut flags = <base>; flags |= self.zstd as u8; *)\n"
            "Definition rust_flags_base : N := %s.\n"
            "(* EnvelopeHeader::read: buffers [0; n] filled by read_exact, in this order; zstd = flags & <mask> != 0 *)\n"
            "Definition rust_magic_read_len : nat := %d.\n"
            "Definition rust_format_read_len : nat := %d.\n"
            "Definition rust_flags_read_len : nat := %d.\n"
            "Definition rust_zstd_mask : N := %s.\n"
            "(* doc comment of EnvelopeHeader::read: \"Consumes exactly n bytes from the reader.\" *)\n"
            "Definition rust_header_len_stated : option nat := %s.\n"
            % (c["magic_str"], glist(gN(b) for b in c["magic"]),
               glist("(%s, %s)" % (gstring(n), gN(v)) for n, v in c["formats"]),
               glist(gstring(n) for n in c["ascii_printable"]), gN(c["flags_base"]),
               c["magic_len"], c["format_len"], c["flags_len"], gN(c["zstd_mask"]),
               "None" if c["header_len_stated"] is None else "(Some %d)" % c["header_len_stated"]))


def render_python(p: dict) -> str:
    return ("(* GENERATED on every run by harness/translators/envelope_rs.py from the module-level constants of\n"
            "     hugr-py/src/hugr/envelope.py\n"
            "   (MAGIC_NUMBERS, EnvelopeFormat.__members__, ascii_printable() of each member), read by importing\n"
            "   the module of the checkout under test.  Constants only; do not edit. *)\n"
            "From Coq Require Import NArith List String.\nImport ListNotations.\n\n"
            "Definition py_magic : list N := %s.\n"
            "Definition py_formats : list (string * N) := %s.\n"
            "Definition py_ascii_printable : list string := %s.\n"
            % (glist(gN(b) for b in p["magic"]),
               glist("(%s, %s)" % (gstring(n), gN(v)) for n, v in p["formats"]),
               glist(gstring(n) for n in p["ascii_printable"])))


def write_if_changed(path, text):
    try:
        if open(path).read() == text:
            return False
    except FileNotFoundError:
        pass
    os.makedirs(os.path.dirname(path), exist_ok=True)
    tmp = path + ".tmp%d" % os.getpid()
    with open(tmp, "w") as f:
        f.write(text)
    os.replace(tmp, path)
    return True


PLACEHOLDER_RUST = {"magic": [], "magic_str": "", "formats": [], "ascii_printable": [], "flags_base": 0, "zstd_mask": 0,
                    "magic_len": 0, "format_len": 0, "flags_len": 0, "header_len_stated": None}
PLACEHOLDER_PY = {"magic": [], "formats": [], "ascii_printable": []}
FAILED_NOTE = ("(* THE SCAN FAILED CLOSED on this run: the constants below are placeholders on which every theorem about\n"
               "   them fails (nothing is proved from constants of an earlier run). *)\n")


def regenerate(repo, coq_dir):
    """Writes coq/gen/EnvelopeRust.v and coq/gen/EnvelopePy.v; returns ([paths], info) with the constants.
    Fail closed: when header.rs has a shape the scanner does not recognise (or hugr.envelope cannot be
    imported / holds something else than expected) the file is rewritten with EMPTY placeholder constants, on
    which the constants theorems of proofs/EnvelopeRustP.v do not hold, and info[...]["error"] says why;
    extra() of harness/props/c09.py reports it.  The files always exist and always compile, so that the build
    of other properties is never disturbed."""
    info = {}
    try:
        rust = scan(repo)
        if rust["magic_len"] >= 5000 or len(rust["magic"]) >= 5000:
            raise TranslatorError("unreasonable magic length")
        text = render_rust(rust)
    except TranslatorError as e:
        rust = dict(PLACEHOLDER_RUST, error=str(e))
        text = FAILED_NOTE + render_rust(rust)
    try:
        py = read_python()
        text_py = render_python(py)
    except TranslatorError as e:
        py = dict(PLACEHOLDER_PY, error=str(e))
        text_py = FAILED_NOTE + render_python(py)
    p1 = os.path.join(coq_dir, "gen", "EnvelopeRust.v")
    p2 = os.path.join(coq_dir, "gen", "EnvelopePy.v")
    write_if_changed(p1, text)
    write_if_changed(p2, text_py)
    return [p1, p2], {"rust": rust, "python": py}


# ------------------------------------------------------------------------------------------------ transcription
# (proposes differing inputs only; the Gallina transcription in coq/model/EnvelopeRustM.v decides)

def rust_read(c: dict, data: bytes):
    """EnvelopeHeader::read over the scanned constants: ("ok", variant, zstd) | ("err", kind)."""
    n = c["magic_len"]
    if len(data) < n:
        return ("err", "Io")
    if list(data[:n]) != c["magic"]:
        return ("err", "MagicNumber")
    if len(data) < n + 1:
        return ("err", "Io")
    d = data[n]
    v = [name for name, disc in c["formats"] if disc == d]
    if not v:
        return ("err", "InvalidFormatDescriptor(%d)" % d)
    if len(data) < n + 2:
        return ("err", "Io")
    return ("ok", v[0], (data[n + 1] & c["zstd_mask"]) != 0)


def rust_write(c: dict, variant: str, zstd: bool) -> bytes:
    d = dict(c["formats"])[variant]
    return bytes(c["magic"] + [d, (c["flags_base"] | (1 if zstd else 0)) & 255])


if __name__ == "__main__":
    import json
    print(json.dumps(scan(sys.argv[1]), indent=1))
