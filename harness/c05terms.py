"""C05 helper: abstract terms (JSON lists) for types / type arguments / type parameters, their
construction with hugr-py's public constructors, Gallina literals of the terms, and fail-closed walkers
turning pydantic serial models and decoded API objects into Gallina literals of the Coq models.

Abstract type terms:
  ["Sum", rows] ["Tuple", l] ["Option", l] ["Either", l, r] ["UnitSum", n] ["Var", i, b] ["RowVar", i, b]
  ["USize"] ["Qubit"] ["Alias", name, b] ["Func", i, o, reqs] ["Opaque", id, b, args, ext]
  ["Ext", defname, args] ["Array", t, n] ["ArrayV", t, i, ub] ["List", t] ["StaticArray", t] ["Int", w]
  ["Float"] ["String"] ["Poly", params, i, o, reqs]
args:   ["T", t] ["N", n] ["S", s] ["Seq", l] ["Exts", l] ["V", i, param]
params: ["Type", b] ["Nat", ub|None] ["String"] ["List", p] ["Tuple", l] ["Exts"]
"""
from __future__ import annotations

import json

import fw
from fw import gN, gnat, gbool, glist, gopt, gapp

_env = {}


def env():
    """Lazily imported hugr modules and the test extension (definitions with every kind of bound)."""
    if _env:
        return _env
    import semver
    from hugr import tys, val, ops, ext
    import hugr._serialization.tys as stys
    import hugr._serialization.ops as sops
    from hugr.std.collections.array import Array, ArrayVal
    from hugr.std.collections.list import List, ListVal
    from hugr.std.collections.static_array import StaticArray, StaticArrayVal
    from hugr.std.int import int_t, IntVal
    from hugr.std.float import FLOAT_T, FloatVal
    from hugr.std.prelude import STRING_T, StringVal

    e = ext.Extension("c05.test", semver.Version(0, 1, 0))
    A, C = tys.TypeBound.Any, tys.TypeBound.Copyable
    defs = {
        "Tc": ext.TypeDef("Tc", "copyable whatever the argument", [tys.TypeTypeParam(A)], ext.ExplicitBound(C)),
        "Ta": ext.TypeDef("Ta", "linear", [], ext.ExplicitBound(A)),
        "Tp0": ext.TypeDef("Tp0", "bound of argument 0", [tys.TypeTypeParam(A)], ext.FromParamsBound([0])),
        "Tp12": ext.TypeDef("Tp12", "bound of arguments 1 and 2",
                            [tys.BoundedNatParam(None), tys.TypeTypeParam(A), tys.TypeTypeParam(C)],
                            ext.FromParamsBound([1, 2])),
        "Tnt": ext.TypeDef("Tnt", "index of a non-type parameter", [tys.BoundedNatParam(4)], ext.FromParamsBound([0])),
        "Tbad": ext.TypeDef("Tbad", "index out of range", [tys.TypeTypeParam(A)], ext.FromParamsBound([3])),
    }
    for k in list(defs):
        defs[k] = e.add_type_def(defs[k]) or defs[k]      # the registered definition (a copy in some versions)
    _env.update(tys=tys, val=val, ops=ops, ext=ext, stys=stys, sops=sops, Array=Array, List=List,
                StaticArray=StaticArray, int_t=int_t, FLOAT_T=FLOAT_T, STRING_T=STRING_T, defs=defs, extension=e,
                ArrayVal=ArrayVal, ListVal=ListVal, StaticArrayVal=StaticArrayVal, IntVal=IntVal, FloatVal=FloatVal,
                StringVal=StringVal, A=A, C=C)
    return _env


INTERN = fw.Interner()


def gname(s: str) -> str:
    assert isinstance(s, str), s
    return gN(INTERN(s))


def gnames(l) -> str:
    return glist(gname(x) for x in l)


def gbound(b) -> str:
    v = getattr(b, "value", b)
    return {"C": "Copyable", "A": "Any"}[v]


class WalkError(Exception):
    """A serial model / API object has a shape the Coq model does not know: fail closed."""


def fields(obj, *expected):
    got = set(type(obj).model_fields)
    if got != set(expected):
        raise WalkError(f"{type(obj).__name__}: fields {sorted(got)} != {sorted(expected)}")


# ----------------------------------------------------------------------------- construction


def pybound(b):
    e = env()
    return e["C"] if b == "C" else e["A"]


def build_param(p):
    tys = env()["tys"]
    k = p[0]
    if k == "Type":
        return tys.TypeTypeParam(pybound(p[1]))
    if k == "Nat":
        return tys.BoundedNatParam(p[1])
    if k == "String":
        return tys.StringParam()
    if k == "List":
        return tys.ListParam(build_param(p[1]))
    if k == "Tuple":
        return tys.TupleParam([build_param(x) for x in p[1]])
    if k == "Exts":
        return tys.ExtensionsParam()
    raise AssertionError(p)


def build_arg(a):
    tys = env()["tys"]
    k = a[0]
    if k == "T":
        return tys.TypeTypeArg(build_ty(a[1]))
    if k == "N":
        return tys.BoundedNatArg(a[1])
    if k == "S":
        return tys.StringArg(a[1])
    if k == "Seq":
        return tys.SequenceArg([build_arg(x) for x in a[1]])
    if k == "Exts":
        return tys.ExtensionsArg(list(a[1]))
    if k == "V":
        return tys.VariableArg(a[1], build_param(a[2]))
    raise AssertionError(a)


def build_row(l):
    return [build_ty(x) for x in l]


# How an argument that a public constructor declares as `Iterable[...]` (tys.Either left / right, val.Left vals /
# right_typ, val.Right left_typ / vals) is handed over.  None (the default, nothing changes for any existing caller):
# the list itself.  Otherwise an iterable over the same elements that is NOT a list: one-shot ones (a second pass
# over them is empty) and a re-iterable one without __len__ / __getitem__.
ITER_MODES = ["gen", "iter", "map", "tuple", "reiter"]
_iter_mode = [None]


class _ReIterable:
    def __init__(self, l):
        self._l = list(l)

    def __iter__(self):
        return iter(list(self._l))


def as_iterable(l):
    m = _iter_mode[0]
    if m is None:
        return l
    if m == "gen":
        return (x for x in l)
    if m == "iter":
        return iter(l)
    if m == "map":
        return map(lambda x: x, l)
    if m == "tuple":
        return tuple(l)
    if m == "reiter":
        return _ReIterable(l)
    raise AssertionError(m)


class iter_mode:
    """with iter_mode(m): every `Iterable`-typed constructor argument built inside is handed over in mode m."""

    def __init__(self, m):
        self.m = m

    def __enter__(self):
        self.old = _iter_mode[0]
        _iter_mode[0] = self.m

    def __exit__(self, *a):
        _iter_mode[0] = self.old


def build_ty(t):
    e = env()
    tys = e["tys"]
    k = t[0]
    if k == "Sum":
        return tys.Sum([build_row(r) for r in t[1]])
    if k == "Tuple":
        return tys.Tuple(*build_row(t[1]))
    if k == "Option":
        return tys.Option(*build_row(t[1]))
    if k == "Either":
        return tys.Either(as_iterable(build_row(t[1])), as_iterable(build_row(t[2])))
    if k == "UnitSum":
        return tys.UnitSum(t[1])
    if k == "Var":
        return tys.Variable(t[1], pybound(t[2]))
    if k == "RowVar":
        return tys.RowVariable(t[1], pybound(t[2]))
    if k == "USize":
        return tys.USize()
    if k == "Qubit":
        return tys.Qubit
    if k == "Alias":
        return tys.Alias(t[1], pybound(t[2]))
    if k == "Func":
        return tys.FunctionType(build_row(t[1]), build_row(t[2]), list(t[3]))
    if k == "Poly":
        return tys.PolyFuncType([build_param(p) for p in t[1]],
                                tys.FunctionType(build_row(t[2]), build_row(t[3]), list(t[4])))
    if k == "Opaque":
        return tys.Opaque(t[1], pybound(t[2]), [build_arg(a) for a in t[3]], t[4])
    if k == "Ext":
        return e["defs"][t[1]].instantiate([build_arg(a) for a in t[2]])
    if k == "Array":
        return e["Array"](build_ty(t[1]), t[2])
    if k == "ArrayV":
        return e["Array"](build_ty(t[1]), tys.VariableArg(t[2], tys.BoundedNatParam(t[3])))
    if k == "List":
        return e["List"](build_ty(t[1]))
    if k == "StaticArray":
        return e["StaticArray"](build_ty(t[1]))
    if k == "Int":
        return e["int_t"](t[1])
    if k == "Float":
        return e["FLOAT_T"]
    if k == "String":
        return e["STRING_T"]
    raise AssertionError(t)


def build_func(f):
    """[i, o, reqs] -> tys.FunctionType"""
    tys = env()["tys"]
    return tys.FunctionType(build_row(f[0]), build_row(f[1]), list(f[2]))


def build_poly(p):
    """[params, [i, o, reqs]] -> tys.PolyFuncType"""
    tys = env()["tys"]
    return tys.PolyFuncType([build_param(x) for x in p[0]], build_func(p[1]))


# ----------------------------------------------------------------------------- literals of abstract terms
# (through the objects the public constructors build: the literal of a term is the walk of that object)


def lit_param_obj(p) -> str:
    tys = env()["tys"]
    c = type(p)
    if c is tys.TypeTypeParam:
        return gapp("PType", gbound(p.bound))
    if c is tys.BoundedNatParam:
        return gapp("PNat", gopt(None if p.upper_bound is None else gN(p.upper_bound)))
    if c is tys.StringParam:
        return "PString"
    if c is tys.ListParam:
        return gapp("PList", lit_param_obj(p.param))
    if c is tys.TupleParam:
        return gapp("PTuple", glist(lit_param_obj(x) for x in p.params))
    if c is tys.ExtensionsParam:
        return "PExts"
    raise WalkError(f"type parameter of class {c.__name__}")


def lit_typedef(td) -> str:
    ext = env()["ext"]
    b = td.bound
    if type(b) is ext.ExplicitBound:
        gb = gapp("Explicit", gbound(b.bound))
    elif type(b) is ext.FromParamsBound:
        gb = gapp("FromParams", glist(gnat(i) for i in b.indices))
    else:
        raise WalkError("type definition bound " + type(b).__name__)
    return ("{| td_ext := %s; td_name := %s; td_descr := %s; td_params := %s; td_bound := %s |}" % (
        gname(td.get_extension().name), gname(td.name), gname(td.description),
        glist(lit_param_obj(p) for p in td.params), gb))


def lit_arg_obj(a) -> str:
    tys = env()["tys"]
    c = type(a)
    if c is tys.TypeTypeArg:
        return gapp("AType", lit_ty_obj(a.ty))
    if c is tys.BoundedNatArg:
        return gapp("ANat", gN(a.n))
    if c is tys.StringArg:
        return gapp("AString", gname(a.value))
    if c is tys.SequenceArg:
        return gapp("ASeq", glist(lit_arg_obj(x) for x in a.elems))
    if c is tys.ExtensionsArg:
        return gapp("AExts", gnames(a.extensions))
    if c is tys.VariableArg:
        return gapp("AVar", gnat(a.idx), lit_param_obj(a.param))
    raise WalkError(f"type argument of class {c.__name__}")


def lit_row_obj(l) -> str:
    return glist(lit_ty_obj(x) for x in l)


def lit_ty_obj(t) -> str:
    """Walk of an API type object (class + attributes) as a literal of model/Types.v `ty`."""
    e = env()
    tys = e["tys"]
    c = type(t)
    if c is tys.UnitSum:
        if t.variant_rows != [[]] * t.size:
            raise WalkError("UnitSum whose rows are not empty rows")
        return gapp("TUnitSum", gnat(t.size))
    if c in (tys.Sum, tys.Tuple, tys.Option, tys.Either):
        return gapp("TSum", glist(lit_row_obj(r) for r in t.variant_rows))
    if c is tys.Variable:
        return gapp("TVar", gnat(t.idx), gbound(t.bound))
    if c is tys.RowVariable:
        return gapp("TRowVar", gnat(t.idx), gbound(t.bound))
    if c is tys.USize:
        return "TUSize"
    if c is tys._QubitDef:
        return "TQubit"
    if c is tys.Alias:
        return gapp("TAlias", gname(t.name), gbound(t.bound))
    if c is tys.FunctionType:
        return gapp("TFunc", lit_row_obj(t.input), lit_row_obj(t.output), gnames(t.runtime_reqs))
    if c is tys.PolyFuncType:
        return gapp("TPoly", glist(lit_param_obj(p) for p in t.params), lit_row_obj(t.body.input),
                    lit_row_obj(t.body.output), gnames(t.body.runtime_reqs))
    if c is tys.Opaque:
        return gapp("TOpaque", gname(t.extension), gname(t.id), glist(lit_arg_obj(a) for a in t.args), gbound(t.bound))
    if c is tys.ExtType:
        return gapp("TExt", lit_typedef(t.type_def), glist(lit_arg_obj(a) for a in t.args), "Generic")
    if c is e["Array"]:
        return gapp("TExt", lit_typedef(t.type_def), glist(lit_arg_obj(a) for a in t.args), "(ElemAt 1)")
    if c in (e["List"], e["StaticArray"]):
        return gapp("TExt", lit_typedef(t.type_def), glist(lit_arg_obj(a) for a in t.args), "(ElemAt 0)")
    raise WalkError(f"type of class {c.__name__}")


def lit_func_obj(f) -> str:
    tys = env()["tys"]
    if type(f) is not tys.FunctionType:
        raise WalkError("function type of class " + type(f).__name__)
    return gapp("FT", lit_row_obj(f.input), lit_row_obj(f.output), gnames(f.runtime_reqs))


def lit_poly_obj(p) -> str:
    tys = env()["tys"]
    if type(p) is not tys.PolyFuncType:
        raise WalkError("poly function type of class " + type(p).__name__)
    return gapp("PT", glist(lit_param_obj(x) for x in p.params), lit_func_obj(p.body))


# ----------------------------------------------------------------------------- walkers: serial models


def walk_sparam(s) -> str:
    stys = env()["stys"]
    if type(s) is stys.TypeParam:
        s = s.root
    c = type(s)
    if c is stys.TypeTypeParam:
        fields(s, "tp", "b")
        return gapp("SPType", gbound(s.b))
    if c is stys.BoundedNatParam:
        fields(s, "tp", "bound")
        return gapp("SPBoundedNat", gopt(None if s.bound is None else gN(s.bound)))
    if c is stys.StringParam:
        fields(s, "tp")
        return "SPString"
    if c is stys.ListParam:
        fields(s, "tp", "param")
        return gapp("SPList", walk_sparam(s.param))
    if c is stys.TupleParam:
        fields(s, "tp", "params")
        return gapp("SPTuple", glist(walk_sparam(x) for x in s.params))
    if c is stys.ExtensionsParam:
        fields(s, "tp")
        return "SPExtensions"
    raise WalkError("serial type parameter " + c.__name__)


def walk_sarg(s) -> str:
    stys = env()["stys"]
    if type(s) is stys.TypeArg:
        s = s.root
    c = type(s)
    if c is stys.TypeTypeArg:
        fields(s, "tya", "ty")
        return gapp("SATy", walk_sty(s.ty))
    if c is stys.BoundedNatArg:
        fields(s, "tya", "n")
        return gapp("SANat", gN(s.n))
    if c is stys.StringArg:
        fields(s, "tya", "arg")
        return gapp("SAString", gname(s.arg))
    if c is stys.SequenceArg:
        fields(s, "tya", "elems")
        return gapp("SASeq", glist(walk_sarg(x) for x in s.elems))
    if c is stys.ExtensionsArg:
        fields(s, "tya", "es")
        return gapp("SAExts", gnames(s.es))
    if c is stys.VariableArg:
        fields(s, "tya", "idx", "cached_decl")
        return gapp("SAVar", gN(s.idx), walk_sparam(s.cached_decl))
    raise WalkError("serial type argument " + c.__name__)


def walk_srow(l) -> str:
    return glist(walk_sty(x) for x in l)


def walk_sty(s) -> str:
    stys = env()["stys"]
    while type(s) in (stys.Type, stys.SumType):
        s = s.root
    c = type(s)
    if c is stys.Qubit:
        fields(s, "t")
        return "SQubit"
    if c is stys.Variable:
        fields(s, "t", "i", "b")
        return gapp("SVariable", gN(s.i), gbound(s.b))
    if c is stys.RowVar:
        fields(s, "t", "i", "b")
        return gapp("SRowVar", gN(s.i), gbound(s.b))
    if c is stys.USize:
        fields(s, "t")
        return "SUSize"
    if c is stys.FunctionType:
        fields(s, "t", "input", "output", "runtime_reqs")
        return gapp("SFunctionType", walk_srow(s.input), walk_srow(s.output), gnames(s.runtime_reqs))
    if c is stys.UnitSum:
        fields(s, "t", "s", "size")
        return gapp("SUnitSum", gN(s.size))
    if c is stys.GeneralSum:
        fields(s, "t", "s", "rows")
        return gapp("SGeneralSum", glist(walk_srow(r) for r in s.rows))
    if c is stys.Opaque:
        fields(s, "t", "extension", "id", "args", "bound")
        return gapp("SOpaque", gname(s.extension), gname(s.id), glist(walk_sarg(a) for a in s.args), gbound(s.bound))
    if c is stys.Alias:
        fields(s, "t", "bound", "name")
        return gapp("SAlias", gbound(s.bound), gname(s.name))
    raise WalkError("serial type " + c.__name__)


def walk_sfunc(s) -> str:
    stys = env()["stys"]
    if type(s) is not stys.FunctionType:
        raise WalkError("serial function type " + type(s).__name__)
    fields(s, "t", "input", "output", "runtime_reqs")
    return gapp("SFunc", walk_srow(s.input), walk_srow(s.output), gnames(s.runtime_reqs))


def walk_spoly(s) -> str:
    stys = env()["stys"]
    if type(s) is not stys.PolyFuncType:
        raise WalkError("serial poly function type " + type(s).__name__)
    fields(s, "params", "body")
    return gapp("SPoly", glist(walk_sparam(p) for p in s.params), walk_sfunc(s.body))


def json_identity(s) -> bool:
    """pydantic layer, monitored per case: validating the dumped JSON gives a model that dumps to the same JSON
    (through text and through dict).  Compared by dump, not by ==: a field annotated Any (extension constant
    payloads, embedded HUGRs) holds model instances before and plain dicts after the trip."""
    try:
        txt = s.model_dump_json()
        a = type(s).model_validate_json(txt)
        b = type(s).model_validate(json.loads(txt))
        return a.model_dump_json() == txt and b.model_dump_json() == txt and a == b
    except Exception:
        return False


def via_json(s):
    """The serial model as it arrives after a trip through JSON text (what load_json sees)."""
    return type(s).model_validate(json.loads(s.model_dump_json()))


# ----------------------------------------------------------------------------- generators

NAMES = ["", "a", "T", "my.ext", "prelude", "arithmetic.int.types", "é", "x y"]
EXTS = ["prelude", "a.b", "c05.test", "arithmetic.float.types"]


def gen_bound(rng):
    return rng.choice(["C", "A"])


def gen_reqs(rng):
    return rng.sample(EXTS, rng.choice([0, 0, 0, 1, 2]))


def gen_param(rng, d=2):
    r = rng.random()
    if d <= 0 or r < 0.55:
        return rng.choice([["Type", gen_bound(rng)], ["Nat", rng.choice([None, 0, 1, 7, 2 ** 40])], ["String"], ["Exts"]])
    if r < 0.8:
        return ["List", gen_param(rng, d - 1)]
    return ["Tuple", [gen_param(rng, d - 1) for _ in range(rng.choice([0, 1, 2, 3]))]]


def gen_row(rng, d, lo=0, hi=3):
    return [gen_ty(rng, d) for _ in range(rng.randint(lo, hi))]


def gen_arg(rng, d):
    r = rng.random()
    if r < 0.45:
        return ["T", gen_ty(rng, d - 1)]
    if r < 0.6:
        return ["N", rng.choice([0, 1, 5, 64, 2 ** 33])]
    if r < 0.7:
        return ["S", rng.choice(NAMES)]
    if r < 0.82 and d > 0:
        return ["Seq", [gen_arg(rng, d - 1) for _ in range(rng.choice([0, 1, 2, 3]))]]
    if r < 0.9:
        return ["Exts", gen_reqs(rng)]
    return ["V", rng.choice([0, 1, 3]), gen_param(rng, 1)]


def gen_copyable(rng, d):
    """A type term whose bound is Copyable (StaticArray elements)."""
    for _ in range(20):
        t = gen_ty(rng, d)
        try:
            if build_ty(t).type_bound() == env()["C"]:
                return t
        except Exception:
            pass
    return ["UnitSum", 2]


def gen_ty(rng, d=3, bad=0.0):
    r = rng.random()
    if d <= 0 or r < 0.30:
        return rng.choice([["Qubit"], ["USize"], ["UnitSum", rng.choice([0, 1, 2, 3, 5])], ["Var", rng.choice([0, 1, 4]), gen_bound(rng)],
                           ["RowVar", rng.choice([0, 2]), gen_bound(rng)], ["Alias", rng.choice(NAMES), gen_bound(rng)],
                           ["Int", rng.choice([0, 3, 5, 6])], ["Float"], ["String"], ["Tuple", []], ["Sum", []],
                           ["Opaque", rng.choice(NAMES), gen_bound(rng), [], rng.choice(NAMES)], ["Ext", "Ta", []]])
    d -= 1
    if r < 0.40:
        return ["Sum", [gen_row(rng, d) for _ in range(rng.choice([0, 1, 2, 2, 3]))]]
    if r < 0.47:
        return ["Tuple", gen_row(rng, d)]
    if r < 0.52:
        return ["Option", gen_row(rng, d)]
    if r < 0.57:
        return ["Either", gen_row(rng, d), gen_row(rng, d)]
    if r < 0.67:
        return ["Func", gen_row(rng, d), gen_row(rng, d), gen_reqs(rng)]
    if r < 0.77:
        return ["Opaque", rng.choice(NAMES), gen_bound(rng), [gen_arg(rng, d) for _ in range(rng.choice([0, 1, 2, 3]))],
                rng.choice(NAMES)]
    if r < 0.90:
        name = rng.choice(["Tc", "Ta", "Tp0", "Tp0", "Tp12", "Tp12", "Tnt"] + (["Tbad"] if rng.random() < bad else []))
        n = {"Tc": 1, "Ta": 0, "Tp0": 1, "Tp12": 3, "Tnt": 1, "Tbad": 1}[name]
        args = []
        for i in range(n):
            # mostly arguments of the declared kind, sometimes anything (nothing checks them)
            if rng.random() < 0.8 and not (name in ("Tp12", "Tnt") and i == 0):
                args.append(["T", gen_ty(rng, d)])
            elif rng.random() < 0.7:
                args.append(["N", rng.choice([0, 3, 9])])
            else:
                args.append(gen_arg(rng, d))
        if rng.random() < bad:
            args = args[:-1]                      # too few arguments: IndexError in type_bound for FromParams
        return ["Ext", name, args]
    if r < 0.94:
        return ["List", gen_ty(rng, d)]
    if r < 0.97:
        return ["Array", gen_ty(rng, d), rng.choice([0, 1, 4])] if rng.random() < 0.7 else \
            ["ArrayV", gen_ty(rng, d), rng.choice([0, 1]), rng.choice([None, 8])]
    return ["StaticArray", gen_copyable(rng, d)]


# ---- foreign serial documents for types (JSON dicts written the way another encoder might) ----


def shuffle_keys(rng, d):
    ks = list(d)
    rng.shuffle(ks)
    return {k: d[k] for k in ks}


def gen_jparam(rng, d=2):
    r = rng.random()
    if d <= 0 or r < 0.55:
        return rng.choice([{"tp": "Type", "b": gen_bound(rng)}, {"tp": "BoundedNat", "bound": rng.choice([None, 3])},
                           {"tp": "String"}, {"tp": "Extensions"}])
    if r < 0.8:
        return shuffle_keys(rng, {"tp": "List", "param": gen_jparam(rng, d - 1)})
    return shuffle_keys(rng, {"tp": "Tuple", "params": [gen_jparam(rng, d - 1) for _ in range(rng.choice([0, 1, 2]))]})


def gen_jarg(rng, d):
    r = rng.random()
    if r < 0.45:
        return shuffle_keys(rng, {"tya": "Type", "ty": gen_jty(rng, d - 1)})
    if r < 0.6:
        return {"tya": "BoundedNat", "n": rng.choice([0, 7, 2 ** 35])}
    if r < 0.7:
        return {"arg": rng.choice(NAMES), "tya": "String"}
    if r < 0.82 and d > 0:
        return {"tya": "Sequence", "elems": [gen_jarg(rng, d - 1) for _ in range(rng.choice([0, 1, 2]))]}
    if r < 0.9:
        return {"tya": "Extensions", "es": gen_reqs(rng)}
    return shuffle_keys(rng, {"tya": "Variable", "idx": rng.choice([0, 2]), "cached_decl": gen_jparam(rng, 1)})


def gen_jrow(rng, d):
    return [gen_jty(rng, d) for _ in range(rng.choice([0, 1, 2, 3]))]


def gen_jty(rng, d=3):
    r = rng.random()
    if d <= 0 or r < 0.3:
        return rng.choice([{"t": "Q"}, {"t": "I"}, {"t": "Sum", "s": "Unit", "size": rng.choice([0, 1, 2, 4])},
                           {"s": "Unit", "size": 2, "t": "Sum"},
                           {"t": "V", "i": rng.choice([0, 3]), "b": gen_bound(rng)},
                           {"b": gen_bound(rng), "i": 1, "t": "R"},
                           {"t": "Alias", "bound": gen_bound(rng), "name": rng.choice(NAMES)}])
    d -= 1
    if r < 0.5:
        return shuffle_keys(rng, {"t": "Sum", "s": "General", "rows": [gen_jrow(rng, d) for _ in range(rng.choice([0, 1, 2, 3]))]})
    if r < 0.7:
        g = {"t": "G", "input": gen_jrow(rng, d), "output": gen_jrow(rng, d)}
        if rng.random() < 0.5:
            g["runtime_reqs"] = gen_reqs(rng)           # else omitted: defaulted field
        return shuffle_keys(rng, g)
    return shuffle_keys(rng, {"t": "Opaque", "extension": rng.choice(NAMES), "id": rng.choice(NAMES),
                              "args": [gen_jarg(rng, d) for _ in range(rng.choice([0, 1, 2]))], "bound": gen_bound(rng)})
