#!/bin/bash
# usage: neutralretest.sh <id> ... | --alarmed : re-runs the property's quick check against a scratch worktree with the harmless
# change applied and records the result in neutral/<id>/meta.json ("retest_quick").
cd /verif
if [ "$1" = "--alarmed" ]; then
  set -- $(python3 - <<'PY'
import json,glob,os
for mp in sorted(glob.glob('/verif/neutral/*/meta.json')):
    m=json.load(open(mp)); r=m.get('retest_quick', m.get('check_result_quick',''))
    if 'VIOLATION' in r or 'OK' not in r and 'KNOWN' not in r: print(os.path.basename(os.path.dirname(mp)))
PY
)
fi
for ID in "$@"; do
  P=${ID%%-*}
  WT=/tmp/wt/nretest-$ID
  git -C /repo worktree add -q --detach $WT HEAD || continue
  if ! (git -C $WT apply /verif/neutral/$ID/patch.diff 2>/dev/null || (cd $WT && patch -p1 -F3 -s --no-backup-if-mismatch < /verif/neutral/$ID/patch.diff >/dev/null 2>&1)); then echo "$ID: patch no longer applies to /repo HEAD"; git -C /repo worktree remove --force $WT; continue; fi
  cp evidence/$P.json /tmp/wt/evidence-$P.bak 2>/dev/null
  o=$(VERIF_REPO=$WT timeout 3000 ./check $P --tier quick 2>&1 | grep -E "^(VIOLATION|OK)" | head -3 | tr '\n' ' ')
  cp /tmp/wt/evidence-$P.bak evidence/$P.json 2>/dev/null
  git -C /repo worktree remove --force $WT
  echo "$ID: $o" | cut -c1-200
  python3 - "$ID" "$o" <<'PY'
import json,sys
i,o=sys.argv[1:3]
p=f'/verif/neutral/{i}/meta.json'; m=json.load(open(p)); m['retest_quick']=o
if 'VIOLATION' not in o and 'VIOLATION' in m.get('check_result_quick',''):
    m['note']=m.get('note') or 'the first version of the check alarmed; silent after the comparison was restricted to what the property promises'
json.dump(m,open(p,'w'),indent=1)
PY
done
[ -n "$NO_REGEN" ] || ./check regen >/dev/null 2>&1
