#!/bin/bash
# usage: seedretest.sh <id> [<id> ...] | --missed
# Re-runs the quick check of the seeded change's property against a scratch worktree of /repo with the patch applied and
# records the new result in seeded/<id>/meta.json ("retest_quick"); evidence files and coq/gen are restored afterwards.
cd /verif
if [ "$1" = "--missed" ]; then
  set -- $(python3 - <<'PY'
import json,glob,os
for mp in sorted(glob.glob('/verif/seeded/*/meta.json')):
    m=json.load(open(mp)); r=m.get('retest_quick', m.get('check_result_quick',''))
    if 'VIOLATION' not in r or 'no-failing-input-found' in r: print(os.path.basename(os.path.dirname(mp)))
PY
)
fi
for ID in "$@"; do
  P=${ID%%-*}
  WT=/tmp/wt/retest-$ID
  git -C /repo worktree add -q --detach $WT HEAD || continue
  (git -C $WT apply /verif/seeded/$ID/patch.diff 2>/dev/null || (cd $WT && patch -p1 -F3 -s --no-backup-if-mismatch < /verif/seeded/$ID/patch.diff >/dev/null 2>&1)) || { echo "$ID patch does not apply"; git -C /repo worktree remove --force $WT; continue; }
  cp evidence/$P.json /tmp/wt/evidence-$P.bak 2>/dev/null
  o=$(VERIF_REPO=$WT timeout 3000 ./check $P --tier quick 2>&1 | grep -E "^(VIOLATION|OK)" | head -3 | tr '\n' ' ')
  cp /tmp/wt/evidence-$P.bak evidence/$P.json 2>/dev/null
  git -C /repo worktree remove --force $WT
  echo "$ID: $o" | cut -c1-220
  python3 - "$ID" "$o" <<'PY'
import json,sys
i,o=sys.argv[1:3]
p=f'/verif/seeded/{i}/meta.json'; m=json.load(open(p)); m['retest_quick']=o
if 'VIOLATION' in o and 'VIOLATION' not in m.get('check_result_quick',''):
    m['strengthened']='missed by the version of the check at the time; caught after strengthening (retest: %s)' % ('concrete replay' if 'no-failing-input-found' not in o else 'no-failing-input-found')
json.dump(m,open(p,'w'),indent=1)
PY
done
[ -n "$NO_REGEN" ] || ./check regen >/dev/null 2>&1
