"""Regenerates the generated parts of DESIGN.md: section 9 (as built, from design.d/*.md) and section 10
(seeded changes and which checks catch them, from seeded/*/meta.json).  Everything above the marker line is kept."""
import glob, json, os
V = os.path.dirname(os.path.dirname(os.path.abspath(__file__)))
MARK = "<!-- generated below: harness/mkdesign.py -->"


def main():
    path = os.path.join(V, "DESIGN.md")
    text = open(path).read().split(MARK)[0].rstrip() + "\n\n" + MARK + "\n\n"
    text += "## 9. As built (per property)\n\nWritten by whoever built the check, after the fact; the plan is section 4.\n\n"
    for f in sorted(glob.glob(os.path.join(V, "design.d", "C*.md"))):
        text += open(f).read().rstrip() + "\n\n"
    text += "## 10. Seeded changes and which checks catch them\n\n"
    text += ("Each change was written by a sub-agent that saw only the property text and a scratch worktree, confirmed by me "
             "(demo passes on the clean tree and fails with the change; the suite's result line is unchanged), then the quick "
             "check was run against the changed checkout.  Stored under `seeded/<id>/`.\n\n")
    tot = {"replay": 0, "nfi": 0, "missed": 0, "judged": 0, "first_missed": 0}
    for d in sorted(glob.glob(os.path.join(V, "seeded", "*"))):
        mp = os.path.join(d, "meta.json")
        if not os.path.exists(mp):
            continue
        m = json.load(open(mp))
        first = m.get("check_result_quick", "")
        res = m.get("retest_quick", first)
        if "VIOLATION" not in first:
            tot["first_missed"] += 1
        if m.get("judged"):
            tot["judged"] += 1
        elif "VIOLATION" not in res:
            tot["missed"] += 1
        elif res.count("VIOLATION") == res.count("no-failing-input-found"):
            tot["nfi"] += 1
        else:
            tot["replay"] += 1
    n = sum(tot[k] for k in ("replay", "nfi", "missed", "judged"))
    text += ("Totals over the %d stored changes (five rounds, letters a-j, 10 per property), judged by the LAST run of the current "
             "quick checks (`harness/finalretest.sh`): %d caught with a concrete failing input, %d caught as a broken proof "
             "obligation / correspondence without a failing input (`no-failing-input-found`), %d missed, %d deliberately silent "
             "(judged not to violate the property, reason in the row).  %d of them were missed by the version of the check that "
             "existed when the change was written; each miss was analysed as a class of bug and the check widened (8a).\n\n"
             % (n, tot["replay"], tot["nfi"], tot["missed"], tot["judged"], tot["first_missed"]))
    text += "| id | what the change does | needs | result of the quick check |\n|---|---|---|---|\n"
    for d in sorted(glob.glob(os.path.join(V, "seeded", "*"))):
        mp = os.path.join(d, "meta.json")
        if not os.path.exists(mp):
            continue
        m = json.load(open(mp))
        first = m.get("check_result_quick", "")
        res = m.get("retest_quick", first)
        verdict = "caught (VIOLATION with replay)" if "VIOLATION" in res and "no-failing-input-found" not in res else (
            "caught (no-failing-input-found)" if "VIOLATION" in res else "MISSED: " + res[:80])
        if m.get("strengthened"):
            verdict += "; " + m["strengthened"]
        if m.get("judged"):
            verdict = "silent, deliberately: " + m["judged"]
        cell = lambda s: str(s).replace("|", "\\|").replace("\n", " ")[:300]
        verdict = verdict.replace("|", "\\|")
        text += f"| {os.path.basename(d)} | {cell(m.get('summary',''))} | {cell(m.get('needs_to_manifest',''))} | {verdict} |\n"
    text += "\n## 10a. Harmless changes (the property still holds) and what the checks said\n\n"
    text += ("Written by sub-agents that saw only the property text and were asked for realistic refactorings / changes of "
             "behaviour the property does not constrain; confirmed (suite line unchanged), then the property's quick check was run "
             "against the changed checkout.  Expected: silence.  Stored under `neutral/<id>/`.\n\n")
    nn = na = nf = 0
    for d in sorted(glob.glob(os.path.join(V, "neutral", "*"))):
        mp = os.path.join(d, "meta.json")
        if not os.path.exists(mp):
            continue
        m = json.load(open(mp))
        nn += 1
        if "VIOLATION" in m.get("retest_quick", m.get("check_result_quick", "")):
            na += 1
        if "VIOLATION" in m.get("check_result_quick", ""):
            nf += 1
    text += ("Totals over the %d stored harmless changes (two rounds, n1-n8 per property): %d alarm with the current checks; %d "
             "alarmed with the version of the check that existed when they were written (causes and repairs: 8a and the "
             "\"False alarms corrected\" sections of design.d).\n\n" % (nn, na, nf))
    text += "| id | what the change does | observable? | result of the quick check |\n|---|---|---|---|\n"
    for d in sorted(glob.glob(os.path.join(V, "neutral", "*"))):
        mp = os.path.join(d, "meta.json")
        if not os.path.exists(mp):
            continue
        m = json.load(open(mp))
        res = m.get("retest_quick", m.get("check_result_quick", ""))
        verdict = "silent (OK)" if "VIOLATION" not in res and "OK" in res else "ALARM: " + res[:120]
        if m.get("note"):
            verdict += "; " + m["note"]
        cell = lambda s: str(s).replace("|", "\\|").replace("\n", " ")[:260]
        text += f"| {os.path.basename(d)} | {cell(m.get('summary',''))} | {cell(m.get('observable',''))} | {cell(verdict)} |\n"
    text += "\n## 11. Trusted base as measured by the last committed runs\n\n"
    text += ("Kernel: Coq 8.16.1 (`coqc`, full `.vo` build through `coq_makefile`/`make`), evaluation by `vm_compute` only "
             "(no `native_compute`); the thorough tier re-checks each property's closure with `coqchk -o`.  No `Axiom`, "
             "`Parameter`, `Conjecture`, `Admitted`, `admit`, no unset guard/positivity/universe checks anywhere under `coq/` "
             "(gated textually on every run by `fw.forbidden_gate`), stdlib only; external libraries appear as `Section` "
             "hypotheses that stay in the theorem statements.  No extraction is used.  Translators that regenerate Coq constants from files on every run "
             "(fail closed): `harness/translators/schema.py` → `coq/gen/Schemas.v` (C17), `harness/props/c10.py` → `coq/gen/StdExt.v` (C10), "
             "`harness/props/c07.py` → `coq/gen/StdBounds.v` (C07, C14), `harness/props/c12.py` → `coq/gen/ModelAttrs.v` (C12).  Everything else "
             "in hugr-py that the properties touch is modelled by hand and tied by the sampled behavioural correspondence.\n\n")
    text += "| id | theorems | `Print Assumptions` (distinct answers) | property-specific trust |\n|---|---|---|---|\n"
    for f in sorted(glob.glob(os.path.join(V, "evidence", "C*.json"))):
        try:
            e = json.load(open(f))
        except Exception:
            continue
        cov = e.get("coverage", {})
        tb = cov.get("trusted_base", [])
        pa = [t for t in tb if t.startswith("Print Assumptions")]
        answers = set()
        if pa:
            try:
                answers = set(json.loads(pa[0].split(": ", 1)[1]).values())
            except Exception:
                answers = {pa[0][:80]}
        extra = [t for t in tb[4:] if not t.startswith("coqchk")]
        cell = lambda s_: str(s_).replace("|", "\\|").replace("\n", " ")
        text += "| %s | %d | %s | %s |\n" % (e.get("property_id"), len(cov.get("theorems", [])),
                                            cell("; ".join(sorted(answers)) or "?"), cell(" / ".join(extra))[:700])
    open(path, "w").write(text)


if __name__ == "__main__":
    main()
