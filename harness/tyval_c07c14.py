"""Types (and, for C14, values) as JSON-able descriptions: builder of the real hugr-py objects, random
generator, and printer of Gallina literals (coq/model/Types.v) from the *constructed Python objects*
(so sugar such as Tuple/Option/Either is whatever rows the implementation built).

ty   ::= ["sum", [[ty..]..]] | ["tuple", [ty..]] | ["option", [ty..]] | ["either", [ty..], [ty..]]
       | ["unit", n] | ["bool"] | ["var", i, b] | ["rowvar", i, b] | ["usize"] | ["qubit"] | ["alias", nm, b]
       | ["func", [ty..], [ty..], [ext..]] | ["poly", [param..], [ty..], [ty..]]
       | ["opaque", ext, id, [arg..], b] | ["ext", def, [arg..]]
       | ["array", ty, n | ["v", i, param]] | ["list", ty] | ["sarray", ty] | ["int", w] | ["float"] | ["string"]
arg  ::= ["t", ty] | ["n", k] | ["s", str] | ["seq", [arg..]] | ["exts", [ext..]] | ["v", i, param]
param::= ["type", b] | ["nat", ub|None] | ["string"] | ["list", param] | ["tuple", [param..]] | ["exts"]
def  ::= {"ext": str, "name": str, "params": [param..], "bound": ["E", b] | ["P", [i..]]}
b    ::= "C" | "A"
"""
from __future__ import annotations

import fw
from fw import gN, gnat, glist, gopt, gapp

INTERN = fw.Interner()


def gname(s) -> str:
    return gN(INTERN(s))


def gbound(b) -> str:
    b = getattr(b, "value", b)
    return {"C": "Copyable", "A": "Any"}[b]


# ----------------------------------------------------------------------------- build real objects


def _bound(b):
    from hugr import tys
    return {"C": tys.TypeBound.Copyable, "A": tys.TypeBound.Any}[b]


def build_param(p):
    from hugr import tys
    k = p[0]
    if k == "type":
        return tys.TypeTypeParam(_bound(p[1]))
    if k == "nat":
        return tys.BoundedNatParam(p[1])
    if k == "string":
        return tys.StringParam()
    if k == "list":
        return tys.ListParam(build_param(p[1]))
    if k == "tuple":
        return tys.TupleParam([build_param(x) for x in p[1]])
    if k == "exts":
        return tys.ExtensionsParam()
    raise ValueError(p)


def build_arg(a):
    from hugr import tys
    k = a[0]
    if k == "t":
        return tys.TypeTypeArg(build_ty(a[1]))
    if k == "n":
        return tys.BoundedNatArg(a[1])
    if k == "s":
        return tys.StringArg(a[1])
    if k == "seq":
        return tys.SequenceArg([build_arg(x) for x in a[1]])
    if k == "exts":
        return tys.ExtensionsArg(list(a[1]))
    if k == "v":
        return tys.VariableArg(a[1], build_param(a[2]))
    raise ValueError(a)


_DEFS: dict = {}


def build_def(d):
    """A TypeDef registered in a (cached) Extension, through the public ext API."""
    import json
    from hugr import ext
    import semver
    key = json.dumps(d, sort_keys=True)
    if key not in _DEFS:
        e = ext.Extension(d["ext"], semver.Version(0, 1, 0))
        b = d["bound"]
        bound = ext.ExplicitBound(_bound(b[1])) if b[0] == "E" else ext.FromParamsBound(list(b[1]))
        _DEFS[key] = e.add_type_def(ext.TypeDef(name=d["name"], description="generated",
                                                params=[build_param(p) for p in d["params"]], bound=bound))
    return _DEFS[key]


def build_ty(t):
    from hugr import tys
    k = t[0]
    row = lambda r: [build_ty(x) for x in r]
    if k == "sum":
        return tys.Sum([row(r) for r in t[1]])
    if k == "tuple":
        return tys.Tuple(*row(t[1]))
    if k == "option":
        return tys.Option(*row(t[1]))
    if k == "either":
        return tys.Either(row(t[1]), row(t[2]))
    if k == "unit":
        return tys.UnitSum(t[1])
    if k == "bool":
        return tys.Bool
    if k == "var":
        return tys.Variable(t[1], _bound(t[2]))
    if k == "rowvar":
        return tys.RowVariable(t[1], _bound(t[2]))
    if k == "usize":
        return tys.USize()
    if k == "qubit":
        return tys.Qubit
    if k == "alias":
        return tys.Alias(t[1], _bound(t[2]))
    if k == "func":
        return tys.FunctionType(row(t[1]), row(t[2]), list(t[3]))
    if k == "poly":
        return tys.PolyFuncType([build_param(p) for p in t[1]], tys.FunctionType(row(t[2]), row(t[3])))
    if k == "opaque":
        return tys.Opaque(id=t[2], bound=_bound(t[4]), args=[build_arg(a) for a in t[3]], extension=t[1])
    if k == "ext":
        return build_def(t[1]).instantiate([build_arg(a) for a in t[2]])
    if k == "array":
        from hugr.std.collections.array import Array
        return Array(build_ty(t[1]), t[2] if isinstance(t[2], int) else build_arg(t[2]))
    if k == "list":
        from hugr.std.collections.list import List
        return List(build_ty(t[1]))
    if k == "sarray":
        from hugr.std.collections.static_array import StaticArray
        return StaticArray(build_ty(t[1]))
    if k == "int":
        from hugr.std.int import int_t
        return int_t(t[1])
    if k == "float":
        from hugr.std.float import FLOAT_T
        return FLOAT_T
    if k == "string":
        from hugr.std.prelude import STRING_T
        return STRING_T
    raise ValueError(t)


# ----------------------------------------------------------------------------- Gallina literals from objects


def gparam(p) -> str:
    from hugr import tys
    if isinstance(p, tys.TypeTypeParam):
        return gapp("PType", gbound(p.bound))
    if isinstance(p, tys.BoundedNatParam):
        return gapp("PNat", gopt(None if p.upper_bound is None else gN(p.upper_bound)))
    if isinstance(p, tys.StringParam):
        return "PString"
    if isinstance(p, tys.ListParam):
        return gapp("PList", gparam(p.param))
    if isinstance(p, tys.TupleParam):
        return gapp("PTuple", glist(gparam(x) for x in p.params))
    if isinstance(p, tys.ExtensionsParam):
        return "PExts"
    raise TypeError(f"unknown type parameter class {type(p).__name__}")


def garg(a) -> str:
    from hugr import tys
    if isinstance(a, tys.TypeTypeArg):
        return gapp("AType", gty(a.ty))
    if isinstance(a, tys.BoundedNatArg):
        return gapp("ANat", gN(a.n))
    if isinstance(a, tys.StringArg):
        return gapp("AString", gname(a.value))
    if isinstance(a, tys.SequenceArg):
        return gapp("ASeq", glist(garg(x) for x in a.elems))
    if isinstance(a, tys.ExtensionsArg):
        return gapp("AExts", glist(gname(x) for x in a.extensions))
    if isinstance(a, tys.VariableArg):
        return gapp("AVar", gnat(a.idx), gparam(a.param))
    raise TypeError(f"unknown type argument class {type(a).__name__}")


def gdefbound(b) -> str:
    from hugr import ext
    if isinstance(b, ext.ExplicitBound):
        return gapp("Explicit", gbound(b.bound))
    if isinstance(b, ext.FromParamsBound):
        return gapp("FromParams", glist(gnat(i) for i in b.indices))
    raise TypeError(f"unknown bound class {type(b).__name__}")


def gdef(d) -> str:
    e = d._extension.name if d._extension is not None else "<no extension>"
    return ("{| td_ext := %s; td_name := %s; td_descr := 0%%N; td_params := %s; td_bound := %s |}"
            % (gname(e), gname(d.name), glist(gparam(p) for p in d.params), gdefbound(d.bound)))


def ext_class(t) -> str:
    """Which type_bound a definition-backed type runs: the generic one, or a std subclass's override
    (which reads the element type at a fixed argument position).  Unknown overrides fail closed."""
    from hugr import tys
    from hugr.std.collections.array import Array
    from hugr.std.collections.list import List
    from hugr.std.collections.static_array import StaticArray
    if type(t).type_bound is tys.ExtType.type_bound:
        return "Generic"
    for cls, i in ((Array, 1), (List, 0), (StaticArray, 0)):
        if type(t) is cls:
            return gapp("ElemAt", gnat(i))
    raise TypeError(f"type_bound override of unknown class {type(t).__name__}")


def gty(t) -> str:
    from hugr import tys
    row = lambda r: glist(gty(x) for x in r)
    if isinstance(t, tys.UnitSum):
        if t.variant_rows != [[]] * t.size:
            raise TypeError("UnitSum with non-empty rows")
        return gapp("TUnitSum", gnat(t.size))
    if isinstance(t, tys.Sum):
        return gapp("TSum", glist(row(r) for r in t.variant_rows))
    if isinstance(t, tys.Variable):
        return gapp("TVar", gnat(t.idx), gbound(t.bound))
    if isinstance(t, tys.RowVariable):
        return gapp("TRowVar", gnat(t.idx), gbound(t.bound))
    if isinstance(t, tys.USize):
        return "TUSize"
    if isinstance(t, tys._QubitDef):
        return "TQubit"
    if isinstance(t, tys.Alias):
        return gapp("TAlias", gname(t.name), gbound(t.bound))
    if isinstance(t, tys.FunctionType):
        return gapp("TFunc", row(t.input), row(t.output), glist(gname(x) for x in sorted(t.runtime_reqs)))
    if isinstance(t, tys.PolyFuncType):
        return gapp("TPoly", glist(gparam(p) for p in t.params), row(t.body.input), row(t.body.output),
                    glist(gname(x) for x in sorted(t.body.runtime_reqs)))
    if isinstance(t, tys.Opaque):
        return gapp("TOpaque", gname(t.extension), gname(t.id), glist(garg(a) for a in t.args), gbound(t.bound))
    if isinstance(t, tys.ExtType):
        return gapp("TExt", gdef(t.type_def), glist(garg(a) for a in t.args), ext_class(t))
    raise TypeError(f"unknown type class {type(t).__name__}")


# ----------------------------------------------------------------------------- random descriptions

EXTS = ["e.one", "e.two", "my.ext"]
NAMES = ["T", "Pair", "box", "Ref"]


def rand_bound(rng, copy_only=False):
    return "C" if copy_only or rng.random() < 0.55 else "A"


def rand_param(rng, depth=2):
    r = rng.random()
    if r < 0.45:
        return ["type", rand_bound(rng)]
    if r < 0.65:
        return ["nat", rng.choice([None, None, 7, 100])]
    if r < 0.75:
        return ["string"]
    if r < 0.8:
        return ["exts"]
    if depth <= 0:
        return ["type", "A"]
    if r < 0.9:
        return ["list", rand_param(rng, depth - 1)]
    return ["tuple", [rand_param(rng, depth - 1) for _ in range(rng.randint(0, 2))]]


def rand_nontype_arg(rng, depth):
    r = rng.random()
    if r < 0.35:
        return ["n", rng.choice([0, 1, 3, 7, 64])]
    if r < 0.55:
        return ["s", rng.choice(["x", "", "label"])]
    if r < 0.65:
        return ["exts", rng.sample(EXTS, rng.randint(0, 2))]
    if r < 0.8:
        return ["v", rng.randint(0, 3), rand_param(rng, 1)]
    # a sequence may hide types (they do not contribute to the bound)
    return ["seq", [rand_arg(rng, depth - 1, False) for _ in range(rng.randint(0, 2))]]


def rand_arg(rng, depth, copy_only):
    if rng.random() < 0.6:
        return ["t", rand_ty(rng, depth, copy_only)]
    return rand_nontype_arg(rng, depth)


def rand_row(rng, depth, copy_only, hi=3):
    return [rand_ty(rng, depth - 1, copy_only) for _ in range(rng.choice([0, 1, 1, 2, 2, hi]))]


def rand_def_and_args(rng, depth, copy_only):
    """A generated definition with explicit or from-parameters bound and an argument list; the index list is
    arbitrary but in range (repetitions, any order, indices of non-type arguments included)."""
    n = rng.choice([0, 1, 1, 2, 3, 4])
    explicit = n == 0 or rng.random() < 0.35
    if explicit:
        b = ["E", rand_bound(rng, copy_only)]
        args = [rand_arg(rng, depth - 1, False) for _ in range(n)]
    else:
        idx = [rng.randrange(n) for _ in range(rng.choice([0, 1, 1, 2, 2, 3, 5]))]
        b = ["P", idx]
        args = [rand_arg(rng, depth - 1, copy_only and i in idx) for i in range(n)]
    params = []
    for a in args:
        params.append({"t": ["type", "A"], "n": ["nat", None], "s": ["string"], "exts": ["exts"],
                       "seq": ["list", ["type", "A"]], "v": a[2] if a[0] == "v" else None}[a[0]])
    d = {"ext": rng.choice(EXTS), "name": rng.choice(NAMES), "params": params, "bound": b}
    return d, args


def rand_ty(rng, depth, copy_only=False):
    """Random type description of nesting depth <= depth; copy_only restricts to types every value of which
    can be copied *by construction of the description* (used under static arrays)."""
    r = rng.random()
    if depth <= 0 or r < 0.22:
        atoms = [["usize"], ["bool"], ["unit", rng.choice([0, 1, 2, 3, 5])], ["var", rng.randint(0, 3), "C"],
                 ["alias", rng.choice(["al", "Al2"]), "C"], ["int", rng.randint(0, 6)], ["float"], ["string"],
                 ["func", [], [], []], ["opaque", rng.choice(EXTS), rng.choice(NAMES), [], "C"]]
        if not copy_only:
            atoms += [["qubit"], ["qubit"], ["var", rng.randint(0, 3), "A"], ["rowvar", rng.randint(0, 2), "A"],
                      ["alias", "lin", "A"], ["opaque", rng.choice(EXTS), rng.choice(NAMES), [], "A"],
                      ["rowvar", rng.randint(0, 2), "C"]]
        return rng.choice(atoms)
    r = rng.random()
    if r < 0.14:
        return ["sum", [rand_row(rng, depth, copy_only) for _ in range(rng.choice([0, 1, 2, 2, 3]))]]
    if r < 0.26:
        return ["tuple", rand_row(rng, depth, copy_only)]
    if r < 0.34:
        return ["option", rand_row(rng, depth, copy_only)]
    if r < 0.42:
        return ["either", rand_row(rng, depth, copy_only), rand_row(rng, depth, copy_only)]
    if r < 0.5:
        # function types are copyable whatever they mention
        return ["func", rand_row(rng, depth, False), rand_row(rng, depth, False), rng.sample(EXTS, rng.randint(0, 1))]
    if r < 0.58:
        return ["opaque", rng.choice(EXTS), rng.choice(NAMES),
                [rand_arg(rng, depth - 1, False) for _ in range(rng.randint(0, 2))], rand_bound(rng, copy_only)]
    if r < 0.78:
        d, args = rand_def_and_args(rng, depth, copy_only)
        return ["ext", d, args]
    if r < 0.86:
        size = rng.choice([0, 1, 2, 5]) if rng.random() < 0.8 else ["v", rng.randint(0, 2), ["nat", None]]
        return ["array", rand_ty(rng, depth - 1, copy_only), size]
    if r < 0.93:
        return ["list", rand_ty(rng, depth - 1, copy_only)]
    return ["sarray", rand_ty(rng, depth - 1, True)]


# ----------------------------------------------------------------------------- traversal helpers (shrinking)

_ROW_POS = {"sum": None, "tuple": [1], "option": [1], "either": [1, 2], "func": [1, 2], "poly": [2, 3]}


def child_types(t):
    """Immediate sub-descriptions that are types."""
    k = t[0]
    out = []
    if k == "sum":
        for r in t[1]:
            out += r
    elif k in _ROW_POS:
        for p in _ROW_POS[k]:
            out += t[p]
    elif k in ("array", "list", "sarray"):
        out.append(t[1])
    elif k == "opaque":
        out += arg_types(t[3])
    elif k == "ext":
        out += arg_types(t[2])
    return out


def arg_types(args):
    out = []
    for a in args:
        if a[0] == "t":
            out.append(a[1])
        elif a[0] == "seq":
            out += arg_types(a[1])
    return out


def depth_of(t) -> int:
    cs = child_types(t)
    return 1 + max(map(depth_of, cs)) if cs else 0


def size_of(t) -> int:
    return 1 + sum(map(size_of, child_types(t)))


def kinds_of(t, acc=None):
    acc = {} if acc is None else acc
    acc[t[0]] = acc.get(t[0], 0) + 1
    for c in child_types(t):
        kinds_of(c, acc)
    return acc


def shrink_ty(t):
    """Smaller variants: a child in place of the whole, a child replaced by an atom, rows/args shortened."""
    for c in child_types(t):
        yield c
    k = t[0]

    def rows_variants(rows):
        for i in range(len(rows)):
            yield rows[:i] + rows[i + 1:]
            for j in range(len(rows[i])):
                yield rows[:i] + [rows[i][:j] + rows[i][j + 1:]] + rows[i + 1:]
                for s in shrink_ty(rows[i][j]):
                    yield rows[:i] + [rows[i][:j] + [s] + rows[i][j + 1:]] + rows[i + 1:]
    if k == "sum":
        for rs in rows_variants(t[1]):
            yield ["sum", rs]
    elif k in _ROW_POS:
        for p in _ROW_POS[k]:
            for rs in rows_variants([t[p]]):
                if len(rs) == 1:
                    yield t[:p] + [rs[0]] + t[p + 1:]
    elif k in ("array", "list"):
        for s in shrink_ty(t[1]):
            yield [k, s] + t[2:]
    elif k == "ext":
        d, args = t[1], t[2]
        for i, a in enumerate(args):
            if a[0] == "t":
                for s in shrink_ty(a[1]):
                    yield ["ext", d, args[:i] + [["t", s]] + args[i + 1:]]
                if a[1] not in (["qubit"], ["usize"]):
                    yield ["ext", d, args[:i] + [["t", ["qubit"]]] + args[i + 1:]]
                    yield ["ext", d, args[:i] + [["t", ["usize"]]] + args[i + 1:]]
        if d["bound"][0] == "P" and len(d["bound"][1]) > 1:
            for i in range(len(d["bound"][1])):
                yield ["ext", {**d, "bound": ["P", d["bound"][1][:i] + d["bound"][1][i + 1:]]}, args]
