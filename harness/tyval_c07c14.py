"""Types (and, for C14, values) as JSON-able descriptions: builder of the real hugr-py objects, random
generator, and printer of Gallina literals (coq/model/Types.v) from the *constructed Python objects*
(so sugar such as Tuple/Option/Either is whatever rows the implementation built).

ty   ::= ["sum", [[ty..]..]] | ["tuple", [ty..]] | ["option", [ty..]] | ["either", [ty..], [ty..]]
       | ["unit", n] | ["bool"] | ["var", i, b] | ["rowvar", i, b] | ["usize"] | ["qubit"] | ["alias", nm, b]
       | ["func", [ty..], [ty..], [ext..]] | ["poly", [param..], [ty..], [ty..]]
       | ["opaque", ext, id, [arg..], b] | ["ext", def, [arg..]]
       | ["array", ty, n | ["v", i, param]] | ["list", ty] | ["sarray", ty] | ["int", w] | ["float"] | ["string"]
arg  ::= ["t", ty] | ["n", k] | ["s", str] | ["seq", [arg..]] | ["exts", [ext..]] | ["v", i, param]
param::= ["type", b] | ["nat", ub|None] | ["string"] | ["list", param] | ["tuple", [param..]] | ["exts"]
def  ::= {"ext": str, "name": str, "params": [param..], "bound": ["E", b] | ["P", [i..]]}
b    ::= "C" | "A"
"""
from __future__ import annotations

import fw
from fw import gN, gnat, glist, gopt, gapp

INTERN = fw.Interner()


def gname(s) -> str:
    return gN(INTERN(s))


def gbound(b) -> str:
    b = getattr(b, "value", b)
    return {"C": "Copyable", "A": "Any"}[b]


# ----------------------------------------------------------------------------- build real objects


def _bound(b):
    from hugr import tys
    return {"C": tys.TypeBound.Copyable, "A": tys.TypeBound.Any}[b]


def build_param(p):
    from hugr import tys
    k = p[0]
    if k == "type":
        return tys.TypeTypeParam(_bound(p[1]))
    if k == "nat":
        return tys.BoundedNatParam(p[1])
    if k == "string":
        return tys.StringParam()
    if k == "list":
        return tys.ListParam(build_param(p[1]))
    if k == "tuple":
        return tys.TupleParam([build_param(x) for x in p[1]])
    if k == "exts":
        return tys.ExtensionsParam()
    raise ValueError(p)


def build_arg(a):
    from hugr import tys
    k = a[0]
    if k == "t":
        return tys.TypeTypeArg(build_ty(a[1]))
    if k == "n":
        return tys.BoundedNatArg(a[1])
    if k == "s":
        return tys.StringArg(a[1])
    if k == "seq":
        return tys.SequenceArg([build_arg(x) for x in a[1]])
    if k == "exts":
        return tys.ExtensionsArg(list(a[1]))
    if k == "v":
        return tys.VariableArg(a[1], build_param(a[2]))
    raise ValueError(a)


_DEFS: dict = {}


def build_def(d):
    """A TypeDef registered in a (cached) Extension, through the public ext API."""
    import json
    from hugr import ext
    import semver
    key = json.dumps(d, sort_keys=True)
    if key not in _DEFS:
        e = ext.Extension(d["ext"], semver.Version(0, 1, 0))
        b = d["bound"]
        bound = ext.ExplicitBound(_bound(b[1])) if b[0] == "E" else ext.FromParamsBound(list(b[1]))
        _DEFS[key] = e.add_type_def(ext.TypeDef(name=d["name"], description="generated",
                                                params=[build_param(p) for p in d["params"]], bound=bound))
    return _DEFS[key]


def build_ty(t):
    from hugr import tys
    k = t[0]
    row = lambda r: [build_ty(x) for x in r]
    if k == "sum":
        return tys.Sum([row(r) for r in t[1]])
    if k == "tuple":
        return tys.Tuple(*row(t[1]))
    if k == "option":
        return tys.Option(*row(t[1]))
    if k == "either":
        return tys.Either(row(t[1]), row(t[2]))
    if k == "unit":
        return tys.UnitSum(t[1])
    if k == "bool":
        return tys.Bool
    if k == "var":
        return tys.Variable(t[1], _bound(t[2]))
    if k == "rowvar":
        return tys.RowVariable(t[1], _bound(t[2]))
    if k == "usize":
        return tys.USize()
    if k == "qubit":
        return tys.Qubit
    if k == "alias":
        return tys.Alias(t[1], _bound(t[2]))
    if k == "func":
        return tys.FunctionType(row(t[1]), row(t[2]), list(t[3]))
    if k == "poly":
        return tys.PolyFuncType([build_param(p) for p in t[1]], tys.FunctionType(row(t[2]), row(t[3])))
    if k == "opaque":
        return tys.Opaque(id=t[2], bound=_bound(t[4]), args=[build_arg(a) for a in t[3]], extension=t[1])
    if k == "ext":
        return build_def(t[1]).instantiate([build_arg(a) for a in t[2]])
    if k == "array":
        from hugr.std.collections.array import Array
        return Array(build_ty(t[1]), t[2] if isinstance(t[2], int) else build_arg(t[2]))
    if k == "list":
        from hugr.std.collections.list import List
        return List(build_ty(t[1]))
    if k == "sarray":
        from hugr.std.collections.static_array import StaticArray
        return StaticArray(build_ty(t[1]))
    if k == "int":
        from hugr.std.int import int_t
        return int_t(t[1])
    if k == "float":
        from hugr.std.float import FLOAT_T
        return FLOAT_T
    if k == "string":
        from hugr.std.prelude import STRING_T
        return STRING_T
    raise ValueError(t)


# ----------------------------------------------------------------------------- Gallina literals from objects


def gparam(p) -> str:
    from hugr import tys
    if isinstance(p, tys.TypeTypeParam):
        return gapp("PType", gbound(p.bound))
    if isinstance(p, tys.BoundedNatParam):
        return gapp("PNat", gopt(None if p.upper_bound is None else gN(p.upper_bound)))
    if isinstance(p, tys.StringParam):
        return "PString"
    if isinstance(p, tys.ListParam):
        return gapp("PList", gparam(p.param))
    if isinstance(p, tys.TupleParam):
        return gapp("PTuple", glist(gparam(x) for x in p.params))
    if isinstance(p, tys.ExtensionsParam):
        return "PExts"
    raise TypeError(f"unknown type parameter class {type(p).__name__}")


def garg(a) -> str:
    from hugr import tys
    if isinstance(a, tys.TypeTypeArg):
        return gapp("AType", gty(a.ty))
    if isinstance(a, tys.BoundedNatArg):
        return gapp("ANat", gN(a.n))
    if isinstance(a, tys.StringArg):
        return gapp("AString", gname(a.value))
    if isinstance(a, tys.SequenceArg):
        return gapp("ASeq", glist(garg(x) for x in a.elems))
    if isinstance(a, tys.ExtensionsArg):
        return gapp("AExts", glist(gname(x) for x in a.extensions))
    if isinstance(a, tys.VariableArg):
        return gapp("AVar", gnat(a.idx), gparam(a.param))
    raise TypeError(f"unknown type argument class {type(a).__name__}")


def gdefbound(b) -> str:
    from hugr import ext
    if isinstance(b, ext.ExplicitBound):
        return gapp("Explicit", gbound(b.bound))
    if isinstance(b, ext.FromParamsBound):
        return gapp("FromParams", glist(gnat(i) for i in b.indices))
    raise TypeError(f"unknown bound class {type(b).__name__}")


def gdef(d) -> str:
    e = d._extension.name if d._extension is not None else "<no extension>"
    return ("{| td_ext := %s; td_name := %s; td_descr := 0%%N; td_params := %s; td_bound := %s |}"
            % (gname(e), gname(d.name), glist(gparam(p) for p in d.params), gdefbound(d.bound)))


def ext_class(t) -> str:
    """Which type_bound a definition-backed type runs: the generic one, or a std subclass's override
    (which reads the element type at a fixed argument position).  Unknown overrides fail closed."""
    from hugr import tys
    from hugr.std.collections.array import Array
    from hugr.std.collections.list import List
    from hugr.std.collections.static_array import StaticArray
    if type(t).type_bound is tys.ExtType.type_bound:
        return "Generic"
    for cls, i in ((Array, 1), (List, 0), (StaticArray, 0)):
        if type(t) is cls:
            return gapp("ElemAt", gnat(i))
    raise TypeError(f"type_bound override of unknown class {type(t).__name__}")


def gty(t) -> str:
    from hugr import tys
    row = lambda r: glist(gty(x) for x in r)
    if isinstance(t, tys.UnitSum):
        if t.variant_rows != [[]] * t.size:
            raise TypeError("UnitSum with non-empty rows")
        return gapp("TUnitSum", gnat(t.size))
    if isinstance(t, tys.Sum):
        return gapp("TSum", glist(row(r) for r in t.variant_rows))
    if isinstance(t, tys.Variable):
        return gapp("TVar", gnat(t.idx), gbound(t.bound))
    if isinstance(t, tys.RowVariable):
        return gapp("TRowVar", gnat(t.idx), gbound(t.bound))
    if isinstance(t, tys.USize):
        return "TUSize"
    if isinstance(t, tys._QubitDef):
        return "TQubit"
    if isinstance(t, tys.Alias):
        return gapp("TAlias", gname(t.name), gbound(t.bound))
    if isinstance(t, tys.FunctionType):
        return gapp("TFunc", row(t.input), row(t.output), glist(gname(x) for x in sorted(t.runtime_reqs)))
    if isinstance(t, tys.PolyFuncType):
        return gapp("TPoly", glist(gparam(p) for p in t.params), row(t.body.input), row(t.body.output),
                    glist(gname(x) for x in sorted(t.body.runtime_reqs)))
    if isinstance(t, tys.Opaque):
        return gapp("TOpaque", gname(t.extension), gname(t.id), glist(garg(a) for a in t.args), gbound(t.bound))
    if isinstance(t, tys.ExtType):
        return gapp("TExt", gdef(t.type_def), glist(garg(a) for a in t.args), ext_class(t))
    raise TypeError(f"unknown type class {type(t).__name__}")


# ----------------------------------------------------------------------------- random descriptions

EXTS = ["e.one", "e.two", "my.ext"]
NAMES = ["T", "Pair", "box", "Ref"]


def rand_bound(rng, copy_only=False):
    return "C" if copy_only or rng.random() < 0.55 else "A"


def rand_param(rng, depth=2):
    r = rng.random()
    if r < 0.45:
        return ["type", rand_bound(rng)]
    if r < 0.65:
        return ["nat", rng.choice([None, None, 7, 100])]
    if r < 0.75:
        return ["string"]
    if r < 0.8:
        return ["exts"]
    if depth <= 0:
        return ["type", "A"]
    if r < 0.9:
        return ["list", rand_param(rng, depth - 1)]
    return ["tuple", [rand_param(rng, depth - 1) for _ in range(rng.randint(0, 2))]]


def rand_nontype_arg(rng, depth):
    r = rng.random()
    if r < 0.35:
        return ["n", rng.choice([0, 1, 3, 7, 64])]
    if r < 0.55:
        return ["s", rng.choice(["x", "", "label"])]
    if r < 0.65:
        return ["exts", rng.sample(EXTS, rng.randint(0, 2))]
    if r < 0.8:
        return ["v", rng.randint(0, 3), rand_param(rng, 1)]
    # a sequence may hide types (they do not contribute to the bound)
    return ["seq", [rand_arg(rng, depth - 1, False) for _ in range(rng.randint(0, 2))]]


def rand_arg(rng, depth, copy_only):
    if rng.random() < 0.6:
        return ["t", rand_ty(rng, depth, copy_only)]
    return rand_nontype_arg(rng, depth)


def rand_row(rng, depth, copy_only, hi=3):
    return [rand_ty(rng, depth - 1, copy_only) for _ in range(rng.choice([0, 1, 1, 2, 2, hi]))]


def rand_def_and_args(rng, depth, copy_only):
    """A generated definition with explicit or from-parameters bound and an argument list; the index list is
    arbitrary but in range (repetitions, any order, indices of non-type arguments included)."""
    n = rng.choice([0, 1, 1, 2, 3, 4])
    explicit = n == 0 or rng.random() < 0.35
    if explicit:
        b = ["E", rand_bound(rng, copy_only)]
        args = [rand_arg(rng, depth - 1, False) for _ in range(n)]
    else:
        idx = [rng.randrange(n) for _ in range(rng.choice([0, 1, 1, 2, 2, 3, 5]))]
        b = ["P", idx]
        args = [rand_arg(rng, depth - 1, copy_only and i in idx) for i in range(n)]
    params = []
    for a in args:
        params.append({"t": ["type", "A"], "n": ["nat", None], "s": ["string"], "exts": ["exts"],
                       "seq": ["list", ["type", "A"]], "v": a[2] if a[0] == "v" else None}[a[0]])
    d = {"ext": rng.choice(EXTS), "name": rng.choice(NAMES), "params": params, "bound": b}
    return d, args


def rand_ty(rng, depth, copy_only=False):
    """Random type description of nesting depth <= depth; copy_only restricts to types every value of which
    can be copied *by construction of the description* (used under static arrays)."""
    r = rng.random()
    if depth <= 0 or r < 0.22:
        atoms = [["usize"], ["bool"], ["unit", rng.choice([0, 1, 2, 3, 5])], ["var", rng.randint(0, 3), "C"],
                 ["alias", rng.choice(["al", "Al2"]), "C"], ["int", rng.randint(0, 6)], ["float"], ["string"],
                 ["func", [], [], []], ["opaque", rng.choice(EXTS), rng.choice(NAMES), [], "C"]]
        if not copy_only:
            atoms += [["qubit"], ["qubit"], ["var", rng.randint(0, 3), "A"], ["rowvar", rng.randint(0, 2), "A"],
                      ["alias", "lin", "A"], ["opaque", rng.choice(EXTS), rng.choice(NAMES), [], "A"],
                      ["rowvar", rng.randint(0, 2), "C"]]
        return rng.choice(atoms)
    r = rng.random()
    if r < 0.14:
        return ["sum", [rand_row(rng, depth, copy_only) for _ in range(rng.choice([0, 1, 2, 2, 3]))]]
    if r < 0.26:
        return ["tuple", rand_row(rng, depth, copy_only)]
    if r < 0.34:
        return ["option", rand_row(rng, depth, copy_only)]
    if r < 0.42:
        return ["either", rand_row(rng, depth, copy_only), rand_row(rng, depth, copy_only)]
    if r < 0.5:
        # function types are copyable whatever they mention
        return ["func", rand_row(rng, depth, False), rand_row(rng, depth, False), rng.sample(EXTS, rng.randint(0, 1))]
    if r < 0.58:
        return ["opaque", rng.choice(EXTS), rng.choice(NAMES),
                [rand_arg(rng, depth - 1, False) for _ in range(rng.randint(0, 2))], rand_bound(rng, copy_only)]
    if r < 0.78:
        d, args = rand_def_and_args(rng, depth, copy_only)
        return ["ext", d, args]
    if r < 0.86:
        size = rng.choice([0, 1, 2, 5]) if rng.random() < 0.8 else ["v", rng.randint(0, 2), ["nat", None]]
        return ["array", rand_ty(rng, depth - 1, copy_only), size]
    if r < 0.93:
        return ["list", rand_ty(rng, depth - 1, copy_only)]
    return ["sarray", rand_ty(rng, depth - 1, True)]


# ----------------------------------------------------------------------------- traversal helpers (shrinking)

_ROW_POS = {"sum": None, "tuple": [1], "option": [1], "either": [1, 2], "func": [1, 2], "poly": [2, 3]}


def child_types(t):
    """Immediate sub-descriptions that are types."""
    k = t[0]
    out = []
    if k == "sum":
        for r in t[1]:
            out += r
    elif k in _ROW_POS:
        for p in _ROW_POS[k]:
            out += t[p]
    elif k in ("array", "list", "sarray"):
        out.append(t[1])
    elif k == "opaque":
        out += arg_types(t[3])
    elif k == "ext":
        out += arg_types(t[2])
    return out


def arg_types(args):
    out = []
    for a in args:
        if a[0] == "t":
            out.append(a[1])
        elif a[0] == "seq":
            out += arg_types(a[1])
    return out


def depth_of(t) -> int:
    cs = child_types(t)
    return 1 + max(map(depth_of, cs)) if cs else 0


def size_of(t) -> int:
    return 1 + sum(map(size_of, child_types(t)))


def kinds_of(t, acc=None):
    acc = {} if acc is None else acc
    acc[t[0]] = acc.get(t[0], 0) + 1
    for c in child_types(t):
        kinds_of(c, acc)
    return acc


def shrink_ty(t):
    """Smaller variants: a child in place of the whole, a child replaced by an atom, rows/args shortened."""
    for c in child_types(t):
        yield c
    k = t[0]

    def rows_variants(rows):
        for i in range(len(rows)):
            yield rows[:i] + rows[i + 1:]
            for j in range(len(rows[i])):
                yield rows[:i] + [rows[i][:j] + rows[i][j + 1:]] + rows[i + 1:]
                for s in shrink_ty(rows[i][j]):
                    yield rows[:i] + [rows[i][:j] + [s] + rows[i][j + 1:]] + rows[i + 1:]
    if k == "sum":
        for rs in rows_variants(t[1]):
            yield ["sum", rs]
    elif k in _ROW_POS:
        for p in _ROW_POS[k]:
            for rs in rows_variants([t[p]]):
                if len(rs) == 1:
                    yield t[:p] + [rs[0]] + t[p + 1:]
    elif k in ("array", "list"):
        for s in shrink_ty(t[1]):
            yield [k, s] + t[2:]
    elif k == "ext":
        d, args = t[1], t[2]
        for i, a in enumerate(args):
            if a[0] == "t":
                for s in shrink_ty(a[1]):
                    yield ["ext", d, args[:i] + [["t", s]] + args[i + 1:]]
                if a[1] not in (["qubit"], ["usize"]):
                    yield ["ext", d, args[:i] + [["t", ["qubit"]]] + args[i + 1:]]
                    yield ["ext", d, args[:i] + [["t", ["usize"]]] + args[i + 1:]]
        if d["bound"][0] == "P" and len(d["bound"][1]) > 1:
            for i in range(len(d["bound"][1])):
                yield ["ext", {**d, "bound": ["P", d["bound"][1][:i] + d["bound"][1][i + 1:]]}, args]


# =============================================================================================== values (C14)
"""
val  ::= ["sum", tag, ty, [val..]] | ["unitsum", tag, size] | ["bool", b] | ["tuple", [val..]] | ["some", [val..]]
       | ["none", [ty..]] | ["left", [val..], [ty..]] | ["right", [ty..], [val..]]
       | ["func", "dfg"|"defn", [ty..], [out..]]      out ::= ["in", i] | ["const", val]  (val: int/bool/float/func)
       | ["func", "dfgx"|"load", [ty..], [out..], [ext..]]   DFG root that declares extension requirements: built
                                                      with DfBase(ops.DFG(ins, None, reqs)) / that body read back
                                                      with Hugr.load_json(body.to_json())
       | ["func", "case"|"block"|"loop", [ty..], [out..]]    the other dataflow-parent roots (see func_desc_ok):
                                                      Case(ops.Case(ins)); DfBase(ops.DataflowBlock(ins)), out 0 the
                                                      branch sum; the TailLoop(just_inputs, rest) builder, out 0 the
                                                      control sum of rows [just_inputs, just_outputs], ins =
                                                      just_inputs + rest, the other outs of the types `rest`
       | ["ext", name, ty, [ext..]] | ["int", v, w] | ["float", x] | ["string", s]
       | ["array", [val..], ty] | ["list", [val..], ty] | ["sarray", [val..], ty, name]
"""
from fw import gZ  # noqa: E402

CNAMES = {"ConstInt": "CInt", "ConstF64": "CF64", "ConstString": "CString", "ArrayValue": "CArray",
          "ListValue": "CList", "StaticArrayValue": "CStatic"}


def gcname(s) -> str:
    return CNAMES[s] if s in CNAMES else gapp("COther", gname(s))


def func_out_types(ins, outs):
    return [ins[o[1]] if o[0] == "in" else val_type_desc(o[1]) for o in outs]


def func_reqs(v):
    """Extension requirements the root of a function description declares (absent field = none)."""
    return list(v[4]) if len(v) > 4 else []


def val_type_desc(v):
    """The type a value description denotes, computed from the description alone (generator side)."""
    k = v[0]
    if k == "sum":
        return v[2]
    if k == "unitsum":
        return ["unit", v[2]]
    if k == "bool":
        return ["bool"]
    if k == "tuple":
        return ["tuple", [val_type_desc(x) for x in v[1]]]
    if k == "some":
        return ["option", [val_type_desc(x) for x in v[1]]]
    if k == "none":
        return ["option", v[1]]
    if k == "left":
        return ["either", [val_type_desc(x) for x in v[1]], v[2]]
    if k == "right":
        return ["either", v[1], [val_type_desc(x) for x in v[2]]]
    if k == "func":
        return ["func", v[2], func_out_types(v[2], v[3]), func_reqs(v)]
    if k == "ext":
        return v[2]
    if k == "int":
        return ["int", v[2]]
    if k == "float":
        return ["float"]
    if k == "string":
        return ["string"]
    if k == "array":
        return ["array", v[2], len(v[1])]
    if k == "list":
        return ["list", v[2]]
    if k == "sarray":
        return ["sarray", v[2]]
    raise ValueError(v)


def build_func_body(kind, ins, outs, reqs=()):
    from hugr.build.dfg import Dfg, Function
    tin = [build_ty(t) for t in ins]
    if kind in ("dfgx", "load"):
        from hugr import ops
        from hugr.build.dfg import DfBase
        b = DfBase(ops.DFG(tin, None, list(reqs)))
    elif reqs:
        raise ValueError("only dfgx / load bodies declare extension requirements")
    elif kind in ("case", "block", "loop"):
        return build_root_body(kind, ins, outs)
    else:
        b = Dfg(*tin) if kind == "dfg" else Function("f", tin)
    wires = list(b.inputs())
    res = []
    for o in outs:
        res.append(wires[o[1]] if o[0] == "in" else b.load(build_val(o[1])))
    b.set_outputs(*res)
    if kind == "load":
        from hugr.hugr import Hugr
        return Hugr.load_json(b.hugr.to_json())
    return b.hugr


def loop_split(ins, outs):
    """(just_inputs, just_outputs, rest) of a "loop" function description, None when it is not one."""
    if not outs or outs[0][0] != "const":
        return None
    c = outs[0][1]
    if c[0] != "sum" or c[2][0] != "sum" or len(c[2][1]) != 2:
        return None
    ji, jo = c[2][1]
    if ins[:len(ji)] != ji or func_out_types(ins, outs[1:]) != ins[len(ji):]:
        return None
    return ji, jo, ins[len(ji):]


def func_desc_ok(v) -> bool:
    """Does a function description satisfy what its root kind requires of its outputs?  (dfg / defn / dfgx / load /
    case: nothing; block: out 0 is a constant of a sum type; loop: see loop_split.)"""
    if v[1] == "loop":
        return len(v) == 4 and loop_split(v[2], v[3]) is not None
    if v[1] == "block":
        return len(v) == 4 and bool(v[3]) and v[3][0][0] == "const" and (
            v[3][0][1][0] == "unitsum" or (v[3][0][1][0] == "sum" and v[3][0][1][2][0] == "sum"))
    if v[1] == "case":
        return len(v) == 4
    return True


def build_root_body(kind, ins, outs):
    """Bodies rooted at the other dataflow parents hugr-core gives an inner signature (Case, DataflowBlock,
    TailLoop); a Conditional / CFG root has none (hugr-py: AttributeError, hugr-core: NotMonomorphicFunction)."""
    from hugr import ops
    from hugr.build.dfg import DfBase
    if not func_desc_ok(["func", kind, ins, outs]):
        raise ValueError("malformed %s function description" % kind)
    tin = [build_ty(t) for t in ins]
    if kind == "case":
        from hugr.build.cond_loop import Case
        b = Case(ops.Case(tin))
    elif kind == "block":
        b = DfBase(ops.DataflowBlock(tin))
    else:
        from hugr.build.cond_loop import TailLoop
        ji, _, rest = loop_split(ins, outs)
        b = TailLoop([build_ty(t) for t in ji], [build_ty(t) for t in rest])
    wires = list(b.inputs())
    res = [wires[o[1]] if o[0] == "in" else b.load(build_val(o[1])) for o in outs]
    if kind == "loop":
        b.set_loop_outputs(res[0], *res[1:])
    else:
        b.set_outputs(*res)
    return b.hugr


def build_val(v):
    from hugr import val
    k = v[0]
    vs = lambda l: [build_val(x) for x in l]
    ts = lambda l: [build_ty(x) for x in l]
    if k == "sum":
        return val.Sum(v[1], build_ty(v[2]), vs(v[3]))
    if k == "unitsum":
        return val.UnitSum(v[1], v[2])
    if k == "bool":
        if len(v) == 3:                       # the module-level constants
            return val.TRUE if v[1] else val.FALSE
        return val.bool_value(v[1])
    if k == "tuple":
        return val.Tuple(*vs(v[1]))
    if k == "some":
        return val.Some(*vs(v[1]))
    if k == "none":
        return val.None_(*ts(v[1]))
    # Left/Right take Iterables: lists, tuples and one-shot iterators must all work (chosen by the shape of
    # the term, so the same term always gets the same kind of argument)
    def it(l, salt):
        m = (len(v[1]) * 3 + len(v[2]) + salt) % 4
        return l if m == 0 else tuple(l) if m == 1 else iter(l) if m == 2 else (x for x in l)
    if k == "left":
        return val.Left(it(vs(v[1]), 0), it(ts(v[2]), 1))
    if k == "right":
        return val.Right(it(ts(v[1]), 1), it(vs(v[2]), 0))
    if k == "func":
        return val.Function(build_func_body(v[1], v[2], v[3], func_reqs(v)))
    if k == "ext":
        return val.Extension(v[1], build_ty(v[2]), {"payload": 1}, list(v[3]))
    if k == "int":
        from hugr.std.int import IntVal
        return IntVal(v[1], v[2])
    if k == "float":
        from hugr.std.float import FloatVal
        return FloatVal(v[1])
    if k == "string":
        from hugr.std.prelude import StringVal
        return StringVal(v[1])
    if k == "array":
        from hugr.std.collections.array import ArrayVal
        return ArrayVal(vs(v[1]), build_ty(v[2]))
    if k == "list":
        from hugr.std.collections.list import ListVal
        return ListVal(vs(v[1]), build_ty(v[2]))
    if k == "sarray":
        from hugr.std.collections.static_array import StaticArrayVal
        return StaticArrayVal(vs(v[1]), build_ty(v[2]), v[3])
    raise ValueError(v)


def gtyd(t) -> str:
    """Gallina literal of a type description (through the real object the implementation builds for it)."""
    return gty(build_ty(t))


def gfsig(ins, outs_t, reqs=()) -> str:
    return "{| fs_in := %s; fs_out := %s; fs_reqs := %s |}" % (
        glist(gtyd(t) for t in ins), glist(gtyd(t) for t in outs_t), glist(gname(x) for x in sorted(reqs)))


def gtyd_loaded(t) -> str:
    """Literal of a type description as it stands in a body read back from JSON (Hugr.load_json does not resolve
    extension types: they stay opaque), printed from the serial form of the type."""
    return jty(build_ty(t)._to_serial_root().model_dump(mode="json"))


def gfunc_sig(v, loaded):
    """(fsig literal, TFunc literal) of the root signature of a function description; `loaded`: the body is
    (inside) one that was read back from JSON."""
    loaded = loaded or v[1] == "load"
    g = gtyd_loaded if loaded else gtyd
    ins = [g(t) for t in v[2]]
    outs = []
    for o in v[3]:
        if o[0] == "in":
            outs.append(ins[o[1]])
        elif o[1][0] == "func":
            outs.append(gfunc_sig(o[1], loaded)[1])
        else:
            outs.append(g(val_type_desc(o[1])))
    reqs = glist(gname(x) for x in sorted(func_reqs(v)))
    return ("{| fs_in := %s; fs_out := %s; fs_reqs := %s |}" % (glist(ins), glist(outs), reqs),
            gapp("TFunc", glist(ins), glist(outs), reqs))


def gvexpr(v) -> str:
    k = v[0]
    vs = lambda l: glist(gvexpr(x) for x in l)
    ts = lambda l: glist(gtyd(x) for x in l)
    if k == "sum":
        return gapp("ESum", gnat(v[1]), gtyd(v[2]), vs(v[3]))
    if k == "unitsum":
        return gapp("EUnitSum", gnat(v[1]), gnat(v[2]))
    if k == "bool":
        return gapp("EBool", fw.gbool(v[1]))
    if k == "tuple":
        return gapp("ETuple", vs(v[1]))
    if k == "some":
        return gapp("ESome", vs(v[1]))
    if k == "none":
        return gapp("ENone", ts(v[1]))
    if k == "left":
        return gapp("ELeft", vs(v[1]), ts(v[2]))
    if k == "right":
        return gapp("ERight", ts(v[1]), vs(v[2]))
    if k == "func":
        return gapp("EFunc", gfunc_sig(v, False)[0])
    if k == "ext":
        return gapp("EExt", gcname(v[1]), gtyd(v[2]), glist(gname(x) for x in v[3]))
    if k == "int":
        return gapp("EInt", gZ(v[1]), gnat(v[2]))
    if k == "float":
        return "EFloat"
    if k == "string":
        return "EString"
    if k == "array":
        return gapp("EArray", vs(v[1]), gtyd(v[2]))
    if k == "list":
        return gapp("EList", vs(v[1]), gtyd(v[2]))
    if k == "sarray":
        return gapp("EStatic", vs(v[1]), gtyd(v[2]), gname(v[3]))
    raise ValueError(v)


def gstd() -> str:
    """The type definitions the std value classes instantiate, as hugr-py loaded them."""
    from hugr.std.int import INT_T_DEF
    from hugr.std.float import FLOAT_TYPES_EXTENSION
    from hugr.std.prelude import STRING_T_DEF
    from hugr.std.collections import array, list as list_, static_array
    return ("{| d_int := %s; d_float := %s; d_string := %s; d_array := %s; d_list := %s; d_static := %s |}" % (
        gdef(INT_T_DEF), gdef(FLOAT_TYPES_EXTENSION.types["float64"]), gdef(STRING_T_DEF),
        gdef(array.EXTENSION.types["array"]), gdef(list_.EXTENSION.types["List"]),
        gdef(static_array.EXTENSION.types["static_array"])))


# ----------------------------------------------------------------------------- decoding the serial JSON


def _keys(d, *ks):
    if set(d) != set(ks):
        raise ValueError(f"unexpected serial fields {sorted(d)} (expected {sorted(ks)})")


def jparam(p) -> str:
    tp = p["tp"]
    if tp == "Type":
        _keys(p, "tp", "b")
        return gapp("PType", gbound(p["b"]))
    if tp == "BoundedNat":
        _keys(p, "tp", "bound")
        return gapp("PNat", gopt(None if p["bound"] is None else gN(p["bound"])))
    if tp == "String":
        return "PString"
    if tp == "List":
        return gapp("PList", jparam(p["param"]))
    if tp == "Tuple":
        return gapp("PTuple", glist(jparam(x) for x in p["params"]))
    if tp == "Extensions":
        return "PExts"
    raise ValueError(p)


def jarg(a) -> str:
    k = a["tya"]
    if k == "Type":
        _keys(a, "tya", "ty")
        return gapp("AType", jty(a["ty"]))
    if k == "BoundedNat":
        _keys(a, "tya", "n")
        return gapp("ANat", gN(a["n"]))
    if k == "String":
        _keys(a, "tya", "arg")
        return gapp("AString", gname(a["arg"]))
    if k == "Sequence":
        _keys(a, "tya", "elems")
        return gapp("ASeq", glist(jarg(x) for x in a["elems"]))
    if k == "Extensions":
        _keys(a, "tya", "es")
        return gapp("AExts", glist(gname(x) for x in a["es"]))
    if k == "Variable":
        _keys(a, "tya", "idx", "cached_decl")
        return gapp("AVar", gnat(a["idx"]), jparam(a["cached_decl"]))
    raise ValueError(a)


def jty(t) -> str:
    """A serial (JSON) type as a Types.v literal: extension types are opaque here."""
    k = t["t"]
    row = lambda r: glist(jty(x) for x in r)
    if k == "Sum":
        if t["s"] == "Unit":
            _keys(t, "t", "s", "size")
            return gapp("TUnitSum", gnat(t["size"]))
        _keys(t, "t", "s", "rows")
        return gapp("TSum", glist(row(r) for r in t["rows"]))
    if k == "V":
        _keys(t, "t", "i", "b")
        return gapp("TVar", gnat(t["i"]), gbound(t["b"]))
    if k == "R":
        _keys(t, "t", "i", "b")
        return gapp("TRowVar", gnat(t["i"]), gbound(t["b"]))
    if k == "I":
        return "TUSize"
    if k == "Q":
        return "TQubit"
    if k == "Alias":
        _keys(t, "t", "bound", "name")
        return gapp("TAlias", gname(t["name"]), gbound(t["bound"]))
    if k == "G":
        _keys(t, "t", "input", "output", "runtime_reqs")
        return gapp("TFunc", row(t["input"]), row(t["output"]), glist(gname(x) for x in sorted(t["runtime_reqs"])))
    if k == "Opaque":
        _keys(t, "t", "extension", "id", "args", "bound")
        return gapp("TOpaque", gname(t["extension"]), gname(t["id"]), glist(jarg(a) for a in t["args"]), gbound(t["bound"]))
    raise ValueError(t)


def jfsig(g) -> str:
    _keys(g, "t", "input", "output", "runtime_reqs")
    return "{| fs_in := %s; fs_out := %s; fs_reqs := %s |}" % (
        glist(jty(x) for x in g["input"]), glist(jty(x) for x in g["output"]),
        glist(gname(x) for x in sorted(g["runtime_reqs"])))


def jval(v) -> str:
    """A serial (JSON) value as a Values.v `sval` literal (fails closed on unexpected shapes)."""
    k = v["v"]
    if k == "Sum":
        _keys(v, "v", "tag", "typ", "vs")
        return gapp("SSum", gnat(v["tag"]), jty(v["typ"]), glist(jval(x) for x in v["vs"]))
    if k == "Tuple":
        _keys(v, "v", "vs")
        return gapp("STuple", glist(jval(x) for x in v["vs"]))
    if k == "Function":
        _keys(v, "v", "hugr")
        nodes = v["hugr"]["nodes"]
        root = nodes[0]
        if root["op"] == "DFG":
            sig = root["signature"]
        elif root["op"] == "FuncDefn" and root["signature"]["params"] == []:
            sig = root["signature"]["body"]
        elif root["op"] == "Case":
            sig = root["signature"]
        elif root["op"] == "DataflowBlock":
            # hugr-core DataflowBlock::inner_signature: inputs -> [Sum(sum_rows)] + other_outputs, extension_delta
            _keys(root, "parent", "op", "inputs", "other_outputs", "sum_rows", "extension_delta")
            sig = {"t": "G", "input": root["inputs"], "runtime_reqs": root["extension_delta"],
                   "output": [{"t": "Sum", "s": "General", "rows": root["sum_rows"]}] + root["other_outputs"]}
        elif root["op"] == "TailLoop":
            # hugr-core TailLoop::inner_signature: just_inputs + rest -> [Sum([just_inputs, just_outputs])] + rest
            _keys(root, "parent", "op", "just_inputs", "just_outputs", "rest", "extension_delta")
            sig = {"t": "G", "input": root["just_inputs"] + root["rest"], "runtime_reqs": root["extension_delta"],
                   "output": [{"t": "Sum", "s": "General", "rows": [root["just_inputs"], root["just_outputs"]]}]
                   + root["rest"]}
        else:
            raise ValueError("function value whose root is " + root["op"])
        ins = [n for i, n in enumerate(nodes) if i > 0 and n["parent"] == 0 and n["op"] == "Input"]
        outs = [n for i, n in enumerate(nodes) if i > 0 and n["parent"] == 0 and n["op"] == "Output"]
        if len(ins) != 1 or len(outs) != 1:
            raise ValueError("function body without exactly one Input and one Output")
        return gapp("SFunc", jfsig(sig), glist(jty(x) for x in ins[0]["types"]), glist(jty(x) for x in outs[0]["types"]))
    if k == "Extension":
        _keys(v, "v", "extensions", "typ", "value")
        _keys(v["value"], "c", "v")
        c, p = v["value"]["c"], v["value"]["v"]
        payload = "SPOther"
        if c == "ConstInt" and isinstance(p, dict) and set(p) == {"log_width", "value"}:
            payload = gapp("SPInt", gnat(p["log_width"]), gZ(p["value"]))
        elif c == "ConstF64" and isinstance(p, dict) and set(p) == {"value"}:
            payload = "SPFloat"
        elif c == "ConstString" and isinstance(p, dict) and set(p) == {"value"}:
            payload = "SPString"
        elif c in ("ArrayValue", "ListValue") and isinstance(p, dict) and set(p) == {"values", "typ"}:
            payload = gapp("SPSeq", glist(jval(x) for x in p["values"]), jty(p["typ"]))
        elif (c == "StaticArrayValue" and isinstance(p, dict) and set(p) == {"value", "name"}
              and isinstance(p["value"], dict) and set(p["value"]) == {"values", "typ"}):
            payload = gapp("SPStatic", glist(jval(x) for x in p["value"]["values"]), jty(p["value"]["typ"]), gname(p["name"]))
        return gapp("SExt", gcname(c), jty(v["typ"]), payload, glist(gname(x) for x in v["extensions"]))
    raise ValueError(v)


# ----------------------------------------------------------------------------- random values


def rand_vty(rng, depth):
    """A type description for which rand_val_of can build a value with the helpers/std classes."""
    r = rng.random()
    if depth <= 0 or r < 0.3:
        return rng.choice([["bool"], ["unit", rng.choice([1, 1, 2, 3, 4])], ["int", rng.randint(0, 6)], ["float"], ["string"],
                           ["tuple", []], ["usize"], ["qubit"], ["opaque", "e.one", "T", [], "C"]])
    r = rng.random()
    row = lambda: [rand_vty(rng, depth - 1) for _ in range(rng.choice([0, 1, 1, 2, 3]))]
    if r < 0.2:
        return ["tuple", row()]
    if r < 0.32:
        return ["option", row()]
    if r < 0.44:
        return ["either", row(), row()]
    if r < 0.62:
        rows = [row() for _ in range(rng.choice([1, 2, 2, 3, 4]))]
        return ["sum", rows]
    if r < 0.76:
        return ["array", rand_vty(rng, depth - 1), rng.choice([0, 1, 2, 3])]
    if r < 0.88:
        return ["list", rand_vty(rng, depth - 1)]
    return ["sarray", rand_ty(rng, depth - 1, True) if rng.random() < 0.3 else rand_cvty(rng, depth - 1)]


def rand_cvty(rng, depth):
    """Like rand_vty but copyable by construction (elements of static arrays)."""
    for _ in range(50):
        t = rand_vty(rng, depth)
        if desc_copyable(t):
            return t
    return ["bool"]


def desc_copyable(t) -> bool:
    k = t[0]
    if k in ("qubit",):
        return False
    if k in ("var", "rowvar", "alias"):
        return t[2] == "C"
    if k == "opaque":
        return t[4] == "C"
    if k == "ext":
        b = t[1]["bound"]
        if b[0] == "E":
            return b[1] == "C"
        return all(desc_copyable(t[2][i][1]) for i in b[1] if t[2][i][0] == "t")
    if k in ("func", "poly", "sarray", "int", "float", "string", "usize", "bool", "unit"):
        return True
    return all(desc_copyable(c) for c in child_types(t))


def rand_func(rng, depth):
    ins = [rand_ty(rng, min(depth, 2), False) for _ in range(rng.choice([0, 1, 2, 3]))]
    outs = []
    for i, t in enumerate(ins):
        if desc_copyable(t):
            outs += [["in", i]] * rng.choice([0, 1, 1, 2])
        else:
            outs.append(["in", i])
    for _ in range(rng.choice([0, 0, 1, 2])):
        outs.append(["const", rng.choice([["int", rng.randint(0, 200), rng.randint(3, 6)], ["bool", rng.random() < 0.5],
                                          ["float", 1.5]])])
    rng.shuffle(outs)
    return ["func", rng.choice(["dfg", "dfg", "defn"]), ins, outs]


REQ_EXTS = EXTS + ["arithmetic.int", "arithmetic.float", "prelude"]


def rand_func_reqs(rng, depth):
    """A function value whose DFG root declares extension requirements (separate generator: rand_func and the
    streams built on it are unchanged)."""
    f = rand_func(rng, depth)
    n = rng.choice([1, 1, 1, 2, 3, 0])
    return ["func", rng.choice(["dfgx", "dfgx", "load"]), f[2], f[3], rng.sample(REQ_EXTS, n)]


def rand_val_reqs(rng, depth):
    """A function value with extension requirements, bare or inside helper towers / raw sums / collections."""
    v = rand_func_reqs(rng, 2)
    for _ in range(depth):
        r = rng.random()
        sib = lambda: [rand_val(rng, 1) for _ in range(rng.choice([0, 0, 1, 2]))]
        if r < 0.25:
            return v
        t = val_type_desc(v)
        if r < 0.4:
            a, b = sib(), sib()
            v = ["tuple", a + [v] + b]
        elif r < 0.5:
            v = ["some", sib() + [v]]
        elif r < 0.58:
            v = ["left", [v] + sib(), [rand_ty(rng, 1, False) for _ in range(rng.choice([0, 1]))]]
        elif r < 0.66:
            v = ["right", [rand_ty(rng, 1, False) for _ in range(rng.choice([0, 1]))], sib() + [v]]
        elif r < 0.76:
            rows = [[rand_vty(rng, 1) for _ in range(rng.choice([0, 1]))] for _ in range(rng.choice([0, 1, 2]))]
            tag = rng.randint(0, len(rows))
            rows.insert(tag, [t])
            v = ["sum", tag, ["sum", rows], [v]]
        elif r < 0.84:
            v = ["array", [v] * rng.choice([1, 2]), t]
        elif r < 0.9:
            v = ["list", [v] * rng.choice([1, 2]), t]
        elif r < 0.94:
            v = ["sarray", [v], t, "tbl"]
        elif v[0] != "func":
            v = ["tuple", [v]]
        else:
            # loaded as a constant inside the body of another function value (which may declare its own)
            outer = rng.choice([["dfg"], ["defn"], ["dfgx", rng.sample(REQ_EXTS, 1)], ["load", rng.sample(REQ_EXTS, 2)]])
            v = ["func", outer[0], [["bool"]], [["const", v], ["in", 0]]] + outer[1:]
    return v


def rand_val_of(rng, t, depth):
    """A value description of (exactly) the type t."""
    k = t[0]
    vals = lambda row: [rand_val_of(rng, x, depth - 1) for x in row]
    if k == "bool":
        r = rng.random()
        if r < 0.5:
            return ["bool", rng.random() < 0.5]
        return ["bool", rng.random() < 0.5, "const"] if r < 0.8 else ["unitsum", rng.randint(0, 1), 2]
    if k == "unit" and t[1] > 0:
        return ["unitsum", rng.randrange(t[1]), t[1]]
    if k == "tuple":
        return ["tuple", vals(t[1])] if rng.random() < 0.8 else ["sum", 0, ["sum", [t[1]]], vals(t[1])]
    if k == "option":
        r = rng.random()
        if r < 0.45:
            return ["some", vals(t[1])]
        if r < 0.85:
            return ["none", t[1]]
        tag = rng.randint(0, 1)
        return ["sum", tag, t, vals([[], t[1]][tag])]
    if k == "either":
        r = rng.random()
        if r < 0.45:
            return ["left", vals(t[1]), t[2]]
        if r < 0.9:
            return ["right", t[1], vals(t[2])]
        tag = rng.randint(0, 1)
        return ["sum", tag, t, vals(t[1 + tag])]
    if k == "sum" and t[1]:
        tag = rng.randrange(len(t[1]))
        return ["sum", tag, t, vals(t[1][tag])]
    if k == "int":
        return ["int", rng.randrange(1 << (1 << t[1])) if rng.random() < 0.7 else rng.choice([0, 1]), t[1]]
    if k == "float":
        return ["float", rng.choice([0.0, 1.5, -2.25, 1e10])]
    if k == "string":
        return ["string", rng.choice(["", "a", "hello world", "é"])]
    if k == "array" and isinstance(t[2], int):
        return ["array", [rand_val_of(rng, t[1], depth - 1) for _ in range(t[2])], t[1]]
    if k == "list":
        return ["list", [rand_val_of(rng, t[1], depth - 1) for _ in range(rng.choice([0, 1, 2, 3]))], t[1]]
    if k == "sarray":
        return ["sarray", [rand_val_of(rng, t[1], depth - 1) for _ in range(rng.choice([0, 1, 2]))], t[1],
                rng.choice(["arr", "tbl"])]
    # every type has opaque extension constants
    return ["ext", rng.choice(["my_const", "other.const"]), t, rng.sample(EXTS, rng.randint(0, 2))]


def rand_val(rng, depth):
    """A well-typed value description: values of generated types, helper towers over arbitrary values
    (functions included), collections of copies."""
    r = rng.random()
    if depth <= 0 or r < 0.35:
        return rand_val_of(rng, rand_vty(rng, depth), depth)
    if r < 0.47:
        return rand_func(rng, depth)
    kids = lambda: [rand_val(rng, depth - 1) for _ in range(rng.choice([0, 1, 1, 2, 3]))]
    trow = lambda: [rand_ty(rng, depth - 1, False) for _ in range(rng.choice([0, 1, 2]))]
    if r < 0.57:
        return ["tuple", kids()]
    if r < 0.65:
        return ["some", kids()]
    if r < 0.7:
        return ["none", trow()]
    if r < 0.78:
        return ["left", kids(), trow()]
    if r < 0.86:
        return ["right", trow(), kids()]
    v = rand_val(rng, depth - 1)
    t = val_type_desc(v)
    n = rng.choice([1, 2, 3])
    if r < 0.92:
        return ["array", [v] * n, t]
    if r < 0.97 or not desc_copyable(t):
        return ["list", [v] * n, t]
    return ["sarray", [v] * n, t, "tbl"]


def child_vals(v):
    k = v[0]
    if k == "sum":
        return v[3]
    if k in ("tuple", "some", "left", "array", "list", "sarray"):
        return v[1]
    if k == "right":
        return v[2]
    if k == "func":
        return [o[1] for o in v[3] if o[0] == "const"]
    return []


def vdepth(v) -> int:
    cs = child_vals(v)
    return 1 + max(map(vdepth, cs)) if cs else 0


def vkinds(v, acc=None):
    acc = {} if acc is None else acc
    acc[v[0]] = acc.get(v[0], 0) + 1
    for c in child_vals(v):
        vkinds(c, acc)
    return acc


def break_val(rng, v):
    """An ill-typed neighbour of a (well-typed) value description, or None."""
    k = v[0]
    r = rng.random()
    if k == "sum":
        rows = v[2][1] if v[2][0] == "sum" else None
        if r < 0.3:
            return ["sum", v[1] + rng.choice([1, 2, 5]), v[2], v[3]]                      # other / out-of-range tag
        if r < 0.6 and v[3]:
            i = rng.randrange(len(v[3]))
            return ["sum", v[1], v[2], v[3][:i] + [["string", "x"] if v[3][i][0] != "string" else ["bool", True]] + v[3][i + 1:]]
        if r < 0.8:
            return ["sum", v[1], v[2], v[3] + [["bool", False]]]                          # one field too many
        if v[3]:
            return ["sum", v[1], v[2], v[3][:-1]]
    if k == "unitsum":
        return ["unitsum", v[2] + rng.choice([0, 1, 3]), v[2]]
    if k in ("array", "list", "sarray") and v[1]:
        i = rng.randrange(len(v[1]))
        bad = ["float", 0.5] if v[1][i][0] != "float" else ["bool", True]
        return [k, v[1][:i] + [bad] + v[1][i + 1:]] + v[2:]
    if k == "int":
        return ["int", v[1], 7 + rng.randint(0, 2)]
    if k == "ext":
        return ["ext", rng.choice(["ConstInt", "ArrayValue", "ConstF64"]), v[2], v[3]]
    if k in ("tuple", "some") and v[1]:
        i = rng.randrange(len(v[1]))
        b = break_val(rng, v[1][i])
        return None if b is None else [k, v[1][:i] + [b] + v[1][i + 1:]]
    return None


def shrink_val(v):
    for c in child_vals(v):
        yield c
    k = v[0]
    pos = {"sum": 3, "tuple": 1, "some": 1, "left": 1, "right": 2, "array": 1, "list": 1, "sarray": 1}.get(k)
    if pos is not None and k not in ("sum",):
        l = v[pos]
        for i in range(len(l)):
            yield v[:pos] + [l[:i] + l[i + 1:]] + v[pos + 1:]
            for s in shrink_val(l[i]):
                if k in ("array", "list", "sarray"):
                    continue
                yield v[:pos] + [l[:i] + [s] + l[i + 1:]] + v[pos + 1:]
    if k == "func" and v[1] in ("case", "block", "loop"):
        yield from (f for f in shrink_root_func(v) if func_desc_ok(f))
    elif k == "func":
        for i in range(len(v[3])):
            yield v[:3] + [v[3][:i] + v[3][i + 1:]] + v[4:]
        for i in range(len(v[2])):
            if all(o[0] != "in" or o[1] != i for o in v[3]):          # an unused input
                yield v[:2] + [v[2][:i] + v[2][i + 1:],
                               [["in", o[1] - 1] if o[0] == "in" and o[1] > i else o for o in v[3]]] + v[4:]
        if v[1] == "load":
            yield [v[0], "dfgx"] + v[2:]
        rq = func_reqs(v)
        for i in range(len(rq)):
            yield v[:4] + [rq[:i] + rq[i + 1:]]


# ----------------------------------------------------------------------------- helpers over sugar (C14, additive)
# Separate generators (seeded C14-h: `None_(opt_ty)` unpacked a payload type that happened to be a tys.Option): the
# arguments of Some / None_ / Left / Right / Tuple are themselves sugar — Option of Option, Either of Either, Tuple of
# Tuple, UnitSum / Bool inside, the same rows spelt as a general Sum — with rows of exactly one entry favoured (where
# "the type I was given" and "the row I was given" are easiest to confuse).  rand_ty / rand_vty / rand_val /
# rand_val_of / rand_func and every stream built on them are unchanged.

SUGAR_TYS = ("option", "either", "tuple", "unit", "bool")


def rand_sugar_ty(rng, depth):
    """A sugar type whose rows hold sugar types again (down to `depth` levels), or the same rows as a general Sum."""
    if depth <= 0:
        return rng.choice([["bool"], ["bool"], ["unit", rng.choice([0, 1, 1, 2, 3])], ["tuple", []], ["option", []],
                           ["int", rng.randint(0, 6)], ["usize"], ["qubit"], ["float"], ["func", [], [], []]])
    row = lambda: [rand_sugar_ty(rng, depth - rng.choice([1, 1, 2])) for _ in range(rng.choice([0, 1, 1, 1, 1, 2, 3]))]
    k = rng.choice(["option", "option", "option", "either", "either", "tuple", "tuple", "sum"])
    if k == "option":
        return ["option", row()]
    if k == "either":
        return ["either", row(), row()]
    if k == "tuple":
        return ["tuple", row()]
    # the rows of an option / either / tuple / a longer sum, spelt with the general class
    n = rng.choice([1, 2, 2, 3])
    rows = [row() for _ in range(n)]
    if n == 2 and rng.random() < 0.5:
        rows[0] = []
    return ["sum", rows]


def rand_sugar_val(rng, depth):
    """A helper tower whose (type and value) arguments are sugar at every level: a value of a rand_sugar_ty type
    (Some / None_ / Left / Right / Tuple / raw Sum chosen by rand_val_of), or two values of one sugar type side by
    side in a collection that declares this type (as the two inhabitants of Option(Option(T)) in one list)."""
    t = rand_sugar_ty(rng, max(depth, 1))
    r = rng.random()
    if r < 0.3:
        # a helper called with exactly ONE argument, which is sugar: the type t / a helper value of type t
        h = rng.choice(["none", "none", "leftT", "rightT", "some", "tuple", "leftV", "rightV"])
        if h in ("none", "leftT", "rightT") and rng.random() < 0.5:
            a, b = rand_sugar_ty(rng, depth - 1), rand_sugar_ty(rng, depth - 1)
            t = rng.choice([["option", [a]], ["option", [a]], ["option", [a, b]], ["tuple", [a]], ["either", [a], [b]]])
        other = lambda: [rand_val_of(rng, rand_sugar_ty(rng, depth - 1), depth) for _ in range(rng.choice([0, 1, 1, 2]))]
        orow = lambda: [rand_sugar_ty(rng, depth - 1) for _ in range(rng.choice([0, 1, 1, 2]))]
        if h == "none":
            return ["none", [t]]
        if h == "leftT":
            return ["left", other(), [t]]
        if h == "rightT":
            return ["right", [t], other()]
        v = rand_val_of(rng, t, depth)
        if h == "some":
            return ["some", [v]]
        if h == "tuple":
            return ["tuple", [v]]
        if h == "leftV":
            return ["left", [v], orow()]
        return ["right", orow(), [v]]
    if r < 0.75:
        return rand_val_of(rng, t, depth)
    vs = [rand_val_of(rng, t, depth) for _ in range(rng.choice([1, 2, 2, 3]))]
    if r < 0.84:
        return ["array", vs, t]
    if r < 0.94 or not desc_copyable(t):
        return ["list", vs, t]
    return ["sarray", vs, t, "tbl"]


def sugar_args(v, acc=None):
    """Statistics: for every helper in a value description, the sugar kinds among its type arguments
    ('none:option', 'left:tuple' ...) and value arguments ('some<none', 'tuple<tuple' ...); a key ending in '!' counts
    the helpers called with exactly one argument, which is sugar."""
    acc = {} if acc is None else acc
    k = v[0]

    def add(key):
        acc[key] = acc.get(key, 0) + 1
    trow = v[{"none": 1, "left": 2, "right": 1}[k]] if k in ("none", "left", "right") else None
    if trow is not None:
        for t in trow:
            if t[0] in SUGAR_TYS:
                add("%s:%s" % (k, t[0]))
        if len(trow) == 1 and trow[0][0] in SUGAR_TYS:
            add("%s:%s!" % (k, trow[0][0]))
    if k in ("tuple", "some", "left", "right"):
        kids = child_vals(v)
        for c in kids:
            if c[0] in ("tuple", "some", "none", "left", "right", "unitsum", "bool"):
                add("%s<%s" % (k, c[0]))
        if len(kids) == 1 and kids[0][0] in ("tuple", "some", "none", "left", "right", "unitsum", "bool"):
            add("%s<%s!" % (k, kids[0][0]))
    for c in child_vals(v):
        sugar_args(c, acc)
    return acc


def shrink_helper_rows(v):
    """Smaller type rows of None_ / Left / Right (drop an entry, an entry replaced by a smaller type), at the root and
    at every position of a helper tower where the enclosing type is inferred from the value (Tuple / Some / Left /
    Right fields), so a well-typed description stays well typed."""
    k = v[0]
    pos = {"none": 1, "left": 2, "right": 1}.get(k)
    if pos is not None:
        row = v[pos]
        for i in range(len(row)):
            yield v[:pos] + [row[:i] + row[i + 1:]] + v[pos + 1:]
            for s in shrink_ty(row[i]):
                yield v[:pos] + [row[:i] + [s] + row[i + 1:]] + v[pos + 1:]
    vp = {"tuple": 1, "some": 1, "left": 1, "right": 2}.get(k)
    if vp is not None:
        l = v[vp]
        for i in range(len(l)):
            for s in shrink_helper_rows(l[i]):
                yield v[:vp] + [l[:i] + [s] + l[i + 1:]] + v[vp + 1:]


# ----------------------------------------------------------------------------- other body roots (C14, additive)
# Function values whose body is rooted at the other dataflow parents hugr-core gives an inner signature: Case,
# DataflowBlock, TailLoop (seeded C14-j: Function.type_() answered with the OUTER signature of a TailLoop root,
# just_inputs+rest -> just_outputs+rest, instead of the signature of the body).  Separate generators, drawn after
# everything else: rand_ty / rand_vty / rand_val / rand_val_of / rand_func and every stream built on them are unchanged.

def rand_func_root(rng, depth, kind=None):
    kind = kind or rng.choice(["loop", "loop", "loop", "case", "block", "block"])
    if kind == "case":
        f = rand_func(rng, depth)
        return ["func", "case", f[2], f[3]]
    row = lambda ns: [rand_vty(rng, 1) for _ in range(rng.choice(ns))]
    vals = lambda r: [rand_val_of(rng, t, 1) for t in r]
    if kind == "block":
        f = rand_func(rng, depth)
        if rng.random() < 0.3:
            n = rng.choice([1, 1, 2, 3])
            ctrl = ["unitsum", rng.randrange(n), n]
        else:
            rows = [row([0, 1, 1, 2]) for _ in range(rng.choice([1, 2, 2, 3]))]
            tag = rng.randrange(len(rows))
            ctrl = ["sum", tag, ["sum", rows], vals(rows[tag])]
        return ["func", "block", f[2], [["const", ctrl]] + f[3]]
    ji, jo = row([0, 1, 1, 2]), row([0, 1, 1, 2, 3])
    if rng.random() < 0.15:
        jo = list(ji)                                   # (the loop looks the same from outside only up to the control sum)
    rest = [rand_ty(rng, min(depth, 2), False) for _ in range(rng.choice([0, 1, 1, 2]))]
    tag = rng.choice([0, 1, 1])
    ctrl = ["sum", tag, ["sum", [ji, jo]], vals([ji, jo][tag])]
    return ["func", "loop", ji + rest, [["const", ctrl]] + [["in", len(ji) + i] for i in range(len(rest))]]


def shrink_root_func(v):
    """Smaller descriptions of a case / block / loop function (candidates; the caller keeps the well-formed ones)."""
    kind, ins, outs = v[1], v[2], v[3]
    if kind == "loop":
        sp = loop_split(ins, outs)
        if sp is None:
            return
        ji, jo, rest = sp
        c = outs[0][1]
        mk = lambda ji2, jo2, rest2, tag, vals: ["func", "loop", ji2 + rest2, [["const", ["sum", tag, ["sum", [ji2, jo2]], vals]]]
                                                 + [["in", len(ji2) + i] for i in range(len(rest2))]]
        for i in range(len(rest)):
            yield mk(ji, jo, rest[:i] + rest[i + 1:], c[1], c[3])
        if c[1] == 1:
            for i in range(len(ji)):
                yield mk(ji[:i] + ji[i + 1:], jo, rest, 1, c[3])
            for i in range(len(jo)):
                yield mk(ji, jo[:i] + jo[i + 1:], rest, 1, c[3][:i] + c[3][i + 1:])
        else:
            for i in range(len(jo)):
                yield mk(ji, jo[:i] + jo[i + 1:], rest, 0, c[3])
            for i in range(len(ji)):
                yield mk(ji[:i] + ji[i + 1:], jo, rest, 0, c[3][:i] + c[3][i + 1:])
        return
    first = 1 if kind == "block" else 0
    for i in range(first, len(outs)):
        yield v[:3] + [outs[:i] + outs[i + 1:]]
    for i in range(len(ins)):
        if all(o[0] != "in" or o[1] != i for o in outs):          # an unused input
            yield v[:2] + [ins[:i] + ins[i + 1:], [["in", o[1] - 1] if o[0] == "in" and o[1] > i else o for o in outs]]
    if kind == "block" and outs[0][1][0] == "sum":
        c = outs[0][1]
        rows = c[2][1]
        for i in range(len(rows)):
            if i != c[1]:
                yield v[:3] + [[["const", ["sum", c[1] - (i < c[1]), ["sum", rows[:i] + rows[i + 1:]], c[3]]]] + outs[1:]]
        if c[3]:
            yield v[:3] + [[["const", ["sum", c[1], ["sum", rows[:c[1]] + [[]] + rows[c[1] + 1:]], []]]] + outs[1:]]
