"""Writes /verif/MANIFEST.json from the per-property fragments harness/manifest.d/Cnn.json
(keys: technique, text, note, ref; optional: engine_note) so that it stays valid.
Properties without a fragment are listed under not_applicable with the reason in
harness/manifest.d/NA.json (a map id -> reason) or a default."""
import glob, json, os
V = os.path.dirname(os.path.dirname(os.path.abspath(__file__)))


def main():
    allp = [json.loads(l)["id"] for l in open(os.path.join(V, "properties.jsonl"))]
    frags = {}
    for f in sorted(glob.glob(os.path.join(V, "harness", "manifest.d", "C*.json"))):
        frags[os.path.basename(f)[:-5]] = json.load(open(f))
    na_path = os.path.join(V, "harness", "manifest.d", "NA.json")
    na_reasons = json.load(open(na_path)) if os.path.exists(na_path) else {}
    hooks_path = os.path.join(V, "harness", "manifest.d", "hooks.json")
    hooks_extra = json.load(open(hooks_path)) if os.path.exists(hooks_path) else {}
    checks = []
    for pid, c in sorted(frags.items()):
        assert pid in allp, pid
        checks.append({
            "property_id": pid,
            "quick_cmd": f"./check {pid} --tier quick",
            "thorough_cmd": f"./check {pid} --tier thorough",
            "evidence_file": f"/verif/evidence/{pid}.json",
            "replay_cmd_template": f"./check {pid} --replay {{path}}",
            "engine": "coq-correspondence",
            "level_claimed": {"category": "proof", "text": c["text"], "design_ref": "DESIGN.md section " + c["ref"]},
            "level_note": c["note"],
            "technique": c["technique"],
        })
    na = [{"property_id": p, "reason": na_reasons.get(p, "check not built yet (work in progress; see DESIGN.md section 4 for the plan)")}
          for p in allp if p not in frags]
    hooks = {"guard": "HUGR_PY_VERIF",
             "enable": "no hooks are needed: every observation goes through hugr-py's public API (checks export HUGR_PY_VERIF=1 for uniformity)",
             "baseline_off_cmd": "cd /repo && /venv/bin/python -m pytest -ra -q -p no:cacheprovider --timeout=900 --continue-on-collection-errors",
             "source_commits": [], "add_only": True}
    hooks.update(hooks_extra)
    m = {
        "version": 1,
        "setup_cmd": "cd /verif && ./check setup",
        "hooks": hooks,
        "engines": [{"name": "coq-correspondence", "path": "/verif/check", "serves_properties": sorted(frags),
                     "kind_free_text": "Coq 8.16.1 development (coq/) with property theorems in coq/props; harness/ runs hugr-py from /repo's working tree, writes cases_*.v with inputs and observed outputs, Coq evaluates model==implementation (corr) and spec(implementation) (mon) by vm_compute"}],
        "checks": checks,
        "not_applicable": na,
        "notes": "See DESIGN.md. Known findings: known_findings.txt.",
    }
    json.dump(m, open(os.path.join(V, "MANIFEST.json"), "w"), indent=1)


if __name__ == "__main__":
    main()
