"""Writes /verif/MANIFEST.json from the table below (kept in one place so it stays valid)."""
import json, os
V = os.path.dirname(os.path.dirname(os.path.abspath(__file__)))
CHECKS = {
 "C18": dict(
   technique="Coq proof (bijection invariant by induction over histories + refinement to a live-pairs spec) tied by behavioural correspondence (exhaustive small scope + random histories evaluated with vm_compute)",
   text="Theorems in coq/props/C18.v (closed under the global context): the two dictionaries stay exact inverses after every history from every accepted constructor argument; every mutator step refines the plain list-of-live-pairs specification with the same outcome (KeyError iff absent); insert displaces exactly the pairs sharing key or value; len/iter/items reflect the live pairs; the constructor rejects iff the mapping is not injective. The model is hand-written Gallina mirroring utils.py statement by statement; each run re-ties it to /repo by running the real BiMap and the model on the same histories and by evaluating the specification on the implementation's own observations.",
   note="Trusted: Coq kernel/vm_compute; the correspondence samples (exhaustive over small universes, random beyond); Python ==/hash of the sampled keys behaves as equality. None keys are excluded by the property.",
   ref="4/C18"),
 "C16": dict(
   technique="Coq proof over unbounded Z (Node indexing = Python sequence semantics, by lia/case analysis) tied by behavioural correspondence (exhaustive small n and bounds, random large values, handles from add/delete histories and builder calls)",
   text="Theorems in coq/props/C16.v (closed under the global context), for every n >= 0 and all integers: iteration yields offsets 0..n-1 in order; integer indexing equals range(n)[i] (IndexError outside -n..n-1); slicing with any positive step equals range(n)[start:stop:step] with positive overflow clamped and IndexError for a bound below -n (also stated pointwise as membership); tuple indexing; unknown count: non-negative ints work, iteration raises ValueError; ports compare by (node index, offset, direction). The model mirrors node_port.py; each run re-ties it to /repo by evaluating the same queries on real handles, including handles returned by add_node inside add/delete histories (index reuse) and by every builder call the property lists, whose expected count is the operation's num_out.",
   note="Trusted: Coq kernel/vm_compute; the correspondence samples; 'handles returned by builders know their count' is monitored on builder scenarios (not a theorem) with the count read from op.num_out; hash equality is only observed (equal ports hash equal).",
   ref="4/C16"),
 "C19": dict(
   technique="Coq proof (forward dictionary fold = pointwise backwards reading of the write history, by induction over entries) tied by behavioural correspondence on generated shots; multi-shot strictness and counts monitored in Coq",
   text="Theorems in coq/props/C19.v (closed under the global context): for every shot whose values are bits, to_register_bits returns, for every register, exactly the pointwise reading of the entry history (latest indexed write to position j after the last whole-register write, else that write's bit j, else 0; length = max(whole length, 1 + highest later index)); it raises ValueError iff some entry carries a non-bit; collate_tags gives per tag all values in entry order. Multi-shot register_bitstrings/register_counts (strict_names, strict_lengths) and collated_counts are modelled and evaluated in Coq against a separately written specification (per-shot strings in shot order; reject iff register sets / lengths differ; flatten+concatenate) on every generated case: monitored, not yet theorems. Three genuine defects were repaired in /repo (fix: commits, known_findings.txt).",
   note="Trusted: Coq kernel/vm_compute; sampling correspondence; tag alphabet = printable ASCII (Unicode \\w/\\d and '$'-before-newline are outside the model); the regex is re-implemented by hand (parse_tag) and compared with re.match on generated tags.",
   ref="4/C19"),
 "C09": dict(
   technique="Coq proof (header decoder characterised for all byte strings + in-Coq sweep of all 2^16 format/flag pairs; envelope round trip modulo zstd/JSON oracle hypotheses) tied by behavioural correspondence incl. an exhaustive run of the real header decoder",
   text="Theorems in coq/props/C09.v (closed under the global context; zstd and the JSON text codec appear only as Section hypotheses visible in the statements): header_to_bytes lays out magic, format byte and flags with bit 0 = compressed, bits 7,6 = 0,1; header_from_bytes accepts a byte string iff it is MAGIC ++ [known format; flags] ++ rest and then decodes format and flags&1, for ALL byte strings, and returns ValueError otherwise (short, other magic, unknown format); all 2^16 pairs swept inside Coq; read_envelope(make_envelope p c) = p for every JSON configuration (any level or none) given decompress.compress = id and parse.dump = id; to_str only for ASCII-printable formats. Each run executes the real EnvelopeHeader.from_bytes on all 65536 pairs and all truncations and compares accepted set and decoded fields with the model in Coq, and runs to_bytes/to_str/from_bytes/from_str on generated packages and mutated envelopes.",
   note="Trusted: Coq kernel/vm_compute; pyzstd and pydantic as oracles (their per-case answers are observed and fed to the model); MODULE formats are not encodable offline (native module absent) and are only modelled on the decode side; document-level round trip of modules/extensions themselves is C02/C10.",
   ref="4/C09"),
}
NA = []
def main():
    import json as _j
    allp = [_j.loads(l)["id"] for l in open(os.path.join(V, "properties.jsonl"))]
    NA[:] = [{"property_id": p, "reason": "check not built yet (work in progress; see DESIGN.md section 4 for the plan)"} for p in allp if p not in CHECKS]
    checks = []
    for pid, c in sorted(CHECKS.items()):
        checks.append({
            "property_id": pid,
            "quick_cmd": f"./check {pid} --tier quick",
            "thorough_cmd": f"./check {pid} --tier thorough",
            "evidence_file": f"/verif/evidence/{pid}.json",
            "replay_cmd_template": f"./check {pid} --replay {{path}}",
            "engine": "coq-correspondence",
            "level_claimed": {"category": "proof", "text": c["text"], "design_ref": "DESIGN.md section " + c["ref"]},
            "level_note": c["note"],
            "technique": c["technique"],
        })
    m = {
        "version": 1,
        "setup_cmd": "cd /verif/coq && coq_makefile -f _CoqProject -o Makefile && make -j12",
        "hooks": {"guard": "HUGR_PY_VERIF", "enable": "no hooks are needed: every observation goes through hugr-py's public API (checks export HUGR_PY_VERIF=1 for uniformity)",
                  "baseline_off_cmd": "cd /repo && /venv/bin/python -m pytest -ra -q -p no:cacheprovider --timeout=900 --continue-on-collection-errors",
                  "source_commits": [], "add_only": True},
        "engines": [{"name": "coq-correspondence", "path": "/verif/check", "serves_properties": sorted(CHECKS),
                     "kind_free_text": "Coq 8.16.1 development (coq/) with property theorems in coq/props; harness/ runs hugr-py from /repo's working tree, writes cases_*.v with inputs and observed outputs, Coq evaluates model==implementation (corr) and spec(implementation) (mon) by vm_compute"}],
        "checks": checks,
        "not_applicable": NA,
        "notes": "See DESIGN.md. Known findings: known_findings.txt.",
    }
    json.dump(m, open(os.path.join(V, "MANIFEST.json"), "w"), indent=1)
if __name__ == "__main__":
    main()
