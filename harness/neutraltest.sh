#!/bin/bash
# usage: neutraltest.sh [Cnn ...] : for every /tmp/wt/nout-Cnn/patch_nK.diff not yet tested, confirms the suite line, runs the
# property's quick check against a scratch worktree with the patch, stores it under /verif/neutral/Cnn-nK/ with the result.
cd /verif
BASE="29 failed, 180 passed, 1 skipped, 10 errors"
for P in ${@:-$(ls -d /tmp/wt/nout-C?? | sed "s/.*nout-//")}; do
  d=/tmp/wt/nout-$P
  for K in n1 n2 n3 n4 n5 n6 n7 n8; do
    [ -f $d/patch_$K.diff ] && [ -f $d/meta_$K.json ] || continue
    DEST=/verif/neutral/$P-$K
    [ -d $DEST ] && continue
    WT=/tmp/wt/neutral-$P-$K
    git -C /repo worktree add -q --detach $WT HEAD || continue
    if ! git -C $WT apply $d/patch_$K.diff; then echo "$P-$K patch does not apply"; git -C /repo worktree remove --force $WT; continue; fi
    suite=$(cd $WT && timeout 900 /venv/bin/python -m pytest -q -p no:cacheprovider --timeout=900 2>&1 | tail -1)
    case "$suite" in *"$BASE"*) ;; *) echo "$P-$K suite differs: $suite"; git -C /repo worktree remove --force $WT; continue;; esac
    cp evidence/$P.json /tmp/wt/evidence-$P.bak 2>/dev/null
    o=$(VERIF_REPO=$WT timeout 3000 ./check $P --tier quick 2>&1 | grep -E "^(VIOLATION|OK)" | head -3 | tr '\n' ' ')
    cp /tmp/wt/evidence-$P.bak evidence/$P.json 2>/dev/null
    git -C /repo worktree remove --force $WT
    mkdir -p $DEST; cp $d/patch_$K.diff $DEST/patch.diff; cp $d/meta_$K.json $DEST/meta.json; [ -f $d/show_$K.py ] && cp $d/show_$K.py $DEST/show.py
    python3 - "$DEST" "$o" "$suite" <<'PY'
import json,sys
d,o,s=sys.argv[1:4]
m=json.load(open(d+'/meta.json')); m['check_result_quick']=o; m['suite_line_with_patch']=s
json.dump(m,open(d+'/meta.json','w'),indent=1)
PY
    echo "$P-$K: $(echo $o | cut -c1-160)"
  done
done
