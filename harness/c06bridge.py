"""C06 x C05 (composition): cross-check of the two hand-written operation printers and of the composed theorems.

The SAME hugr operation object (built by C06's generator through the public constructors) is printed
  * as a literal of C05's model/CodecOps.v  by harness/c05ops.py  lit_op_obj  (+ its observed facts, facts_lit),
  * as a literal of C06's model/Ops.v       by harness/props/c06.py op_literal,
and coq/run/C06BridgeRun.v evaluates
  drift : the C06 literal is the translation [to_c06] (model/OpsBridge.v) of the C05 literal (up to Python equality
          of types and the order of extension sets); objects C05 cannot print must lie outside the translation's image
          ([c06_only]); MakeTuple / UnpackTuple / Noop (an ExtOp to C05) must have the same signature either way;
  bmon  : props/C06.v C06_codec_facts_are_specified on the implementation's answers: the facts observed through the
          public accessors are the ones spec/OpsS.v assigns to the translation of the C05 literal AND to the C06 literal.
The two properties' own monitors are evaluated on the same object as well (run.C05Run mon on the encode/decode
observation, run.C06Run mon on the signature observation).

Verdict (called from C06.extra): a failing bmon or a failing monitor is a VIOLATION with the operation as failing input;
a printer disagreement alone is recorded in the evidence (coverage.bridge.printer_drift) and is not a violation.
Both printers intern names through ONE interner while this runs (c05terms.INTERN is swapped for the duration).
"""
import os
import random
import re

import fw
from fw import gapp

EXT_CLASSES = ("MakeTuple", "UnpackTuple", "Noop")
# in coq/run/C06BridgeRun.v the unqualified constructor names are those of model/Ops.v: C05's are written qualified
C05_CTORS = re.compile(r"\b(OModule|OFuncDefn|OFuncDecl|OConst|ODataflowBlock|OExitBlock|OInput|OOutput|OCallIndirect|OCall|"
                       r"OLoadConst|OLoadFunc|ODFG|OConditional|OCase|OTailLoop|OCFG|OCustom|OExtOp|OTag|OAliasDecl|OAliasDefn)\b")


def q5(lit: str) -> str:
    return C05_CTORS.sub(r"CodecOps.\1", lit)


def op_terms(P, rng, tier):
    """Operation terms of C06's generator: corpus, random (every class at least twice), small-scope sweep, edge list."""
    from props.c06 import SCHEMA
    terms = [c["op"] for c in P.corpus(None) if c.get("kind") == "sig"]
    names = list(SCHEMA)
    n = 260 if tier == "quick" else 2600
    for i in range(n):
        op = P.rand_op(rng, depth=rng.choice([1, 2, 2, 3]))
        if i < 2 * len(names):
            while op[0] != names[i % len(names)]:
                op = P.rand_op(rng, depth=2)
        terms.append(op)
    terms += [c["op"] for c in P.small_scope(tier) if c["kind"] == "sig"]
    terms += [["Tag", 0, ["UnitSum", 0]], ["Tag", 1, ["UnitSum", 2]], ["Tag", 0, ["Sum", []]], ["Conditional", ["UnitSum", 0], [], []],
              ["Block", [], ["Sum", []], [], []], ["Block", [], ["UnitSum", 2], [["Qubit"]], ["ext.a"]], ["Input", []],
              ["TailLoop", [], [], [], []], ["TailLoop", [["Qubit"]], [["USize"]], [["USize"], ["Qubit"]], []],
              ["CallIndirect", ["F", [], [], []]], ["Some", []], ["Some", [["Qubit"], ["USize"]]]]
    seen, out = set(), []
    for t in terms:
        h = fw.case_hash(t)
        if h not in seen:
            seen.add(h)
            out.append(t)
    return out


def c05_literal(real, o5, tab, ctx):
    """C05's own case for this object (harness/props/c05.py, kind "op"): encode, through JSON, decode, re-encode."""
    import c05terms as T
    import c05ops as O
    import props.c05 as c05
    from hugr.hugr.node_port import Node
    e = T.env()
    o = {"o": o5, "f1": O.facts_lit(real), "k1": O.kinds_lit(real)}
    r = c05.guard(lambda: real._to_serial(Node(7)))
    if r[0] == "raised":
        o.update(tab=tab.lit(), raised=r[1])
    else:
        s = e["sops"].OpType(root=r[1])
        d = T.via_json(s).root.deserialize()
        o.update(raised=None, ser=O.walk_sop(s), deser=O.lit_op_obj(d, tab), reser=O.walk_sop(d._to_serial(Node(7))),
                 f2=O.facts_lit(d), k2=O.kinds_lit(d), json_ok=T.json_identity(s), tab=tab.lit())
    return c05.PROP.literal({"kind": "op"}, o, ctx)


def evaluate_terms(P, ctx, terms, tag="bridge"):
    """Prints every term's object both ways, evaluates drift / bmon and the two properties' own monitors.
    Returns (stats, rows): rows[i] = {term, kind, lit, drift, composed, c05, c06} for every object that could be built."""
    import c05terms as T
    import c05ops as O
    saved = T.INTERN
    T.INTERN = P.g.intern                      # one interner for both printers
    lits, lits5, lits6, meta = [], [], [], []
    stats = {"objects": 0, "unbuildable": 0, "expressible_in_c05": 0, "c06_only": 0, "asextop": 0, "by_class": {},
             "c05_cases": 0, "c05_unwalkable": 0}
    try:
        for t in terms:
            try:
                real = P.build_op(t)
            except Exception:                  # noqa: BLE001 -- the constructor refused: nothing to print
                stats["unbuildable"] += 1
                continue
            stats["objects"] += 1
            o6 = P.op_literal(t, real)
            tab = O.Tab()
            try:
                o5 = O.lit_op_obj(real, tab)
                f1 = O.facts_lit(real)
            except Exception as ex:            # noqa: BLE001 -- no C05 literal: an operation still to be completed
                stats["c06_only"] += 1
                lits.append(gapp("CBOnly", o6))
                meta.append({"term": t, "kind": "only", "why": type(ex).__name__, "i5": None, "i6": None})
                continue
            stats["by_class"][t[0]] = stats["by_class"].get(t[0], 0) + 1
            if t[0] in EXT_CLASSES:
                stats["asextop"] += 1
                lits.append(gapp("CBExt", tab.lit(), q5(o5), o6))
                kind = "ext"
            else:
                stats["expressible_in_c05"] += 1
                lits.append(gapp("CB", tab.lit(), q5(o5), o6, f1))
                kind = "both"
            m = {"term": t, "kind": kind, "i5": None, "i6": len(lits6)}
            # the two properties' own cases for the same object
            case6 = {"kind": "sig", "op": t}
            lits6.append(P.literal(case6, P.observe(case6, ctx), ctx))
            try:
                l5 = c05_literal(real, o5, O.Tab(), ctx)
                m["i5"] = len(lits5)
                lits5.append(l5)
            except Exception:                  # noqa: BLE001 -- C05's fail-closed walkers do not know the shape
                stats["c05_unwalkable"] += 1
            meta.append(m)
        stats["c05_cases"] = len(lits5)
        none = {"corr": [], "mon": []}
        res = fw.eval_cases(ctx.work, "run.C06BridgeRun", lits, shard=300, checks=("drift", "bmon"), tag=tag) if lits else {"drift": [], "bmon": []}
        res5 = fw.eval_cases(ctx.work, "run.C05Run", lits5, shard=150, checks=("corr", "mon"), tag=tag + "5") if lits5 else none
        res6 = fw.eval_cases(ctx.work, "run.C06Run", lits6, shard=300, checks=("corr", "mon"), tag=tag + "6") if lits6 else none
    finally:
        T.INTERN = saved
    drift, bmon = set(res["drift"]), set(res["bmon"])
    mon5, mon6 = set(res5["mon"]), set(res6["mon"])
    rows = []
    for i, m in enumerate(meta):
        rows.append({"term": m["term"], "kind": m["kind"], "why": m.get("why"), "lit": lits[i], "drift": i in drift, "composed": i in bmon,
                     "c05": m["i5"] is not None and m["i5"] in mon5, "c06": m["i6"] is not None and m["i6"] in mon6})
    stats.update(drift_checked=len(lits), bridge_monitor_failures=len(bmon), c05_monitor_failures=len(mon5),
                 c06_monitor_failures=len(mon6), c05_corr_failures=len(res5["corr"]), c06_corr_failures=len(res6["corr"]))
    return stats, rows


def failing(r):
    return "+".join(w for w, f in (("composed", r["composed"]), ("c05-monitor", r["c05"]), ("c06-monitor", r["c06"])) if f)


def shrink_term(P, ctx, row, rounds=10):
    """Greedy shrinking of a failing operation term with C06's own shrinker (same failure kind kept)."""
    cur, what = row, failing(row)
    for r in range(rounds):
        cands = [c["op"] for c in P.shrink({"kind": "sig", "op": cur["term"]})][:60]
        if not cands:
            break
        try:
            _, rows = evaluate_terms(P, ctx, cands, tag="bshrink%d" % r)
        except Exception:                      # noqa: BLE001
            break
        nxt = next((x for x in rows if failing(x) == what), None)
        if nxt is None:
            break
        cur = nxt
    return cur


def extra(P, ctx, tier, only_terms=None):
    ok, log = fw.coq_build(["run/C06BridgeRun.vo", "run/C05Run.vo"], jobs=int(os.environ.get("VERIF_JOBS", "6")))
    if not ok:
        return [("bridge-build", "coq/run/C06BridgeRun.v (or run/C05Run.v) does not build", {"log": log[-1500:]})]
    bad = fw.forbidden_gate(fw.coq_closure("run/C06BridgeRun.v"))
    if bad:
        return [("bridge-forbidden", "forbidden construct in the closure of run/C06BridgeRun.v", {"where": bad[:5]})]
    rng = random.Random(ctx.seed * 1000003 + 60605)
    terms = op_terms(P, rng, tier) if only_terms is None else only_terms
    stats, rows = evaluate_terms(P, ctx, terms)
    out, drift_only, seen = [], [], set()
    for r in rows:
        what = failing(r)
        if what:
            sig = "ops:bridge:%s:%s" % (what, r["term"][0])
            if sig in seen or len(out) >= 4:
                continue
            seen.add(sig)
            small = shrink_term(P, ctx, r) if only_terms is None else r
            out.append(("bridge-" + what, "the facts the implementation reports for this operation are not the ones the "
                        "specification assigns (composition C05 x C06; %s%s)" % (what, "; the printers disagree too" if small["drift"] else ""),
                        {"failing_input": small["term"], "signature": sig, "literal": small["lit"][:1500],
                         "replay_cmd": "PYTHONHASHSEED=0 PYTHONPATH=<repo>/hugr-py/src /venv/bin/python harness/c06bridge.py <this file>"}))
        elif r["drift"]:
            drift_only.append({"term": r["term"], "kind": r["kind"], "why": r["why"]})
    stats.update(printer_drift=len(drift_only), printer_drift_examples=drift_only[:10])
    ctx.stats["bridge"] = stats
    if drift_only:
        ctx.notes.append("printer drift (C05 literal vs C06 literal of the same operation object, no monitor failing): %d of %d objects"
                         % (len(drift_only), len(rows)))
    return out


def main():
    """Replay of a bridge violation file (or of a JSON operation term given literally): re-evaluates that one operation."""
    import json
    import shutil
    import sys
    import tempfile
    import importlib
    sys.path.insert(0, os.path.dirname(os.path.abspath(__file__)))
    from main import Ctx
    arg = sys.argv[1]
    d = json.load(open(arg)) if os.path.exists(arg) else {"detail": {"failing_input": json.loads(arg)}}
    term = d["detail"]["failing_input"]
    os.makedirs(fw.WORK_ROOT, exist_ok=True)
    work = tempfile.mkdtemp(prefix="C06-bridge-", dir=fw.WORK_ROOT)
    try:
        ctx = Ctx("C06", "quick", 0, work)
        P = importlib.import_module("props.c06").PROP
        out = extra(P, ctx, "quick", only_terms=[term])
        print(json.dumps({"term": term, "bridge": {k: v for k, v in ctx.stats["bridge"].items() if k != "by_class"}}, default=repr))
        for kind, desc, detail in out:
            print("VIOLATION property=C06 replay=%s (%s)" % (arg, kind))
        sys.exit(1 if out else 0)
    finally:
        shutil.rmtree(work, ignore_errors=True)


if __name__ == "__main__":
    main()
