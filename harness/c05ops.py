"""C05 helper: abstract terms for constant values and operations, construction with the public
constructors, walkers (API objects and pydantic serial models -> Gallina literals of model/CodecVals.v and
model/CodecOps.v), observation of derived facts, generators.

values: ["VSum", tag, sumtype, vals] ["VUnitSum", tag, n] ["VSome", vals] ["VNone", tys] ["VLeft", vals, rt]
        ["VRight", lt, vals] ["VTuple", vals] ["VTrue"] ["VFalse"] ["VUnit"] ["VFunc", k] ["VExt", name, ty, json, exts]
        ["VInt", v, w] ["VFloat", x] ["VString", s] ["VList", vals, ty] ["VArray", vals, ty] ["VStaticArray", vals, ty, name]
ops:    ["Module"] ["FuncDefn", name, i, params, o] ["FuncDecl", name, poly] ["Const", v]
        ["DataflowBlock", i, sum, other, delta] ["ExitBlock", o] ["Input", l] ["Output", l] ["Call", poly, inst, targs]
        ["CallIndirect", f] ["LoadConst", t] ["LoadFunc", poly, inst, targs] ["DFG", i, o, delta] ["Conditional", sum, oi, o]
        ["Case", i, o] ["TailLoop", ji, rest, jo, delta] ["CFG", i, o] ["Custom", name, f, descr, ext, args]
        ["ExtOp", defname, f|None, args] ["MakeTuple", l] ["UnpackTuple", l] ["Noop", t] ["Tag", tag, sum]
        ["AliasDecl", name, b] ["AliasDefn", name, t]
tag sugar: ["Some", l] ["Right", l, r] ["Left", l, r] ["Continue", l, r] ["Break", l, r]
"""
from __future__ import annotations

import json

import fw
from fw import gN, gnat, gbool, glist, gopt, gapp, gpair
import c05terms as T
from c05terms import WalkError, env, gname, gnames, gbound, fields

_oenv = {}


def oenv():
    if _oenv:
        return _oenv
    e = env()
    tys, ext = e["tys"], e["ext"]
    x = e["extension"]
    A = e["A"]
    q = tys.Qubit
    defs = {
        "OpMono": ext.OpDef("OpMono", ext.OpDefSig(tys.FunctionType([q, tys.Bool], [q])), "a monomorphic operation"),
        "OpPoly": ext.OpDef("OpPoly", ext.OpDefSig(tys.PolyFuncType([tys.TypeTypeParam(A)],
                            tys.FunctionType([tys.Variable(0, A)], [tys.Variable(0, A), tys.Bool]))), "polymorphic"),
        "OpBin": ext.OpDef("OpBin", ext.OpDefSig(None, binary=True), "signature computed elsewhere"),
        "OpNoDescr": ext.OpDef("OpNoDescr", ext.OpDefSig(tys.FunctionType([], [e["defs"]["Tp0"].instantiate([q.type_arg()])]))),
    }
    for k in list(defs):
        defs[k] = x.add_op_def(defs[k]) or defs[k]
    _oenv.update(opdefs=defs)
    return _oenv


# ----------------------------------------------------------------------------- function payloads


def sort_edge_lists(x):
    """A parsed JSON value with the `edges` array of every HUGR document inside it (the value itself, documents
    embedded in function constants, at any depth) put in one fixed order: the property promises every edge, not
    its place in the array, so documents are compared with their edges taken as a multiset."""
    if isinstance(x, dict):
        y = {k: sort_edge_lists(v) for k, v in x.items()}
        if isinstance(y.get("nodes"), list) and isinstance(y.get("edges"), list):
            y["edges"] = sorted(y["edges"], key=lambda e: json.dumps(e, sort_keys=True))
        return y
    if isinstance(x, list):
        return [sort_edge_lists(v) for v in x]
    return x


def _canon_hugr_dict(h):
    """Embedded HUGR (SerialHugr instance or JSON dict) as a plain dict with every default filled in by the
    serial models, recursively through function constants nested inside; encoder name dropped; the edge list
    of every document in a fixed order (multiset comparison: C05 promises no order of `edges`)."""
    from hugr._serialization.serial_hugr import SerialHugr
    if isinstance(h, dict):
        h = SerialHugr.load_json(h)
    d = json.loads(h.model_dump_json())
    d.pop("encoder", None)

    def walk(x):
        if isinstance(x, dict):
            if x.get("v") == "Function" and "hugr" in x:
                return {**x, "hugr": _canon_hugr_dict(x["hugr"])}
            return {k: walk(v) for k, v in x.items()}
        if isinstance(x, list):
            return [walk(v) for v in x]
        return x
    return sort_edge_lists(walk(d))


def canon_hugr_json(h) -> str:
    return json.dumps(_canon_hugr_dict(h), sort_keys=True)


_payloads = {}


def payload_hugr(k: int):
    """A few small HUGRs usable as function constants (fresh object each time)."""
    from hugr.build.dfg import Dfg
    e = env()
    tys, val, ops = e["tys"], e["val"], e["ops"]
    if k == 0:
        d = Dfg(tys.Bool)
        d.set_outputs(*d.inputs())
    elif k == 1:
        d = Dfg(tys.Qubit, tys.Tuple(tys.Bool, tys.USize()))
        a, b = d.inputs()
        d.set_outputs(b, a)
    elif k == 2:
        d = Dfg()
        c = d.load(val.Tuple(val.TRUE, val.Some(val.FALSE)))
        d.set_outputs(c)
    elif k == 3:                                   # nested function constant + extension type + metadata
        d = Dfg(e["defs"]["Tp0"].instantiate([tys.Qubit.type_arg()]))
        f = d.load(val.Function(payload_hugr(0)))
        n = d.add_op(ops.Noop(), d.inputs()[0])
        d.hugr[n].metadata["k"] = [1, None]
        d.set_outputs(n, f)
    else:
        raise AssertionError(k)
    return d.hugr


# ----------------------------------------------------------------------------- construction


def build_val(v):
    e = env()
    val, tys = e["val"], e["tys"]
    k = v[0]
    bl = lambda l: [build_val(x) for x in l]
    if k == "VSum":
        return val.Sum(v[1], T.build_ty(v[2]), bl(v[3]))
    if k == "VUnitSum":
        return val.UnitSum(v[1], v[2])
    if k == "VSome":
        return val.Some(*bl(v[1]))
    if k == "VNone":
        return val.None_(*T.build_row(v[1]))
    if k == "VLeft":
        return val.Left(T.as_iterable(bl(v[1])), T.as_iterable(T.build_row(v[2])))
    if k == "VRight":
        return val.Right(T.as_iterable(T.build_row(v[1])), T.as_iterable(bl(v[2])))
    if k == "VTuple":
        return val.Tuple(*bl(v[1]))
    if k == "VTrue":
        return val.TRUE
    if k == "VFalse":
        return val.FALSE
    if k == "VUnit":
        return val.Unit
    if k == "VFunc":
        return val.Function(payload_hugr(v[1]))
    if k == "VExt":
        return val.Extension(v[1], T.build_ty(v[2]), json.loads(v[3]), list(v[4]))
    if k == "VInt":
        return e["IntVal"](v[1], v[2])
    if k == "VFloat":
        return e["FloatVal"](v[1])
    if k == "VString":
        return e["StringVal"](v[1])
    if k == "VList":
        return e["ListVal"](bl(v[1]), T.build_ty(v[2]))
    if k == "VArray":
        return e["ArrayVal"](bl(v[1]), T.build_ty(v[2]))
    if k == "VStaticArray":
        return e["StaticArrayVal"](bl(v[1]), T.build_ty(v[2]), v[3])
    raise AssertionError(v)


def build_op(o):
    e = env()
    ops, tys = e["ops"], e["tys"]
    k = o[0]
    R = T.build_row
    if k == "Module":
        return ops.Module()
    if k == "FuncDefn":
        return ops.FuncDefn(o[1], R(o[2]), [T.build_param(p) for p in o[3]], R(o[4]))
    if k == "FuncDecl":
        return ops.FuncDecl(o[1], T.build_poly(o[2]))
    if k == "Const":
        return ops.Const(build_val(o[1]))
    if k == "DataflowBlock":
        return ops.DataflowBlock(R(o[1]), T.build_ty(o[2]), R(o[3]), list(o[4]))
    if k == "ExitBlock":
        return ops.ExitBlock(R(o[1]))
    if k == "Input":
        return ops.Input(R(o[1]))
    if k == "Output":
        return ops.Output(R(o[1]))
    if k in ("Call", "LoadFunc"):
        cls = ops.Call if k == "Call" else ops.LoadFunc
        return cls(T.build_poly(o[1]), None if o[2] is None else T.build_func(o[2]),
                   None if o[3] is None else [T.build_arg(a) for a in o[3]])
    if k == "CallIndirect":
        return ops.CallIndirect(T.build_func(o[1]))
    if k == "LoadConst":
        return ops.LoadConst(T.build_ty(o[1]))
    if k == "DFG":
        return ops.DFG(R(o[1]), R(o[2]), list(o[3]))
    if k == "Conditional":
        return ops.Conditional(T.build_ty(o[1]), R(o[2]), R(o[3]))
    if k == "Case":
        return ops.Case(R(o[1]), R(o[2]))
    if k == "TailLoop":
        return ops.TailLoop(R(o[1]), R(o[2]), R(o[3]), list(o[4]))
    if k == "CFG":
        return ops.CFG(R(o[1]), R(o[2]))
    if k == "Custom":
        return ops.Custom(o[1], T.build_func(o[2]), o[3], o[4], [T.build_arg(a) for a in o[5]])
    if k == "ExtOp":
        return ops.ExtOp(oenv()["opdefs"][o[1]], None if o[2] is None else T.build_func(o[2]),
                         [T.build_arg(a) for a in o[3]])
    if k == "MakeTuple":
        return ops.MakeTuple(R(o[1]))
    if k == "UnpackTuple":
        return ops.UnpackTuple(R(o[1]))
    if k == "Noop":
        return ops.Noop(T.build_ty(o[1]))
    if k == "Tag":
        return ops.Tag(o[1], T.build_ty(o[2]))
    if k == "AliasDecl":
        return ops.AliasDecl(o[1], T.pybound(o[2]))
    if k == "AliasDefn":
        return ops.AliasDefn(o[1], T.build_ty(o[2]))
    raise AssertionError(o)


def build_tagsugar(s):
    e = env()
    ops, tys = e["ops"], e["tys"]
    k = s[0]
    if k == "Some":
        return ops.Some(*T.build_row(s[1])), ops.Tag(1, tys.Sum([[], T.build_row(s[1])]))
    either = tys.Either(T.build_row(s[1]), T.build_row(s[2]))
    gen = tys.Sum([T.build_row(s[1]), T.build_row(s[2])])
    cls, tag = {"Right": (ops.Right, 1), "Left": (ops.Left, 0), "Continue": (ops.Continue, 0), "Break": (ops.Break, 1)}[k]
    return cls(either), ops.Tag(tag, gen)


# ----------------------------------------------------------------------------- walkers: API objects


class Tab:
    """Type table of the function payloads met while walking values."""

    def __init__(self):
        self.tab = {}

    def add(self, body) -> int:
        pid = T.INTERN("hugr:" + canon_hugr_json(body._to_serial()))
        try:
            sig = body.root_op().inner_signature()
            self.tab[pid] = T.lit_func_obj(sig)
        except WalkError:
            raise
        except Exception:
            pass
        return pid

    def lit(self) -> str:
        return glist(gpair(gN(k), v) for k, v in sorted(self.tab.items()))


def payload_json(name, v) -> str:
    sops = env()["sops"]
    d = json.loads(sops.CustomConst(c=name, v=v).model_dump_json())
    return json.dumps(d["v"], sort_keys=True)


def lit_val_obj(v, tab: Tab) -> str:
    e = env()
    val = e["val"]
    c = type(v)
    if c is val.Tuple:
        return gapp("VTuple", glist(lit_val_obj(x, tab) for x in v.vals))
    if c in (val.Sum, val.UnitSum, val.Some, val.None_, val.Left, val.Right):
        return gapp("VSum", gN(v.tag), T.lit_ty_obj(v.typ), glist(lit_val_obj(x, tab) for x in v.vals))
    if c is val.Function:
        return gapp("VFunction", gN(tab.add(v.body)))
    if c is val.Extension:
        return gapp("VExtension", gname(v.name), T.lit_ty_obj(v.typ), gN(T.INTERN("json:" + payload_json(v.name, v.val))),
                    gnames(v.extensions))
    if hasattr(v, "to_value") and c in (e["IntVal"], e["FloatVal"], e["StringVal"], e["ListVal"], e["ArrayVal"],
                                       e["StaticArrayVal"]):
        return lit_val_obj(v.to_value(), tab)               # ExtensionValue protocol: _to_serial goes through to_value()
    raise WalkError("value of class " + c.__name__)


def lit_opdef(d) -> str:
    pf = d.signature.poly_func
    return "{| od_ext := %s; od_name := %s; od_descr := %s; od_poly := %s |}" % (
        gname(d._extension.name if d._extension else ""), gname(d.name), gname(d.description),
        gopt(None if pf is None else T.lit_poly_obj(pf)))


def lit_op_obj(o, tab: Tab) -> str:
    e = env()
    ops = e["ops"]
    c = type(o)
    R = T.lit_row_obj
    A = lambda l: glist(T.lit_arg_obj(a) for a in l)
    if c is ops.Module:
        return "OModule"
    if c is ops.FuncDefn:
        return gapp("OFuncDefn", gname(o.f_name), R(o.inputs), glist(T.lit_param_obj(p) for p in o.params), R(o.outputs))
    if c is ops.FuncDecl:
        return gapp("OFuncDecl", gname(o.f_name), T.lit_poly_obj(o.signature))
    if c is ops.Const:
        return gapp("OConst", lit_val_obj(o.val, tab))
    if c is ops.DataflowBlock:
        return gapp("ODataflowBlock", R(o.inputs), T.lit_ty_obj(o.sum_ty), R(o.other_outputs), gnames(o.extension_delta))
    if c is ops.ExitBlock:
        return gapp("OExitBlock", R(o.cfg_outputs))
    if c is ops.Input:
        return gapp("OInput", R(o.types))
    if c is ops.Output:
        return gapp("OOutput", R(o.types))
    if c in (ops.Call, ops.LoadFunc):
        return gapp("OCall" if c is ops.Call else "OLoadFunc", T.lit_poly_obj(o.signature), T.lit_func_obj(o.instantiation),
                    A(o.type_args))
    if c is ops.CallIndirect:
        return gapp("OCallIndirect", T.lit_func_obj(o.signature))
    if c is ops.LoadConst:
        return gapp("OLoadConst", T.lit_ty_obj(o.type_))
    if c is ops.DFG:
        return gapp("ODFG", R(o.inputs), R(o.outputs), gnames(o._extension_delta))
    if c is ops.Conditional:
        return gapp("OConditional", T.lit_ty_obj(o.sum_ty), R(o.other_inputs), R(o.outputs))
    if c is ops.Case:
        return gapp("OCase", R(o.inputs), R(o.outputs))
    if c is ops.TailLoop:
        return gapp("OTailLoop", R(o.just_inputs), R(o.rest), R(o.just_outputs), gnames(o.extension_delta))
    if c is ops.CFG:
        return gapp("OCFG", R(o.inputs), R(o.outputs))
    if c is ops.Custom:
        return gapp("OCustom", gname(o.op_name), T.lit_func_obj(o.signature), gname(o.description), gname(o.extension),
                    A(o.args))
    if c in (ops.Tag, ops.Some, ops.Left, ops.Right, ops.Continue, ops.Break):
        return gapp("OTag", gN(o.tag), T.lit_ty_obj(o.sum_ty))
    if c is ops.AliasDecl:
        return gapp("OAliasDecl", gname(o.alias), gbound(o.bound))
    if c is ops.AliasDefn:
        return gapp("OAliasDefn", gname(o.alias), T.lit_ty_obj(o.definition))
    if isinstance(o, ops.AsExtOp):
        # an ExtOp encodes itself; every other AsExtOp encodes through the ExtOp its definition instantiates
        x = o if c is ops.ExtOp else o.ext_op
        return gapp("OExtOp", lit_opdef(x._op_def), gopt(None if x.signature is None else T.lit_func_obj(x.signature)),
                    A(x.args))
    raise WalkError("operation of class " + c.__name__)


# ----------------------------------------------------------------------------- walkers: serial models


def walk_svalue(s) -> str:
    sops = env()["sops"]
    if type(s) is sops.Value:
        s = s.root
    c = type(s)
    if c is sops.CustomValue:
        fields(s, "v", "extensions", "typ", "value")
        fields(s.value, "c", "v")
        return gapp("SVCustom", gnames(s.extensions), T.walk_sty(s.typ), gname(s.value.c),
                    gN(T.INTERN("json:" + payload_json(s.value.c, s.value.v))))
    if c is sops.FunctionValue:
        fields(s, "v", "hugr")
        return gapp("SVFunction", gN(T.INTERN("hugr:" + canon_hugr_json(s.hugr))))
    if c is sops.TupleValue:
        fields(s, "v", "vs")
        return gapp("SVTuple", glist(walk_svalue(x) for x in s.vs))
    if c is sops.SumValue:
        fields(s, "v", "tag", "typ", "vs")
        return gapp("SVSum", gN(s.tag), T.walk_sty(s.typ), glist(walk_svalue(x) for x in s.vs))
    raise WalkError("serial value " + c.__name__)


def walk_sop(s) -> str:
    sops = env()["sops"]
    if type(s) is sops.OpType:
        s = s.root
    c = type(s)
    P = gN(s.parent)
    R = T.walk_srow
    RR = lambda rows: glist(R(r) for r in rows)
    A = lambda l: glist(T.walk_sarg(a) for a in l)
    if c is sops.Module:
        fields(s, "parent", "op")
        return gapp("SModule", P)
    if c in (sops.FuncDefn, sops.FuncDecl):
        fields(s, "parent", "op", "name", "signature")
        return gapp("SFuncDefn" if c is sops.FuncDefn else "SFuncDecl", P, gname(s.name), T.walk_spoly(s.signature))
    if c is sops.Const:
        fields(s, "parent", "op", "v")
        return gapp("SConst", P, walk_svalue(s.v))
    if c is sops.DataflowBlock:
        fields(s, "parent", "op", "inputs", "other_outputs", "sum_rows", "extension_delta")
        return gapp("SDataflowBlock", P, R(s.inputs), R(s.other_outputs), RR(s.sum_rows), gnames(s.extension_delta))
    if c is sops.ExitBlock:
        fields(s, "parent", "op", "cfg_outputs")
        return gapp("SExitBlock", P, R(s.cfg_outputs))
    if c in (sops.Input, sops.Output):
        fields(s, "parent", "op", "types")
        return gapp("SInput" if c is sops.Input else "SOutput", P, R(s.types))
    if c in (sops.Call, sops.LoadFunction):
        fields(s, "parent", "op", "func_sig", "type_args", "instantiation")
        return gapp("SCall" if c is sops.Call else "SLoadFunction", P, T.walk_spoly(s.func_sig), A(s.type_args),
                    T.walk_sfunc(s.instantiation))
    if c in (sops.CallIndirect, sops.DFG, sops.Case, sops.CFG):
        fields(s, "parent", "op", "signature")
        return gapp({sops.CallIndirect: "SCallIndirect", sops.DFG: "SDFG", sops.Case: "SCase", sops.CFG: "SCFG"}[c], P,
                    T.walk_sfunc(s.signature))
    if c is sops.LoadConstant:
        fields(s, "parent", "op", "datatype")
        return gapp("SLoadConstant", P, T.walk_sty(s.datatype))
    if c is sops.Conditional:
        fields(s, "parent", "op", "other_inputs", "outputs", "sum_rows", "extension_delta")
        return gapp("SConditional", P, R(s.other_inputs), R(s.outputs), RR(s.sum_rows), gnames(s.extension_delta))
    if c is sops.TailLoop:
        fields(s, "parent", "op", "just_inputs", "just_outputs", "rest", "extension_delta")
        return gapp("STailLoop", P, R(s.just_inputs), R(s.just_outputs), R(s.rest), gnames(s.extension_delta))
    if c is sops.ExtensionOp:
        fields(s, "parent", "op", "extension", "name", "signature", "description", "args")
        return gapp("SExtensionOp", P, gname(s.extension), gname(s.name), T.walk_sfunc(s.signature), gname(s.description),
                    A(s.args))
    if c is sops.Tag:
        fields(s, "parent", "op", "tag", "variants")
        return gapp("STag", P, gN(s.tag), RR(s.variants))
    if c is sops.AliasDecl:
        fields(s, "parent", "op", "name", "bound")
        return gapp("SAliasDecl", P, gname(s.name), gbound(s.bound))
    if c is sops.AliasDefn:
        fields(s, "parent", "op", "name", "definition")
        return gapp("SAliasDefn", P, gname(s.name), T.walk_sty(s.definition))
    raise WalkError("serial operation " + c.__name__)


# ----------------------------------------------------------------------------- derived facts


def _sig_lit(f):
    try:
        s = f()
    except WalkError:
        raise
    except Exception:
        return "None"
    return gopt(gpair(glist(T.walk_sty(t._to_serial_root()) for t in s.input),
                      glist(T.walk_sty(t._to_serial_root()) for t in s.output)))


def _poly_static(p):
    s = p.body._to_serial()
    return gapp("SFunctionType", T.walk_srow(s.input), T.walk_srow(s.output), gnames(s.runtime_reqs))


def facts_lit(o) -> str:
    """num_out, outer / inner signature rows and the type on the static port, through the public accessors."""
    e = env()
    ops, tys = e["ops"], e["tys"]
    from hugr.hugr.node_port import InPort, OutPort, Node
    n = Node(0)
    outer = _sig_lit(o.outer_signature) if hasattr(o, "outer_signature") else "None"
    if isinstance(o, ops.Call):                              # not a DataflowOp: its value ports follow the instantiation
        outer = _sig_lit(lambda: o.instantiation)
    inner = _sig_lit(o.inner_signature) if hasattr(o, "inner_signature") else "None"
    try:
        num_out = gopt(gN(o.num_out))
    except Exception:
        num_out = "None"
    static = "None"
    try:
        if isinstance(o, ops.Const | ops.FuncDefn | ops.FuncDecl):
            k = o.port_kind(OutPort(n, 0))
        elif isinstance(o, ops.Call):
            k = o.port_kind(InPort(n, o._function_port_offset()))
        elif isinstance(o, ops.LoadConst | ops.LoadFunc):
            k = o.port_kind(InPort(n, 0))
        else:
            k = None
        if k is not None:
            if isinstance(k, tys.FunctionKind):
                static = gopt(_poly_static(k.ty))
            else:
                static = gopt(T.walk_sty(k.ty._to_serial_root()))
    except WalkError:
        raise
    except Exception:
        static = "None"
    return "{| f_outer := %s; f_inner := %s; f_num_out := %s; f_static := %s |}" % (outer, inner, num_out, static)


def _canon_json_ty(d):
    if isinstance(d, dict):
        if d.get("t") == "Sum" and d.get("s") == "Unit":
            return {"t": "Sum", "s": "General", "rows": [[] for _ in range(d["size"])]}
        return {k: _canon_json_ty(v) for k, v in d.items()}
    if isinstance(d, list):
        return [_canon_json_ty(x) for x in d]
    return d


def kinds_lit(o) -> str:
    """port_kind at offsets -1..4 in both directions: kind class + encoded type (up to Python equality)."""
    tys = env()["tys"]
    from hugr.hugr.node_port import InPort, OutPort, Node
    n = Node(0)
    out = []
    for mk in (InPort, OutPort):
        for off in range(-1, 5):
            try:
                k = o.port_kind(mk(n, off))
                t = getattr(k, "ty", None)
                if t is None:
                    d = type(k).__name__
                else:
                    ser = t._to_serial() if isinstance(t, tys.PolyFuncType) else t._to_serial_root()
                    d = type(k).__name__ + ":" + json.dumps(_canon_json_ty(json.loads(ser.model_dump_json())), sort_keys=True)
            except Exception as ex:
                d = "raises:" + type(ex).__name__
            out.append(gN(T.INTERN("kind:" + d)))
    return glist(out)


# ----------------------------------------------------------------------------- generators


def gen_sumty(rng, d):
    r = rng.random()
    if r < 0.3:
        return ["UnitSum", rng.choice([1, 2, 2, 3])]
    if r < 0.7:
        return ["Sum", [T.gen_row(rng, d) for _ in range(rng.choice([1, 2, 2, 3]))]]
    if r < 0.8:
        return ["Option", T.gen_row(rng, d)]
    if r < 0.9:
        return ["Either", T.gen_row(rng, d), T.gen_row(rng, d)]
    return ["Tuple", T.gen_row(rng, d)]


JSONS = ['{"a": [1, null, {"b": "x"}]}', "3", '"s"', "[]", "null", '{"value": 1.5}', '{"é": [true, false]}']


def gen_val(rng, d=2):
    r = rng.random()
    if d <= 0 or r < 0.3:
        return rng.choice([["VTrue"], ["VFalse"], ["VUnit"], ["VUnitSum", rng.choice([0, 1, 2]), 3], ["VInt", rng.choice([0, 7, 2 ** 20]), rng.choice([3, 5, 6])],
                           ["VFloat", rng.choice([0.5, -2.0, 1e300])], ["VString", rng.choice(T.NAMES)], ["VTuple", []],
                           ["VNone", T.gen_row(rng, 1)], ["VFunc", rng.choice([0, 1, 2, 3])],
                           ["VExt", rng.choice(T.NAMES), T.gen_ty(rng, 1), rng.choice(JSONS), T.gen_reqs(rng)]])
    d -= 1
    vals = lambda: [gen_val(rng, d) for _ in range(rng.choice([0, 1, 2, 3]))]
    if r < 0.45:
        # a general sum whose selected row has the right length (types of the values are not checked by the codec)
        vs = vals()
        rows = [T.gen_row(rng, 1) for _ in range(rng.choice([0, 1, 2]))]
        tag = rng.randint(0, len(rows))
        rows.insert(tag, [["Qubit"]] * len(vs) if rng.random() < 0.3 else T.gen_row(rng, 1, len(vs), len(vs)))
        return ["VSum", tag, ["Sum", rows], vs]
    if r < 0.55:
        return ["VTuple", vals()]
    if r < 0.62:
        return ["VSome", vals()]
    if r < 0.69:
        return ["VLeft", vals(), T.gen_row(rng, 1)]
    if r < 0.76:
        return ["VRight", T.gen_row(rng, 1), vals()]
    if r < 0.84:
        return ["VExt", rng.choice(T.NAMES), T.gen_ty(rng, 2), rng.choice(JSONS), T.gen_reqs(rng)]
    if r < 0.90:
        return ["VList", vals(), T.gen_ty(rng, 1)]
    if r < 0.95:
        return ["VArray", vals(), T.gen_ty(rng, 1)]
    return ["VStaticArray", vals(), T.gen_copyable(rng, 1), rng.choice(["arr", ""])]


def gen_func(rng, d):
    return [T.gen_row(rng, d), T.gen_row(rng, d), T.gen_reqs(rng)]


def gen_poly(rng, d, poly=None):
    n = rng.choice([0, 0, 1, 2]) if poly is None else (rng.choice([1, 2]) if poly else 0)
    return [[T.gen_param(rng, 1) for _ in range(n)], gen_func(rng, d)]


def gen_call(rng, kind, d):
    p = gen_poly(rng, d)
    if p[0]:
        return [kind, p, gen_func(rng, d), [T.gen_arg(rng, d) for _ in p[0]]]
    r = rng.random()
    # monomorphic: instantiation / type arguments are ignored by the constructor
    return [kind, p, None if r < 0.5 else gen_func(rng, d), None if r < 0.7 else [T.gen_arg(rng, 1)]]


OP_KINDS = ["Module", "FuncDefn", "FuncDecl", "Const", "DataflowBlock", "ExitBlock", "Input", "Output", "Call", "CallIndirect",
            "LoadConst", "LoadFunc", "DFG", "Conditional", "Case", "TailLoop", "CFG", "Custom", "ExtOp", "MakeTuple", "UnpackTuple",
            "Noop", "Tag", "AliasDecl", "AliasDefn"]


def gen_op(rng, kind=None, d=2):
    k = kind or rng.choice(OP_KINDS)
    R = lambda: T.gen_row(rng, d)
    if k == "Module":
        return ["Module"]
    if k == "FuncDefn":
        return ["FuncDefn", rng.choice(T.NAMES + ["main"]), R(), [T.gen_param(rng, 2) for _ in range(rng.choice([0, 0, 1, 2, 3]))], R()]
    if k == "FuncDecl":
        return ["FuncDecl", rng.choice(T.NAMES + ["f"]), gen_poly(rng, d)]
    if k == "Const":
        return ["Const", gen_val(rng, 2)]
    if k == "DataflowBlock":
        return ["DataflowBlock", R(), gen_sumty(rng, d), R(), T.gen_reqs(rng)]
    if k in ("ExitBlock", "Input", "Output", "MakeTuple", "UnpackTuple"):
        return [k, R()]
    if k in ("Call", "LoadFunc"):
        return gen_call(rng, k, d)
    if k == "CallIndirect":
        return ["CallIndirect", gen_func(rng, d)]
    if k in ("LoadConst", "Noop"):
        return [k, T.gen_ty(rng, d)]
    if k == "DFG":
        return ["DFG", R(), R(), T.gen_reqs(rng)]
    if k == "Conditional":
        return ["Conditional", gen_sumty(rng, d), R(), R()]
    if k in ("Case", "CFG"):
        return [k, R(), R()]
    if k == "TailLoop":
        return ["TailLoop", R(), R(), R(), T.gen_reqs(rng)]
    if k == "Custom":
        return ["Custom", rng.choice(T.NAMES + ["op"]), gen_func(rng, d), rng.choice(["", "", "does things", "é\n"]),
                rng.choice(T.NAMES), [T.gen_arg(rng, d) for _ in range(rng.choice([0, 0, 1, 2]))]]
    if k == "ExtOp":
        name = rng.choice(["OpMono", "OpPoly", "OpBin", "OpNoDescr"])
        sig = None if (name in ("OpMono", "OpNoDescr") and rng.random() < 0.5) else gen_func(rng, d)
        return ["ExtOp", name, sig, [T.gen_arg(rng, d) for _ in range(rng.choice([0, 1, 2]))]]
    if k == "Tag":
        s = gen_sumty(rng, d)
        n = len(json.dumps(s))                     # any in-range tag, sometimes out of range (nothing checks it)
        return ["Tag", rng.choice([0, 0, 1, 2, n % 3]), s]
    if k == "AliasDecl":
        return ["AliasDecl", rng.choice(T.NAMES), T.gen_bound(rng)]
    if k == "AliasDefn":
        return ["AliasDefn", rng.choice(T.NAMES), T.gen_ty(rng, d)]
    raise AssertionError(k)


def gen_tagsugar(rng, d=1):
    k = rng.choice(["Some", "Right", "Left", "Continue", "Break"])
    if k == "Some":
        return ["Some", T.gen_row(rng, d)]
    return [k, T.gen_row(rng, d), T.gen_row(rng, d)]


# ---- foreign serial operations: library encodings rewritten the way another encoder might write them ----

DEFAULTS = {"DataflowBlock": {"inputs": [], "other_outputs": [], "extension_delta": []},
            "Input": {"types": []}, "Output": {"types": []},
            "Conditional": {"other_inputs": [], "outputs": [], "sum_rows": [], "extension_delta": []},
            "TailLoop": {"just_inputs": [], "just_outputs": [], "rest": [], "extension_delta": []},
            "Extension": {"description": "", "args": []}}


def foreignise(rng, j):
    """Rewrites a JSON value: permuted keys, defaulted fields omitted, runtime_reqs omitted when empty."""
    if isinstance(j, list):
        return [foreignise(rng, x) for x in j]
    if not isinstance(j, dict):
        return j
    d = {k: foreignise(rng, v) for k, v in j.items()}
    for k, dv in DEFAULTS.get(d.get("op"), {}).items():
        if d.get(k) == dv and rng.random() < 0.7:
            del d[k]
    if d.get("t") == "G" and d.get("runtime_reqs") == [] and rng.random() < 0.7:
        del d["runtime_reqs"]
    if "body" in d and "params" in d and isinstance(d["body"], dict):
        pass
    return T.shuffle_keys(rng, d)


def gen_jop(rng):
    """JSON of a serial operation not produced by this library (but schema-valid)."""
    for _ in range(50):
        o = gen_op(rng, d=1)
        try:
            s = build_op(o)._to_serial(__import__("hugr").hugr.node_port.Node(rng.choice([0, 3])))
            j = json.loads(s.model_dump_json())
        except Exception:
            continue
        # fields this library never writes
        if j["op"] == "Conditional" and rng.random() < 0.5:
            j["extension_delta"] = T.gen_reqs(rng)
        if j["op"] in ("Case", "CFG") and rng.random() < 0.5:
            j["signature"]["runtime_reqs"] = T.gen_reqs(rng)
        if j["op"] == "FuncDefn" and rng.random() < 0.5:
            j["signature"]["body"]["runtime_reqs"] = T.gen_reqs(rng)
        if rng.random() < 0.3:
            j["input_extensions"] = None               # written by older hugr-rs encoders; ignored by the schema
        return foreignise(rng, j)
    return {"parent": 0, "op": "Module"}


# ----------------------------------------------------------------------------- whole documents

assert T.INTERN("meta:{}") == 0, "the empty metadata dict must be interned as 0 (model/CodecDoc.v empty_meta)"


def walk_sdoc(sh) -> str:
    """Walk of a validated SerialHugr as a literal of model/CodecDoc.v `sdoc`."""
    fields(sh, "version", "nodes", "edges", "metadata", "encoder")
    nodes = glist(walk_sop(n) for n in sh.nodes)
    port = lambda p: gpair(gN(p[0]), gopt(None if p[1] is None else gN(p[1])))
    edges = glist(gpair(port(a), port(b)) for a, b in sh.edges)
    if sh.metadata is None:
        meta = "None"
    else:
        meta = gopt(glist(gopt(None if m is None else gN(T.INTERN("meta:" + json.dumps(m, sort_keys=True)))) for m in sh.metadata))
    return gapp("SDoc", nodes, edges, meta)


def order_ends(h):
    """For the serialised edges of a library HUGR: which ends sit on the order port (generator only)."""
    from hugr.ops import _num_dataflow_ports
    from hugr.hugr.node_port import Direction
    nodes = list(h)
    j = json.loads(h.to_json())
    res = []
    for (s, so), (d, do) in j["edges"]:
        res.append((_num_dataflow_ports(h[nodes[s]].op, Direction.OUTGOING) == so,
                    _num_dataflow_ports(h[nodes[d]].op, Direction.INCOMING) == do))
    return j, res


def foreign_doc(rng, h):
    """The JSON document of a library HUGR rewritten the way hugr-rs writes documents."""
    j, ends = order_ends(h)
    doc = {"version": j["version"], "nodes": [foreignise(rng, n) for n in j["nodes"]]}
    for n in doc["nodes"]:
        if rng.random() < 0.3:
            n["input_extensions"] = None
    edges = []
    for ((s, so), (d, do)), (os_, od_) in zip(j["edges"], ends):
        edges.append([[s, None if (os_ and rng.random() < 0.85) else so], [d, None if (od_ and rng.random() < 0.85) else do]])
    doc["edges"] = edges
    md = j.get("metadata")
    r = rng.random()
    if md is not None:
        if all(m is None for m in md) and r < 0.4:
            md = None
        elif r < 0.6:
            while md and md[-1] is None:              # shorter list: trailing nulls left out
                md = md[:-1]
        elif r < 0.75:
            md = [({} if (m is None and rng.random() < 0.5) else m) for m in md]
    if md is not None or rng.random() < 0.5:
        doc["metadata"] = md
    if rng.random() < 0.7:
        doc["encoder"] = rng.choice(["hugr-rs v0.15.0", None])
    return T.shuffle_keys(rng, doc)


def observe_doc(j, ctx=None):
    """Load a JSON document with Hugr.load_json, re-save with to_json, compare through the public API.
    DIAGNOSTIC only (evidence key `model_drift`, never a verdict): in how many documents the re-saved `edges` array
    lists the same edges in another order than the Gallina model `to_serial` does (= the order of the input)."""
    from hugr.hugr import Hugr
    from hugr.hugr.node_port import Node
    from hugr._serialization.serial_hugr import SerialHugr
    s_in = SerialHugr.load_json(j)
    o = {"s": walk_sdoc(s_in)}
    try:
        h = Hugr.load_json(json.dumps(j))
        out = json.loads(h.to_json())
        s_out = SerialHugr.load_json(out)             # the re-saved document must itself be a loadable document
    except WalkError:
        raise
    except Exception as ex:
        return {**o, "raised": type(ex).__name__}
    ok = True
    n_out, n_in = {}, {}
    for (s, so), (d, do) in j["edges"]:
        if so is None:                                # written without an offset: must be a state-order link
            ok = ok and any(x.idx == d for x in h.outgoing_order_links(Node(s)))
            n_out[(s, d)] = n_out.get((s, d), 0) + 1
        if do is None:
            ok = ok and any(x.idx == s for x in h.incoming_order_links(Node(d)))
            n_in[(s, d)] = n_in.get((s, d), 0) + 1
    # ... EVERY such edge: n edges s -> d written without an offset are (at least) n order links s -> d
    for (s, d), n in n_out.items():
        ok = ok and sum(1 for x in h.outgoing_order_links(Node(s)) if x.idx == d) >= n
    for (s, d), n in n_in.items():
        ok = ok and sum(1 for x in h.incoming_order_links(Node(d)) if x.idx == s) >= n
    ok = ok and len(h) == len(j["nodes"])
    for i, n in enumerate(j["nodes"]):                # node kinds and names through the public API
        ok = ok and out["nodes"][i]["op"] == n["op"] and out["nodes"][i].get("name") == n.get("name")
    if ctx is not None:
        ends = lambda es: [[a[0], b[0]] for a, b in es]
        d = ctx.stats.setdefault("model_drift", {"doc_cases": 0, "edge_order_differs_from_model": 0, "examples": []})
        d["doc_cases"] += 1
        if ends(out["edges"]) != ends(j["edges"]) and sorted(ends(out["edges"])) == sorted(ends(j["edges"])):
            d["edge_order_differs_from_model"] += 1
            if len(d["examples"]) < 3:
                d["examples"].append({"input_edges": j["edges"][:8], "resaved_edges": out["edges"][:8]})
    return {**o, "raised": None, "reser": walk_sdoc(s_out), "ok": bool(ok)}


# ----------------------------------------------------------------------------- the JSON text path of a whole HUGR


def text_trip(h):
    """Hugr.to_json -> Hugr.load_json -> Hugr.to_json: the text written, the HUGR loaded from it, the text it writes."""
    from hugr.hugr import Hugr
    txt = h.to_json()
    back = Hugr.load_json(txt)
    return txt, back, back.to_json()


def gen_carrier(rng):
    """An operation term that carries one generated constant / parameter list / argument list / type, deeper than
    gen_op makes them: the way such a term reaches a document is as an attribute of some node's operation."""
    r = rng.random()
    nofunc = [[], [], []]
    if r < 0.3:
        return ["Const", gen_val(rng, rng.choice([1, 2, 3]))]
    if r < 0.5:
        ps = [T.gen_param(rng, rng.choice([0, 1, 2, 3])) for _ in range(rng.choice([1, 1, 2, 3]))]
        return ["FuncDecl", "f", [ps, nofunc]] if rng.random() < 0.5 else ["FuncDefn", "f", [], ps, []]
    if r < 0.7:
        return ["Custom", "op", nofunc, "", "my.ext", [T.gen_arg(rng, rng.choice([1, 2, 3])) for _ in range(rng.choice([1, 1, 2, 3]))]]
    if r < 0.8:
        # the unbounded / bounded nat parameter in every position a parameter can take
        nat = ["Nat", rng.choice([None, None, 0, 5])]
        p = rng.choice([nat, ["List", nat], ["Tuple", [["String"], nat]], ["List", ["Tuple", [nat, ["List", nat]]]]])
        return rng.choice([["FuncDecl", "f", [[p], nofunc]], ["FuncDefn", "f", [], [p], []],
                           ["Custom", "op", nofunc, "", "my.ext", [["V", rng.choice([0, 2]), p]]],
                           ["LoadConst", ["Opaque", "T", "A", [["Seq", [["V", 0, p]]]], "my.ext"]],
                           ["Call", [[p], nofunc], nofunc, [["V", 1, p]]],
                           ["LoadFunc", [[p], nofunc], nofunc, [["V", 1, p]]]])
    if r < 0.9:
        # extension constants with every JSON payload shape, alone and nested
        c = ["VExt", rng.choice(T.NAMES), T.gen_ty(rng, 1), rng.choice(JSONS + ["null", "null", "[null]", '{"v": null}']), T.gen_reqs(rng)]
        return ["Const", rng.choice([c, ["VTuple", [c]], ["VSome", [c, ["VTrue"]]], ["VList", [c], ["Qubit"]]])]
    t = T.gen_ty(rng, rng.choice([2, 3, 4]))
    return rng.choice([["LoadConst", t], ["Input", [t]], ["AliasDefn", "a", t], ["Noop", t]])


META = [None, None, {}, {"k": None}, {"name": "x", "pos": [1, None, {"a": None}]}, {"é": 1.5, "n": None}]


def gen_jdoc(rng):
    """A schema-valid document assembled from foreign serial operations: a module and a few children, no edges."""
    nodes = [T.shuffle_keys(rng, {"parent": 0, "op": "Module"})]
    for _ in range(rng.choice([1, 2, 3, 4])):
        j = gen_jop(rng) if rng.random() < 0.5 else None
        if j is None:
            for _ in range(50):
                try:
                    s = build_op(gen_carrier(rng))._to_serial(__import__("hugr").hugr.node_port.Node(0))
                    j = foreignise(rng, json.loads(s.model_dump_json()))
                    break
                except Exception:
                    continue
            else:
                j = {"parent": 0, "op": "Module"}
        nodes.append({**j, "parent": 0})
    doc = {"version": "live", "nodes": nodes, "edges": []}
    r = rng.random()
    if r < 0.6:
        doc["metadata"] = [rng.choice(META) for _ in range(rng.choice([len(nodes), len(nodes), len(nodes) - 1, 1]))]
    elif r < 0.8:
        doc["metadata"] = None
    if rng.random() < 0.7:
        doc["encoder"] = rng.choice(["hugr-rs v0.15.0", None])
    return T.shuffle_keys(rng, doc)


# ----------------------------------------------------------------------------- foreign serial terms written by hand
# (seeded round 3)  Every generator above that makes a "foreign" operation or document starts from an object the
# library itself constructed and encoded: whatever a constructor or an encoder loses is lost before the case exists.
# The writers below go from random choices straight to JSON -- no API object, constructor or encoder is involved --
# and they make *coincidences* likely (rows / function types shared between the attributes of one operation: an
# instantiation equal to the body of the polymorphic signature, equal input and output rows, equal variants ...),
# since a shortcut taken "when nothing changes" needs exactly such an input to show.

import copy as _copy

JOP_KINDS = ["Module", "FuncDefn", "FuncDecl", "Const", "DataflowBlock", "ExitBlock", "Input", "Output", "Call", "CallIndirect",
             "LoadConstant", "LoadFunction", "DFG", "Conditional", "Case", "TailLoop", "CFG", "Extension", "Tag", "AliasDecl",
             "AliasDefn"]

_G = lambda i, o, r=(): {"t": "G", "input": i, "output": o, "runtime_reqs": list(r)}
_Q, _I, _B = {"t": "Q"}, {"t": "I"}, {"t": "Sum", "s": "Unit", "size": 2}

# embedded documents of function constants, written the way this library writes them (what loading and re-saving does
# to a whole document is the business of the document cases)
EMBEDDED = [
    {"version": "live", "nodes": [{"parent": 0, "op": "DFG", "signature": _G([_Q], [_Q])},
                                  {"parent": 0, "op": "Input", "types": [_Q]}, {"parent": 0, "op": "Output", "types": [_Q]}],
     "edges": [[[1, 0], [2, 0]]], "metadata": [None, None, None], "encoder": None},
    # a dataflow-rooted body holding a nested polymorphic function whose parameter does not occur in its signature,
    # and a call of it (instantiation == body, type arguments not empty)
    {"version": "live", "nodes": [{"parent": 0, "op": "DFG", "signature": _G([_I], [])},
                                  {"parent": 0, "op": "Input", "types": [_I]}, {"parent": 0, "op": "Output", "types": []},
                                  {"parent": 0, "op": "FuncDefn", "name": "phantom",
                                   "signature": {"params": [{"tp": "BoundedNat", "bound": None}], "body": _G([_I], [])}},
                                  {"parent": 3, "op": "Input", "types": [_I]}, {"parent": 3, "op": "Output", "types": []},
                                  {"parent": 0, "op": "Call", "func_sig": {"params": [{"tp": "BoundedNat", "bound": None}],
                                                                           "body": _G([_I], [])},
                                   "type_args": [{"tya": "BoundedNat", "n": 3}], "instantiation": _G([_I], [])}],
     "edges": [[[1, 0], [6, 0]], [[3, 0], [6, 1]]], "metadata": [None, None, None, None, None, None, {"k": [1, None]}],
     "encoder": None},
]


class _Pool:
    """Rows handed out for the attributes of one operation: a fresh row or, half of the time, one handed out before."""

    def __init__(self, rng, d):
        self.rng, self.d, self.rows = rng, d, [[]]

    def row(self):
        if self.rng.random() < 0.5:
            return _copy.deepcopy(self.rng.choice(self.rows))
        r = T.gen_jrow(self.rng, self.d)
        self.rows.append(r)
        return _copy.deepcopy(r)

    def func(self, omit=True):
        g = {"t": "G", "input": self.row(), "output": self.row()}
        reqs = T.gen_reqs(self.rng)
        if reqs or not omit or self.rng.random() < 0.5:
            g["runtime_reqs"] = reqs                       # else omitted: defaulted field
        return T.shuffle_keys(self.rng, g)


def _jarg_for(rng, p, d=1):
    """A type argument fitting the parameter p (JSON), sometimes a variable declared with that parameter."""
    if rng.random() < 0.15:
        return T.shuffle_keys(rng, {"tya": "Variable", "idx": rng.choice([0, 1, 3]), "cached_decl": _copy.deepcopy(p)})
    k = p["tp"]
    if k == "Type":
        return T.shuffle_keys(rng, {"tya": "Type", "ty": T.gen_jty(rng, d)})
    if k == "BoundedNat":
        return {"tya": "BoundedNat", "n": rng.choice([0, 1, 2]) if p["bound"] is not None else rng.choice([0, 7, 2 ** 35])}
    if k == "String":
        return {"tya": "String", "arg": rng.choice(T.NAMES)}
    if k == "Extensions":
        return {"tya": "Extensions", "es": T.gen_reqs(rng)}
    if k == "List":
        return {"tya": "Sequence", "elems": [_jarg_for(rng, p["param"], d) for _ in range(rng.choice([0, 1, 2]))]}
    return {"tya": "Sequence", "elems": [_jarg_for(rng, q, d) for q in p["params"]]}


def gen_jval(rng, d=2):
    """JSON of a serial constant value, written by hand."""
    r = rng.random()
    vals = lambda: [gen_jval(rng, d - 1) for _ in range(rng.choice([0, 1, 1, 2]))]
    if d <= 0 or r < 0.35:
        return T.shuffle_keys(rng, {"v": "Extension", "extensions": T.gen_reqs(rng), "typ": T.gen_jty(rng, 1),
                                    "value": T.shuffle_keys(rng, {"c": rng.choice(T.NAMES + ["ConstF64"]),
                                                                  "v": json.loads(rng.choice(JSONS + ["null", "[null]"]))})})
    if r < 0.5:
        return T.shuffle_keys(rng, {"v": "Tuple", "vs": vals()})
    if r < 0.6:
        n = rng.choice([1, 2, 3])
        return T.shuffle_keys(rng, {"v": "Sum", "tag": rng.randrange(n), "typ": {"t": "Sum", "s": "Unit", "size": n}, "vs": []})
    if r < 0.88:
        rows = [T.gen_jrow(rng, 1) for _ in range(rng.choice([1, 2, 3]))]
        if rng.random() < 0.4:
            rows = [_copy.deepcopy(rows[0]) for _ in rows]          # all variants equal
        tag = rng.randrange(len(rows))
        vs = vals()
        if rng.random() < 0.5:
            rows[tag] = [_Q] * len(vs)
        return T.shuffle_keys(rng, {"v": "Sum", "tag": tag, "typ": T.shuffle_keys(rng, {"t": "Sum", "s": "General", "rows": rows}),
                                    "vs": vs})
    return T.shuffle_keys(rng, {"v": "Function", "hugr": _copy.deepcopy(rng.choice(EMBEDDED))})


def gen_jcall(rng, kind, pool=None, d=1):
    """A Call / LoadFunction written by hand.  Shapes: monomorphic (canonical, or with an instantiation / type
    arguments another writer left there); polymorphic with an instantiation that differs from the body; polymorphic
    whose parameters do not occur in the body, so that the instantiation IS the body while the type arguments are
    not empty ("phantom" parameters)."""
    pool = pool or _Pool(rng, d)
    body = pool.func(omit=False)
    r = rng.random()
    if r < 0.25:
        params, targs = [], []
        inst = _copy.deepcopy(body) if rng.random() < 0.8 else pool.func()
        if rng.random() < 0.15:
            targs = [T.gen_jarg(rng, 1)]
    else:
        params = [T.gen_jparam(rng, rng.choice([0, 1, 2])) for _ in range(rng.choice([1, 1, 2, 3]))]
        targs = [_jarg_for(rng, p, d) for p in params]
        inst = T.shuffle_keys(rng, _copy.deepcopy(body)) if r < 0.7 else pool.func()
    return T.shuffle_keys(rng, {"parent": 0, "op": kind, "func_sig": T.shuffle_keys(rng, {"params": params, "body": body}),
                                "type_args": targs, "instantiation": inst})


def gen_jop_direct(rng, kind=None, d=1):
    """JSON of one of the 21 serial operation kinds, written by hand (schema-valid; defaulted fields sometimes omitted,
    keys permuted, fields this library never writes present)."""
    k = kind or rng.choice(JOP_KINDS)
    pool = _Pool(rng, d)
    R = pool.row
    opt = lambda j, key, v: j.update({key: v}) if (v or rng.random() < 0.5) else None     # a defaulted field
    j = {"parent": rng.choice([0, 0, 3]), "op": k}
    if k in ("FuncDefn", "FuncDecl"):
        j["name"] = rng.choice(T.NAMES + ["main"])
        j["signature"] = T.shuffle_keys(rng, {"params": [T.gen_jparam(rng, 2) for _ in range(rng.choice([0, 0, 1, 2, 3]))],
                                              "body": pool.func(omit=False)})
    elif k == "Const":
        j["v"] = gen_jval(rng, 2)
    elif k == "DataflowBlock":
        opt(j, "inputs", R())
        opt(j, "other_outputs", R())
        j["sum_rows"] = [R() for _ in range(rng.choice([0, 1, 2, 3]))]
        opt(j, "extension_delta", T.gen_reqs(rng))
    elif k == "ExitBlock":
        j["cfg_outputs"] = R()
    elif k in ("Input", "Output"):
        opt(j, "types", R())
    elif k in ("Call", "LoadFunction"):
        j = {**gen_jcall(rng, k, pool, d), "parent": j["parent"]}
    elif k in ("CallIndirect", "DFG", "Case", "CFG"):
        if rng.random() < 0.9:
            j["signature"] = pool.func()
    elif k == "LoadConstant":
        j["datatype"] = T.gen_jty(rng, d + 1)
    elif k == "Conditional":
        opt(j, "other_inputs", R())
        opt(j, "outputs", R())
        opt(j, "sum_rows", [R() for _ in range(rng.choice([0, 1, 2, 3]))])
        opt(j, "extension_delta", T.gen_reqs(rng))
    elif k == "TailLoop":
        opt(j, "just_inputs", R())
        opt(j, "just_outputs", R())
        opt(j, "rest", R())
        opt(j, "extension_delta", T.gen_reqs(rng))
    elif k == "Extension":
        j["extension"] = rng.choice(T.NAMES)
        j["name"] = rng.choice(T.NAMES + ["op"])
        if rng.random() < 0.8:
            j["signature"] = pool.func()
        opt(j, "description", rng.choice(["", "", "does things", "é\n"]))
        opt(j, "args", [T.gen_jarg(rng, d) for _ in range(rng.choice([0, 0, 1, 2]))])
    elif k == "Tag":
        j["variants"] = [R() for _ in range(rng.choice([1, 2, 2, 3]))]
        j["tag"] = rng.randrange(len(j["variants"]))
    elif k == "AliasDecl":
        j["name"] = rng.choice(T.NAMES)
        j["bound"] = T.gen_bound(rng)
    elif k == "AliasDefn":
        j["name"] = rng.choice(T.NAMES)
        j["definition"] = T.gen_jty(rng, d + 1)
    if rng.random() < 0.2:
        j["input_extensions"] = None                         # written by older hugr-rs encoders; ignored by the schema
    return T.shuffle_keys(rng, j)


def gen_jdoc_direct(rng):
    """A schema-valid document of hand-written operations: a module and 1..4 children, no edges."""
    nodes = [T.shuffle_keys(rng, {"parent": 0, "op": "Module"})]
    for _ in range(rng.choice([1, 2, 3, 4])):
        nodes.append({**gen_jop_direct(rng, rng.choice(JOP_KINDS[1:])), "parent": 0})
    doc = {"version": "live", "nodes": nodes, "edges": []}
    r = rng.random()
    if r < 0.6:
        doc["metadata"] = [rng.choice(META) for _ in range(rng.choice([len(nodes), len(nodes), len(nodes) - 1, 1]))]
    elif r < 0.8:
        doc["metadata"] = None
    if rng.random() < 0.7:
        doc["encoder"] = rng.choice(["hugr-rs v0.15.0", None])
    return T.shuffle_keys(rng, doc)


def gen_jcalldoc(rng):
    """A wired hand-written document: module, a declared (mostly polymorphic) function, `main` with Input / Output and
    a Call and / or LoadFunction of the declared function -- value edges, the static edge from the declaration, order
    edges written the hugr-rs way (no offsets)."""
    kinds = rng.choice([["Call"], ["LoadFunction"], ["Call", "LoadFunction"], ["Call", "Call"]])
    call = gen_jcall(rng, "Call")
    sig, targs, inst = call["func_sig"], call["type_args"], call["instantiation"]
    n_in, n_out = len(inst["input"]), len(inst["output"])
    main_out = list(inst["output"]) + ([dict(inst)] if "LoadFunction" in kinds else [])
    nodes = [{"parent": 0, "op": "Module"},
             {"parent": 0, "op": "FuncDecl", "name": rng.choice(["phantom", "f", "é"]), "signature": _copy.deepcopy(sig)},
             {"parent": 0, "op": "FuncDefn", "name": "main",
              "signature": {"params": [], "body": _G(_copy.deepcopy(inst["input"]), _copy.deepcopy(main_out))}},
             {"parent": 2, "op": "Input", "types": _copy.deepcopy(inst["input"])},
             {"parent": 2, "op": "Output", "types": _copy.deepcopy(main_out)}]
    edges = []
    for kind in kinds:
        n = len(nodes)
        nodes.append(T.shuffle_keys(rng, {"parent": 2, "op": kind, "func_sig": _copy.deepcopy(sig),
                                          "type_args": _copy.deepcopy(targs), "instantiation": _copy.deepcopy(inst)}))
        if kind == "Call":
            edges += [[[3, i], [n, i]] for i in range(n_in)] + [[[1, 0], [n, n_in]]] + [[[n, i], [4, i]] for i in range(n_out)]
        else:
            edges += [[[1, 0], [n, 0]], [[n, 0], [4, n_out]]]
        r = rng.random()
        if r < 0.4:
            edges.append([[3, None], [n, None]])
        elif r < 0.6:
            edges.append([[n, None], [4, None]])
    rng.shuffle(edges)
    doc = {"version": "live", "nodes": [T.shuffle_keys(rng, x) for x in nodes], "edges": edges}
    if rng.random() < 0.5:
        doc["metadata"] = [rng.choice(META) for _ in nodes]
    if rng.random() < 0.5:
        doc["encoder"] = rng.choice(["hugr-rs v0.15.0", None])
    return T.shuffle_keys(rng, doc)


def gen_op_coinc(rng, d=1):
    """An operation term (for the public constructors) whose attributes coincide: a polymorphic Call / LoadFunc whose
    instantiation equals the body of its signature (type parameters that do not occur in it), equal input and output
    rows, equal variants, an empty signature with arguments ..."""
    row = T.gen_row(rng, d)
    row2 = row if rng.random() < 0.7 else T.gen_row(rng, d)
    reqs = T.gen_reqs(rng)
    f = [row, row2, reqs]
    r = rng.random()
    if r < 0.5:
        ps = [T.gen_param(rng, rng.choice([0, 1])) for _ in range(rng.choice([1, 1, 2]))]
        args = [arg_for(rng, p, d) for p in ps]
        return [rng.choice(["Call", "LoadFunc"]), [ps, f], [list(row), list(row2), list(reqs)], args]
    k = rng.choice(["TailLoop", "DFG", "Conditional", "Case", "CFG", "FuncDefn", "DataflowBlock", "Custom", "Tag", "CallIndirect",
                    "FuncDecl"])
    if k == "TailLoop":
        return ["TailLoop", row, row2, list(row), reqs]
    if k == "DFG":
        return ["DFG", row, row2, reqs]
    if k == "Conditional":
        return ["Conditional", ["Sum", [row, list(row)]], row, row2]
    if k in ("Case", "CFG"):
        return [k, row, row2]
    if k == "FuncDefn":
        return ["FuncDefn", "f", row, [T.gen_param(rng, 1) for _ in range(rng.choice([0, 1, 2]))], row2]
    if k == "FuncDecl":
        return ["FuncDecl", "f", [[T.gen_param(rng, 1) for _ in range(rng.choice([1, 2]))], f]]
    if k == "DataflowBlock":
        return ["DataflowBlock", row, ["Sum", [row, list(row)]], row2, reqs]
    if k == "Custom":
        return ["Custom", "op", f, "", "my.ext", [T.gen_arg(rng, d) for _ in range(rng.choice([1, 2]))]]
    if k == "Tag":
        return ["Tag", rng.choice([0, 1]), ["Sum", [row, list(row)]]]
    return ["CallIndirect", f]


def arg_for(rng, p, d=1):
    """A type-argument term fitting the parameter term p."""
    if rng.random() < 0.15:
        return ["V", rng.choice([0, 1, 3]), p]
    k = p[0]
    if k == "Type":
        return ["T", T.gen_ty(rng, d)]
    if k == "Nat":
        return ["N", rng.choice([0, 1, 5])]
    if k == "String":
        return ["S", rng.choice(T.NAMES)]
    if k == "Exts":
        return ["Exts", T.gen_reqs(rng)]
    if k == "List":
        return ["Seq", [arg_for(rng, p[1], d) for _ in range(rng.choice([0, 1, 2]))]]
    return ["Seq", [arg_for(rng, q, d) for q in p[1]]]


def requested_call_lit(o):
    """For a Call / LoadFunc term with a polymorphic signature: the literal of the operation *as requested from the
    constructor* (signature, instantiation, type arguments as passed); None for every other term.  On a polymorphic
    signature the constructor keeps what it is given (model: CodecOps.call_attrs), so this is the literal of the
    object it builds -- unless the constructor loses an attribute, which the case then shows."""
    if o[0] not in ("Call", "LoadFunc") or not o[1][0] or o[2] is None or o[3] is None:
        return None
    return gapp("OCall" if o[0] == "Call" else "OLoadFunc", T.lit_poly_obj(T.build_poly(o[1])),
                T.lit_func_obj(T.build_func(o[2])), glist(T.lit_arg_obj(T.build_arg(a)) for a in o[3]))


# ----------------------------------------------------------------------------- seeded round 4
# (a) constructor arguments declared `Iterable[...]` handed over as something that is not a list.  Every term stream
# above gives lists to the public constructors; a constructor that walks such an argument twice, indexes it or takes
# its length is correct for lists and loses the payload / raises for a generator, an iterator or a map object.


def gen_iter_case(rng):
    """A case (any of the term kinds) whose term holds at least one Either / Left / Right -- the constructors with
    `Iterable`-typed arguments --, mostly with a non-empty payload, to be built in a random non-list iteration mode."""
    mode = rng.choice(T.ITER_MODES[:3] * 3 + T.ITER_MODES[3:])       # mostly the one-shot ones
    d = rng.choice([0, 1, 1, 2])
    row = lambda lo=0: T.gen_row(rng, d, lo, 3)
    either = lambda: ["Either", row(rng.choice([0, 1])), row(rng.choice([0, 1]))]
    vals = lambda: [gen_val(rng, rng.choice([0, 1])) for _ in range(rng.choice([0, 1, 1, 2, 2, 3]))]

    def lr(depth=1):
        vs = vals()
        if depth > 0 and rng.random() < 0.4:
            vs.insert(rng.randint(0, len(vs)), lr(depth - 1))
        return ["VLeft", vs, T.gen_row(rng, 1)] if rng.random() < 0.5 else ["VRight", T.gen_row(rng, 1), vs]

    def inval():
        v = lr()
        r = rng.random()
        return (v if r < 0.4 else ["VTuple", [v]] if r < 0.55 else ["VSome", [["VTrue"], v]] if r < 0.7 else
                ["VSum", 1, ["Sum", [[], [["Qubit"]]]], [v]] if r < 0.85 else ["VList", [v], ["Qubit"]])

    def inty():
        t = either()
        r = rng.random()
        return (t if r < 0.35 else ["Sum", [[t], []]] if r < 0.5 else ["Tuple", [["Qubit"], t]] if r < 0.6 else
                ["Func", [t], [either()], []] if r < 0.75 else ["List", t] if r < 0.85 else
                ["Opaque", "T", "A", [["T", t]], "my.ext"])

    r = rng.random()
    if r < 0.12:
        c = {"kind": "sugar", "s": either()}
    elif r < 0.27:
        c = {"kind": "ty", "t": inty()}
    elif r < 0.32:
        c = {"kind": "arg", "a": rng.choice([["T", inty()], ["Seq", [["T", either()], ["N", 3]]]])}
    elif r < 0.52:
        c = {"kind": "valsugar", "s": lr(0)}
    elif r < 0.72:
        c = {"kind": "val", "v": inval()}
    else:
        t = either()
        o = rng.choice([["Const", inval()], ["Const", inval()], ["Const", inval()], ["LoadConst", inty()], ["Input", [inty()]],
                        ["Tag", rng.choice([0, 1]), t], ["Conditional", t, row(), row()],
                        ["DataflowBlock", row(), t, row(), T.gen_reqs(rng)], ["Noop", inty()], ["CallIndirect", [[inty()], row(), []]]])
        c = {"kind": rng.choice(["op", "hop"]), "o": o}
    return {**c, "it": mode}


# (b) order edges at BOTH sides of one dataflow node.  The offset an order edge is written with is the number of value
# (+ static) ports of the node *in that direction*; every wired document above has its order edges at Input (outgoing
# only), Output (incoming only) or one side of a Call.  The writer below makes chains Input -> a -> b -> ... -> Output
# through nodes whose numbers of input and output ports differ (extension operations, Call with its static port,
# LoadConstant / LoadFunction, CallIndirect, Tag, nested DFG / TailLoop / Conditional / CFG), hand-written: no library
# object is involved, the arities are counted here from the JSON.

_WT = [_Q, _I, _B]


def _wrow(rng, lo=0, hi=3):
    return [_copy.deepcopy(rng.choice(_WT)) for _ in range(rng.randint(lo, hi))]


def _jdfop(rng, kind, callee=None):
    """A hand-written dataflow operation: (json without parent, value input types, output types, static inputs)."""
    i, o = _wrow(rng), _wrow(rng)
    if kind == "Extension":
        j = {"op": "Extension", "extension": rng.choice(["demo.ext", "my.ext"]), "name": rng.choice(["op", "And", "Init"]),
             "signature": _G(i, o, T.gen_reqs(rng) if rng.random() < 0.3 else ()), "description": rng.choice(["", "does things"]),
             "args": []}
        return j, i, o, 0
    if kind in ("Call", "LoadFunction"):
        sig, targs, inst = callee
        j = {"op": kind, "func_sig": _copy.deepcopy(sig), "type_args": _copy.deepcopy(targs), "instantiation": _copy.deepcopy(inst)}
        if kind == "Call":
            return j, _copy.deepcopy(inst["input"]), _copy.deepcopy(inst["output"]), 1
        return j, [], [_copy.deepcopy(inst)], 1
    if kind == "LoadConstant":
        t = _copy.deepcopy(rng.choice([_B, {"t": "Sum", "s": "Unit", "size": 1}]))
        return {"op": "LoadConstant", "datatype": t}, [], [t], 1
    if kind == "CallIndirect":
        g = _G(i, o)
        return {"op": "CallIndirect", "signature": g}, [_copy.deepcopy(g)] + i, o, 0
    if kind in ("DFG", "CFG"):
        return {"op": kind, "signature": _G(i, o)}, i, o, 0
    if kind == "Conditional":
        rows = [_wrow(rng, 0, 2) for _ in range(rng.choice([1, 2, 3]))]
        s = {"t": "Sum", "s": "General", "rows": _copy.deepcopy(rows)}
        return {"op": "Conditional", "other_inputs": i, "outputs": o, "sum_rows": rows, "extension_delta": []}, [s] + i, o, 0
    if kind == "TailLoop":
        rest = _wrow(rng, 0, 2)
        return ({"op": "TailLoop", "just_inputs": i, "just_outputs": o, "rest": rest, "extension_delta": T.gen_reqs(rng)},
                i + _copy.deepcopy(rest), o + _copy.deepcopy(rest), 0)
    if kind == "Tag":
        rows = [_wrow(rng, 0, 3) for _ in range(rng.choice([1, 2, 3]))]
        tag = rng.randrange(len(rows))
        return ({"op": "Tag", "tag": tag, "variants": rows}, _copy.deepcopy(rows[tag]),
                [{"t": "Sum", "s": "General", "rows": _copy.deepcopy(rows)}], 0)
    raise AssertionError(kind)


def gen_jorderdoc(rng, multi=0.0):
    """(`multi` > 0, seeded round 5: every edge -- value, static, order -- is, with that probability, written one or two
    MORE times; the extra copies of an order edge spell each end afresh (null / the order port's explicit offset), so
    that the same ordered pair of nodes is joined by several order edges of the same or of different spelling.  With
    multi = 0 not one extra draw is made: the stream of the older callers is unchanged.)
    A wired hand-written document rich in state-order edges: in every dataflow container the children are listed
    Input, Output, then a few dataflow operations of random (mostly asymmetric) arities; value edges between ports of
    equal type, static edges from the declared function / a constant, and order edges along chains Input -> .. -> Output
    plus random extra ones (always from an earlier to a later sibling), each END written without an offset (75 %, the
    hugr-rs way) or with the order port's explicit offset."""
    nodes, edges, arity = [], [], {}
    body = _G(_wrow(rng), _wrow(rng))
    params = [T.gen_jparam(rng, 1) for _ in range(rng.choice([0, 0, 1, 2]))]
    callee = ({"params": params, "body": body}, [_jarg_for(rng, p) for p in params], _copy.deepcopy(body))
    module = rng.random() < 0.7
    top_i, top_o = _wrow(rng), _wrow(rng)
    if module:
        nodes += [{"parent": 0, "op": "Module"},
                  {"parent": 0, "op": "FuncDecl", "name": rng.choice(["callee", "é"]), "signature": _copy.deepcopy(callee[0])},
                  {"parent": 0, "op": "FuncDefn", "name": "main", "signature": {"params": [], "body": _G(top_i, top_o)}}]
        top = 2
    else:
        nodes.append({"parent": 0, "op": "DFG", "signature": _G(top_i, top_o)})
        top = 0
    kinds = ["Extension"] * 6 + ["LoadConstant", "CallIndirect", "DFG", "DFG", "Tag", "TailLoop", "Conditional", "CFG"]
    if module:
        kinds += ["Call", "Call", "Call", "LoadFunction"]

    def add(j, parent):
        nodes.append({**j, "parent": parent})
        return len(nodes) - 1

    def end(n, d):                                  # one end of an order edge at node n
        return [n, None if rng.random() < 0.75 else arity[n][d]]

    def fill(parent, ins, outs, depth):
        inp = add({"op": "Input", "types": _copy.deepcopy(ins)}, parent)
        out = add({"op": "Output", "types": _copy.deepcopy(outs)}, parent)
        arity[inp], arity[out] = (0, len(ins)), (len(outs), 0)
        sources = [(inp, k, t) for k, t in enumerate(ins)]
        seq, nested = [inp], []
        for _ in range(rng.choice([1, 2, 2, 3, 4])):
            kind = rng.choice(kinds)
            j, vi, vo, st = _jdfop(rng, kind, callee)
            n = add(j, parent)
            arity[n] = (len(vi) + st, len(vo))
            for k, t in enumerate(vi):
                cands = [s for s in sources if s[2] == t]
                if cands and rng.random() < 0.85:
                    s = rng.choice(cands)
                    edges.append([[s[0], s[1]], [n, k]])
            if kind in ("Call", "LoadFunction"):
                edges.append([[1, 0], [n, len(vi)]])
            if kind == "LoadConstant":
                c = add({"op": "Const", "v": {"v": "Sum", "tag": 0, "typ": _copy.deepcopy(vo[0]), "vs": []}}, parent)
                edges.append([[c, 0], [n, 0]])
            sources += [(n, k, t) for k, t in enumerate(vo)]
            seq.append(n)
            if kind == "DFG" and depth > 0:
                nested.append((n, vi, vo))
        for k, t in enumerate(outs):
            cands = [s for s in sources if s[2] == t]
            if cands and rng.random() < 0.85:
                s = rng.choice(cands)
                edges.append([[s[0], s[1]], [out, k]])
        seq.append(out)
        order = set()
        if rng.random() < 0.7:                      # a chain through at least one inner node
            mid = [n for n in seq[1:-1] if rng.random() < 0.7] or [rng.choice(seq[1:-1])]
            chain = ([inp] if rng.random() < 0.8 else []) + mid + ([out] if rng.random() < 0.8 else [])
            order |= set(zip(chain, chain[1:]))
        for a in range(len(seq)):
            for b in range(a + 1, len(seq)):
                if rng.random() < 0.12:
                    order.add((seq[a], seq[b]))
        for a, b in sorted(order):
            edges.append([end(a, 1), end(b, 0)])
            if multi and rng.random() < multi:
                for _ in range(rng.choice([1, 1, 2])):
                    edges.append([end(a, 1), end(b, 0)])
                order_dup.append((a, b))
        for n, vi, vo in nested:
            fill(n, vi, vo, depth - 1)

    order_dup = []
    fill(top, top_i, top_o, 1)
    if multi:
        if not order_dup:                           # at least one pair of nodes joined by two order edges
            a, b = top + 1, top + 2                 # Input, Output of the outermost container
            edges.extend([[end(a, 1), end(b, 0)], [end(a, 1), end(b, 0)]])
        for e in [e for e in edges if e[0][1] is not None and e[1][1] is not None and
                  e[0][1] != arity.get(e[0][0], (None, None))[1] and e[1][1] != arity.get(e[1][0], (None, None))[0]
                  if rng.random() < multi / 2]:   # value and static edges
            edges.extend(_copy.deepcopy(e) for _ in range(rng.choice([1, 1, 2])))
    rng.shuffle(edges)
    doc = {"version": "live", "nodes": [T.shuffle_keys(rng, x) for x in nodes], "edges": edges}
    r = rng.random()
    if r < 0.5:
        doc["metadata"] = [rng.choice(META) for _ in nodes]
    elif r < 0.6:
        doc["metadata"] = None
    if rng.random() < 0.5:
        doc["encoder"] = rng.choice(["hugr-rs v0.15.0", None])
    return T.shuffle_keys(rng, doc)


WIRE_KINDS = ["Call", "CallIndirect", "LoadConst", "LoadFunc", "DFG", "Conditional", "TailLoop", "CFG", "Custom", "ExtOp",
              "MakeTuple", "UnpackTuple", "Noop", "Tag"]


def wire_rows(op):
    """(value input row, output row) of a dataflow operation through the public accessors, None when it has none
    (not a dataflow operation, incomplete, a Tag naming no variant)."""
    ops = env()["ops"]
    try:
        if isinstance(op, ops.Call):
            return list(op.instantiation.input), list(op.instantiation.output)
        if isinstance(op, ops.DataflowOp) and not isinstance(op, ops.Input | ops.Output):
            sig = op.outer_signature()
            return list(sig.input), list(sig.output)
    except WalkError:
        raise
    except Exception:
        return None
    return None


def wired_hugr(op, rows, meta):
    """The operation between Input and Output of a DFG-rooted HUGR built through the public API: a value link on every
    value port, a state-order link Input -> op and one op -> Output (so the operation's node has an order edge on BOTH
    sides; its static input port, if any, stays open).  Returns (hugr, input node, output node, the operation's node)."""
    from hugr.hugr import Hugr
    ops = env()["ops"]
    ins, outs = rows
    h = Hugr(ops.DFG(list(ins), list(outs)))
    inp = h.add_node(ops.Input(list(ins)), h.root, len(ins))
    out = h.add_node(ops.Output(list(outs)), h.root)
    node = h.add_node(op, h.root, len(outs), metadata=meta)
    for i in range(len(ins)):
        h.add_link(inp.out(i), node.inp(i))
    for i in range(len(outs)):
        h.add_link(node.out(i), out.inp(i))
    h.add_order_link(inp, node)
    h.add_order_link(node, out)
    return h, inp, out, node


def link_facts(h):
    """Every link of a HUGR through the public API: sorted (source node, offset, target node, offset) with the order
    port as -1, and the state-order successors of every node."""
    links = sorted((s.node.idx, s.offset, d.node.idx, d.offset) for s, d in h.links())
    order = sorted((n.idx, m.idx) for n in h for m in h.outgoing_order_links(n))
    order_in = sorted((m.idx, n.idx) for n in h for m in h.incoming_order_links(n))
    return links, order, order_in
