"""Prints the prompt for a sub-agent that writes HARMLESS changes to hugr-py (the property still holds), to test that
the checks raise no false alarm.  usage: neutralprompt.py <PROP>"""
import json, os, subprocess, sys
pid = sys.argv[1]
props = {json.loads(l)["id"]: json.loads(l) for l in open(os.path.join(os.path.dirname(__file__), "..", "properties.jsonl"))}
p = props[pid]
wt = f"/tmp/wt/{pid}"
out = f"/tmp/wt/nout-{pid}"
if not os.path.exists(wt):
    subprocess.run(["git", "-C", "/repo", "worktree", "add", "-q", "--detach", wt, "HEAD"], check=True)
os.makedirs(out, exist_ok=True)
print(f"""You are helping to evaluate a verification tool for the Python package hugr-py (in the CQCL/hugr repository). The tool must stay SILENT on changes that do not break the property below. Your job is to write HARMLESS changes: realistic refactorings, optimisations or behaviour changes of the code the property is about, after which the property below STILL HOLDS for every input. Work only inside the scratch git worktree {wt} and write your results to {out}/. Do not read or write anything under /verif or /repo. There is no network.

Property ({pid}): {p['title']}
Statement: {p['statement']}
Quantifier: {p['quantifier']['text']}
Relevant code: {', '.join(p['anchors']['files'])}

Produce FOUR independent changes n1..n4 (each applies to the clean worktree on its own) to the hugr-py source (under hugr-py/src/hugr), in the code the property is about, such that for each:
1. the property's statement still holds for every input (argue it carefully in the meta file: which clause could be affected and why it is not), the code imports, and the existing test suite result is unchanged: `cd {wt} && /venv/bin/python -m pytest -q -p no:cacheprovider --timeout=900 2>&1 | tail -1` prints the same counts as on the clean tree (`29 failed, 180 passed, 1 skipped, 10 errors`; those 39 non-passing tests need an absent Rust binary);
2. it is realistic: what a maintainer would do — restructure a loop, replace a hand-written loop by a comprehension or library call, rename private attributes / helper functions, reorder independent statements, change an internal data representation, add a cache that IS correctly invalidated, change the wording of an error message (same exception class), change iteration order or numbering where the property promises no order, change which free index / internal name is chosen where the property does not prescribe it, tighten or relax behaviour OUTSIDE what the property quantifies over (inputs the property excludes), etc.;
3. make them diverse, and make at least TWO of the four change OBSERVABLE behaviour that the property does not constrain (not merely the code's shape) — those are the interesting ones: a checker that compares more than the property promises will raise a false alarm on them. For such a change also write {out}/show_nK.py, a small program whose output differs between the clean and the changed tree (to prove the change is observable).

For each change nK write {out}/patch_nK.diff (`git diff` against the clean worktree; applies with `git apply`) and {out}/meta_nK.json — {{"summary": what was changed, "observable": true/false and what differs, "why_property_holds": the argument, "files": [...], "suite_result_line": the pytest tail line with the change applied}}. Verify everything yourself (suite line identical with each patch), then leave the worktree clean (`git -C {wt} checkout -- .`). Final message: one line per change.""")
