#!/bin/bash
# usage: seedtest.sh <PROP> <letter> [extra props to check ...]
# Confirms an agent-written mutation in a scratch worktree, runs ./check against it in /repo, stores it under seeded/.
set -u
P=$1; X=$2; shift 2
OUT=/tmp/wt/out-$P
WT=/tmp/wt/confirm-$P-$X
DEST=/verif/seeded/$P-$X
BASE="29 failed, 180 passed, 1 skipped, 10 errors"
[ -f $OUT/patch_$X.diff ] || { echo "no patch"; exit 2; }
git -C /repo worktree add -q --detach $WT HEAD || exit 2
cd $WT
demo() { PYTHONPATH=$WT/hugr-py/src PYTHONHASHSEED=0 timeout 300 /venv/bin/python $OUT/demo_$X.py >/tmp/wt/demo-$P-$X.log 2>&1; echo $?; }
clean_rc=$(demo)
git apply $OUT/patch_$X.diff || { echo "patch does not apply"; cd /; git -C /repo worktree remove --force $WT; exit 2; }
mut_rc=$(demo)
suite=$(timeout 900 /venv/bin/python -m pytest -q -p no:cacheprovider --timeout=900 2>&1 | tail -1)
cd /
echo "demo clean rc=$clean_rc  mutated rc=$mut_rc  suite: $suite"
ok=1
[ "$clean_rc" = 0 ] || ok=0
[ "$mut_rc" != 0 ] || ok=0
case "$suite" in *"$BASE"*) ;; *) ok=0;; esac
if [ $ok = 0 ]; then echo "NOT CONFIRMED"; git -C /repo worktree remove --force $WT; exit 3; fi
# run the checks against the mutated checkout (the scratch worktree of /repo's HEAD with the patch applied;
# VERIF_REPO points the checks at it, so concurrently running work on /repo itself is not disturbed)
res=""
for Q in $P "$@"; do
  cp /verif/evidence/$Q.json /tmp/wt/evidence-$Q.bak 2>/dev/null   # evidence must come from runs against /repo: keep it
  o=$(cd /verif && VERIF_REPO=$WT timeout 3000 ./check $Q --tier quick 2>&1 | grep -E "^(VIOLATION|OK)" | head -3)
  echo "[$Q] $o"
  res="$res [$Q] $o;"
  cp /tmp/wt/evidence-$Q.bak /verif/evidence/$Q.json 2>/dev/null
done
git -C /repo worktree remove --force $WT
(cd /verif && ./check regen >/dev/null 2>&1)   # coq/gen/*.v must describe /repo again
mkdir -p $DEST
cp $OUT/patch_$X.diff $DEST/patch.diff; cp $OUT/demo_$X.py $DEST/demo.py
python3 - "$P" "$X" "$res" "$suite" <<'PY'
import json,sys
P,X,res,suite=sys.argv[1:5]
try: m=json.load(open(f'/tmp/wt/out-{P}/meta_{X}.json'))
except Exception: m={}
m.update({"property":P,"confirmed":{"suite_line_with_patch":suite,"demo_exit_clean":0,"demo_nonzero_with_patch":True,
  "ran":"scratch worktree of /repo HEAD: demo on clean tree, git apply, demo, full pytest; then VERIF_REPO=<that worktree> ./check --tier quick; worktree removed"},
  "check_result_quick":res})
json.dump(m,open(f'/verif/seeded/{P}-{X}/meta.json','w'),indent=1)
PY
echo "stored $DEST"
