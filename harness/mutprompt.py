"""Prints the prompt for a mutation sub-agent (property text only, nothing from /verif) and prepares its scratch worktree.
usage: mutprompt.py <PROP> [tag]"""
import json, os, subprocess, sys
pid = sys.argv[1]
tag = ""
letters = sys.argv[2] if len(sys.argv) > 2 else "ab"      # e.g. "cd" for a second round
import glob
prior = []
for mp in sorted(glob.glob(os.path.join(os.path.dirname(__file__), "..", "seeded", pid + "-*", "meta.json"))):
    try:
        prior.append(json.load(open(mp)).get("summary", "")[:300])
    except Exception:
        pass
props = {json.loads(l)["id"]: json.loads(l) for l in open(os.path.join(os.path.dirname(__file__), "..", "properties.jsonl"))}
p = props[pid]
wt = f"/tmp/wt/{pid}{tag}"
out = f"/tmp/wt/out-{pid}{tag}"
if not os.path.exists(wt):
    subprocess.run(["git", "-C", "/repo", "worktree", "add", "-q", "--detach", wt, "HEAD"], check=True)
else:
    subprocess.run(["git", "-C", wt, "checkout", "-q", "--detach", "main"], check=True)
os.makedirs(out, exist_ok=True)
A, B = letters[0], letters[1]
PRIOR = ("\n\nChanges of these kinds were already tried by others; find DIFFERENT ones (other functions, other parts of the statement, other trigger shapes):\n- " + "\n- ".join(prior)) if prior else ""
print(f"""You are helping to evaluate a verification tool for the Python package hugr-py (in the CQCL/hugr repository). Your job is to write realistic BUGS, not fixes. Work only inside the scratch git worktree {wt} (a checkout of the repository) and write your results to {out}/. Do not read or write anything under /verif or /repo. There is no network.

Property under test ({pid}): {p['title']}
Statement: {p['statement']}
Quantifier: {p['quantifier']['text']}
Relevant code: {', '.join(p['anchors']['files'])}

Produce TWO independent changes, called {A} and {B} (each applies to the clean worktree on its own), to the hugr-py source (under hugr-py/src/hugr) such that each:
1. breaks the property above (some input now violates its statement), while the code still imports and the existing test suite result is unchanged: `cd {wt} && /venv/bin/python -m pytest -q -p no:cacheprovider --timeout=900 2>&1 | tail -1` must still print exactly the same counts as on the clean tree (`29 failed, 180 passed, 1 skipped, 10 errors`; those 39 non-passing tests need an absent Rust binary and are the baseline);
2. is realistic: the kind of slip a maintainer could make in a refactoring or an optimisation (an off-by-one, a wrong default, a lost field, an early return, a swapped argument, a cache that is not invalidated, a condition that is slightly too weak), not sabotage, and at most ~15 changed lines;
3. needs something SPECIFIC to manifest: a particular multi-step sequence of operations, an unusual input shape, a boundary value, or two cooperating sites that each look fine alone — ordinary use (the common path every caller exercises) must keep working. Prefer {A} and {B} to break different parts of the statement through different code, and prefer triggers that a generator of typical inputs is unlikely to hit by chance (a rarely combined pair of features, a second call on the same object, an ordering of calls, a boundary size).{PRIOR}

For each change x in {{{A}, {B}}} write:
- {out}/patch_x.diff — `git diff` of the change against the clean worktree (applies with `git apply`);
- {out}/demo_x.py — a small standalone program using only hugr-py's public API that exits 0 on the clean worktree and exits non-zero (assert failure) with the change applied; run as `cd {wt} && PYTHONPATH={wt}/hugr-py/src PYTHONHASHSEED=0 /venv/bin/python {out}/demo_x.py`;
- {out}/meta_x.json — {{"summary": what was changed, "needs_to_manifest": what input/sequence triggers it, "files": [...], "suite_result_line": the pytest tail line with the change applied}}.
Verify all of it yourself (demo passes clean, fails patched; suite line identical), then leave the worktree clean (`git -C {wt} checkout -- .`). Final message: two lines per change (what, trigger).""")
