"""Random well-formed builder programs as data, and their interpreter over the real hugr-py builders.
A program is a JSON-able tree (dicts/lists/strings/ints).  Types, values and operations are written
as small specs (see mk_ty / mk_val / mk_op).  Every value produced by a statement gets a fresh
integer id ("wire id"); statements name their arguments by wire id, so a program is independent of
the node indices the implementation allocates.
The generator (class Gen) is type directed and keeps the premises of the properties that quantify
over "well-formed builder programs": every input port wired once, linear values consumed exactly
once, non-local (Ext/Dom) wires only for copyable values, Dom wires only from nodes directly inside a
dominating block, order edges pointing forward, no value wire into a function body.
Interpreter: run(prog) -> Result(hugr, nodes, wires, builders) — `nodes[sid]` is the handle the
builder call of statement `sid` returned.
"""
from __future__ import annotations
import json
import random
from dataclasses import dataclass, field
# ----------------------------------------------------------------------------- specs -> hugr objects
LINEAR_ATOMS = ("Q", "LQ")

def is_linear(t) -> bool:
    if isinstance(t, str):
        return t in LINEAR_ATOMS
    k = t[0]
    if k in ("tup",):
        return any(is_linear(x) for x in t[1])
    if k == "sum":
        return any(is_linear(x) for r in t[1] for x in r)
    if k == "opt":
        return is_linear(t[1])
    if k == "var":
        return t[2] == "A"
    if k == "arr":
        return is_linear(t[2])
    return False

def tkey(t) -> str:
    return json.dumps(t)

def mk_ty(t):
    from hugr import tys
    from hugr.std.float import FLOAT_T
    from hugr.std.int import int_t
    from hugr.std.prelude import STRING_T
    if isinstance(t, str):
        if t == "B":
            return tys.Bool
        if t == "Q":
            return tys.Qubit
        if t == "U":
            return tys.Unit
        if t == "F":
            return FLOAT_T
        if t == "I":
            return int_t(5)
        if t == "S":
            return tys.USize()
        if t == "STR":
            return STRING_T
        if t == "LQ":      # an opaque linear type of an unknown extension
            return tys.Opaque(id="lin", bound=tys.TypeBound.Any, args=[], extension="verif.ext")
        if t == "CO":      # an opaque copyable type with an argument
            return tys.Opaque(id="cop", bound=tys.TypeBound.Copyable, args=[tys.BoundedNatArg(3)],
                              extension="verif.ext")
        raise ValueError(t)
    k = t[0]
    if k == "I":
        return int_t(t[1])
    if k == "tup":
        return tys.Tuple(*[mk_ty(x) for x in t[1]])
    if k == "sum":
        return tys.Sum([[mk_ty(x) for x in r] for r in t[1]])
    if k == "usum":
        return tys.UnitSum(t[1])
    if k == "opt":
        return tys.Option(mk_ty(t[1]))
    if k == "fn":
        if len(t) > 3:      # opt-in (see "runtime requirements" below): ["fn", ins, outs, [extension names]]
            return tys.FunctionType([mk_ty(x) for x in t[1]], [mk_ty(x) for x in t[2]], runtime_reqs=list(t[3]))
        return tys.FunctionType([mk_ty(x) for x in t[1]], [mk_ty(x) for x in t[2]])
    if k == "var":
        return tys.Variable(t[1], tys.TypeBound.Any if t[2] == "A" else tys.TypeBound.Copyable)
    if k == "arr":
        from hugr.std.collections.array import Array
        return Array(mk_ty(t[2]), t[1])
    raise ValueError(t)

def sum_rows(t):
    """variant rows (as specs) of a sum-like type spec"""
    if t == "B":
        return [[], []]
    if t == "U":
        return [[]]
    k = t[0]
    if k == "sum":
        return t[1]
    if k == "usum":
        return [[] for _ in range(t[1])]
    if k == "opt":
        return [[], [t[1]]]
    if k == "tup":
        return [t[1]]
    raise ValueError(t)

def is_sum(t) -> bool:
    return t in ("B", "U") or (not isinstance(t, str) and t[0] in ("sum", "usum", "opt", "tup"))

def mk_val(v, it=None):
    """value specs: ["true"] ["false"] ["unit"] ["int",w,x] ["float",x] ["str",s] ["tuple",[vs]]
    ["some",[vs]] ["none",[tys]] ["left",[vs],[tys]] ["right",[tys],[vs]] ["sum",tag,ty,[vs]]
    ["usum",tag,n] ["fn",prog] ["arr",[vs],ty] ["list",[vs],ty] ["sarr",[vs],ty,name]
    it: None (default: every argument is handed over as a list, as always), or a OneShot (see below): arguments the
    API types as Iterable / takes as *args are handed over as one-shot iterators, and a two-variant sum constant whose
    elements have exactly the row's types is built with the convenience constructors val.Left / val.Right"""
    if it is not None:
        return _mk_val_oneshot(v, it)
    from hugr import val
    k = v[0]
    if k == "true":
        return val.TRUE
    if k == "false":
        return val.FALSE
    if k == "unit":
        return val.Unit
    if k == "int":
        from hugr.std.int import IntVal
        return IntVal(v[2], v[1])
    if k == "float":
        from hugr.std.float import FloatVal
        return FloatVal(v[1])
    if k == "str":
        from hugr.std.prelude import StringVal
        return StringVal(v[1])
    if k == "tuple":
        return val.Tuple(*[mk_val(x) for x in v[1]])
    if k == "some":
        return val.Some(*[mk_val(x) for x in v[1]])
    if k == "none":
        return val.None_(*[mk_ty(x) for x in v[1]])
    if k == "left":
        return val.Left([mk_val(x) for x in v[1]], [mk_ty(x) for x in v[2]])
    if k == "right":
        return val.Right([mk_ty(x) for x in v[1]], [mk_val(x) for x in v[2]])
    if k == "sum":
        return val.Sum(v[1], mk_ty(v[2]), [mk_val(x) for x in v[3]])
    if k == "usum":
        return val.UnitSum(v[1], v[2])
    if k == "fn":
        return val.Function(run(v[1]).hugr)
    if k == "arr":
        from hugr.std.collections.array import ArrayVal
        return ArrayVal([mk_val(x) for x in v[1]], mk_ty(v[2]))
    if k == "list":
        from hugr.std.collections.list import ListVal
        return ListVal([mk_val(x) for x in v[1]], mk_ty(v[2]))
    if k == "sarr":
        from hugr.std.collections.static_array import StaticArrayVal
        return StaticArrayVal([mk_val(x) for x in v[1]], mk_ty(v[2]), v[3])
    raise ValueError(v)

def val_ty(v):
    """type spec of a value spec (what the generator believes; the implementation decides)"""
    k = v[0]
    if k in ("true", "false"):
        return "B"
    if k == "unit":
        return "U"
    if k == "int":
        return "I" if v[1] == 5 else ["I", v[1]]
    if k == "float":
        return "F"
    if k == "str":
        return "STR"
    if k == "tuple":
        return ["tup", [val_ty(x) for x in v[1]]]
    if k == "some":
        return ["sum", [[], [val_ty(x) for x in v[1]]]]
    if k == "none":
        return ["sum", [[], list(v[1])]]
    if k == "left":
        return ["sum", [[val_ty(x) for x in v[1]], list(v[2])]]
    if k == "right":
        return ["sum", [list(v[1]), [val_ty(x) for x in v[2]]]]
    if k == "sum":
        return v[2]
    if k == "usum":
        return ["usum", v[2]]
    if k == "fn":
        p = v[1]
        return ["fn", list(p["ins"]), list(p["body"]["out_tys"])]
    if k == "arr":
        return ["arr", len(v[1]), v[2]]
    raise ValueError(v)

def mk_op(o, it=None):
    """op specs: ["noop",ty] ["not"] ["divmod"] ["custom",name,[ins],[outs]] ["mktup",[tys]]
    ["untup",[tys]] ["tag",i,sumty] ["some",[tys]] ["left",[l],[r]] ["right",[l],[r]]
    ["callind"] (signature taken from the first wire)
    it: None, or a OneShot: the rows of tys.Either (typed Iterable) are handed over as one-shot iterators"""
    from hugr import ops, tys
    k = o[0]
    if it is not None and k in ("left", "right"):
        e = tys.Either(it([mk_ty(x) for x in o[1]]), it([mk_ty(x) for x in o[2]]))
        return ops.Left(e) if k == "left" else ops.Right(e)
    if k == "noop":
        return ops.Noop(mk_ty(o[1])) if o[1] is not None else ops.Noop()
    if k == "not":
        from hugr.std.logic import Not
        return Not
    if k == "divmod":
        from hugr.std.int import DivMod
        return DivMod
    if k == "custom":
        return ops.Custom(o[1], tys.FunctionType([mk_ty(x) for x in o[2]], [mk_ty(x) for x in o[3]]),
                          description=(o[4] if len(o) > 4 else ""), extension="verif.ext")
    if k == "mktup":
        return ops.MakeTuple([mk_ty(x) for x in o[1]]) if o[1] is not None else ops.MakeTuple()
    if k == "untup":
        return ops.UnpackTuple([mk_ty(x) for x in o[1]]) if o[1] is not None else ops.UnpackTuple()
    if k == "tag":
        t = mk_ty(o[2])
        return ops.Tag(o[1], t if isinstance(t, tys.Sum) else tys.Sum([[mk_ty(x) for x in r] for r in sum_rows(o[2])]))
    if k == "some":
        return ops.Some(*[mk_ty(x) for x in o[1]])
    if k == "left":
        return ops.Left(tys.Either([mk_ty(x) for x in o[1]], [mk_ty(x) for x in o[2]]))
    if k == "right":
        return ops.Right(tys.Either([mk_ty(x) for x in o[1]], [mk_ty(x) for x in o[2]]))
    if k == "callind":
        return ops.CallIndirect()
    raise ValueError(o)

# ----------------------------------------------------------------------------- one-shot iterables (opt-in, per program)
# A program with the key "oneshot" (an int seed, or the name of one form: "gen" | "iter" | "map" | "tuple" | "list") is
# interpreted with every argument that the public API types as `Iterable[...]` (val.Left / val.Right / tys.Either rows,
# TrackedDfg.track_wires) or takes as *args (add_op / add_nested / add_cfg / add_conditional / add_if / call /
# set_outputs / Dfg(*types) / Cfg / TrackedDfg / add_block / val.Tuple / val.Some / val.None_ / extend(*commands) /
# op(*wires)) handed over as a ONE-SHOT iterable instead of a list; arguments typed `list` / `Sequence` / `TypeRow`
# keep being lists.  Two-variant sum constants are then also built with the convenience constructors (val.Left /
# val.Right / val.Some / val.None_) when the elements have exactly the row's types.  Programs without the key are
# interpreted exactly as before (no random draw, the same objects handed over).

class OneShot:
    FORMS = ("gen", "iter", "map", "tuple", "list")
    def __init__(self, seed):
        self.form = seed if isinstance(seed, str) else None
        if self.form is not None and self.form not in self.FORMS:
            raise ValueError(seed)
        self.rng = random.Random(seed if self.form is None else 0)
        self.handed = {}            # form -> how often (diagnostic)
    def __call__(self, xs):
        xs = list(xs)
        f = self.form or self.rng.choice(("gen", "gen", "iter", "map", "tuple", "list"))
        self.handed[f] = self.handed.get(f, 0) + 1
        if f == "gen":
            return (x for x in xs)
        if f == "iter":
            return iter(xs)
        if f == "map":
            return map(lambda x: x, xs)
        if f == "tuple":
            return tuple(xs)
        return xs
    def sugar(self):
        """use a convenience constructor for a sum constant whose shape allows it?"""
        return self.form is not None or self.rng.random() < 0.75
    def pick(self, xs):
        return xs[0] if self.form is not None else self.rng.choice(xs)

def _plain_elems(vs, row):
    """the generator's belief: the elements have exactly the types of the row (then val.Left / val.Right / val.Some,
    which derive the row from the elements, build the very type the program names)"""
    if len(vs) != len(row):
        return False
    try:
        return all(tkey(val_ty(x)) == tkey(t) for x, t in zip(vs, row))
    except (ValueError, KeyError, IndexError, TypeError):
        return False

def _mk_val_oneshot(v, it):
    from hugr import val
    k = v[0]
    sub = lambda xs: [mk_val(x, it) for x in xs]
    T = lambda xs: [mk_ty(x) for x in xs]
    if k == "tuple":
        return val.Tuple(*it(sub(v[1])))
    if k == "some":
        return val.Some(*it(sub(v[1])))
    if k == "none":
        return val.None_(*it(T(v[1])))
    if k == "left":
        return val.Left(it(sub(v[1])), it(T(v[2])))
    if k == "right":
        return val.Right(it(T(v[1])), it(sub(v[2])))
    if k == "sum":
        tag, t, vs = v[1], v[2], v[3]
        rows = sum_rows(t) if is_sum(t) else None
        if rows is not None and len(rows) == 2 and tag in (0, 1) and _plain_elems(vs, rows[tag]) and it.sugar():
            forms = ["either"]
            if rows[0] == []:
                forms.append("option")
            if it.pick(forms) == "option":
                return val.Some(*it(sub(vs))) if tag == 1 else val.None_(*it(T(rows[1])))
            if tag == 0:
                return val.Left(it(sub(vs)), it(T(rows[1])))
            return val.Right(it(T(rows[0])), it(sub(vs)))
        return val.Sum(tag, mk_ty(t), sub(vs))            # vals: list[Value]
    if k == "arr":
        from hugr.std.collections.array import ArrayVal
        return ArrayVal(sub(v[1]), mk_ty(v[2]))           # v: list[Value]
    if k == "list":
        from hugr.std.collections.list import ListVal
        return ListVal(sub(v[1]), mk_ty(v[2]))
    if k == "sarr":
        from hugr.std.collections.static_array import StaticArrayVal
        return StaticArrayVal(sub(v[1]), mk_ty(v[2]), v[3])
    return mk_val(v)

def mk_param(p):
    from hugr import tys
    if p[0] == "type":
        return tys.TypeTypeParam(tys.TypeBound.Any if p[1] == "A" else tys.TypeBound.Copyable)
    if p[0] == "list":
        return tys.ListParam(mk_param(p[1]))
    if p[0] == "nat":
        return tys.BoundedNatParam(p[1])
    raise ValueError(p)

def mk_arg(a):
    from hugr import tys
    if a[0] == "type":
        return tys.TypeTypeArg(mk_ty(a[1]))
    if a[0] == "seq":
        return tys.SequenceArg([mk_arg(x) for x in a[1]])
    if a[0] == "nat":
        return tys.BoundedNatArg(a[1])
    raise ValueError(a)

# ----------------------------------------------------------------------------- interpreter

@dataclass
class Result:
    hugr: object
    nodes: dict = field(default_factory=dict)      # statement id -> returned handle
    wires: dict = field(default_factory=dict)      # wire id -> OutPort
    builders: dict = field(default_factory=dict)   # statement id -> builder object (containers)
    funcs: dict = field(default_factory=dict)      # function name -> node
    root_builder: object = None
    log: list = field(default_factory=list)        # (statement id, api call name) in execution order

class _Interp:
    def __init__(self, oneshot=None):
        self.r = Result(None)
        self.it = OneShot(oneshot) if oneshot is not None else None     # see "one-shot iterables" above
    def I(self, xs):
        """an argument list that is unpacked (*args) or typed Iterable by the API: as it is, or one-shot"""
        return xs if self.it is None else self.it(xs)
    def WS(self, ids):
        return self.I(self.W(ids))
    # -- regions ---------------------------------------------------------------
    def body(self, b, region, set_out):
        """Runs the statements of a dataflow region on builder `b`; binds region inputs first."""
        ins = b.inputs()
        assert len(ins) == len(region["ins"]), (len(ins), region["ins"])
        for wid, p in zip(region["ins"], ins):
            self.r.wires[wid] = p
        for st in region["stmts"]:
            self.stmt(b, st)
        set_out(*self.I([self.r.wires[w] for w in region["outs"]]))
    def bind(self, st, node, n=None):
        self.r.nodes[st["id"]] = node
        outs = st.get("outs", [])
        for i, wid in enumerate(outs):
            self.r.wires[wid] = node.out(i)
    def W(self, ids):
        return [self.r.wires[w] for w in ids]
    def stmt(self, b, st):
        from hugr import ops
        k = st["k"]
        r = self.r
        r.log.append((st["id"], k))
        md = st.get("md")
        if k == "op":
            op = mk_op(st["op"], self.it)
            args = self.W(st["args"])
            via = st.get("via", "add_op")
            if via == "add_op":
                n = b.add_op(op, *self.I(args), metadata=md) if md is not None else b.add_op(op, *self.I(args))
            elif via == "add":
                n = b.add(op(*self.I(args)), metadata=md) if md is not None else b.add(op(*self.I(args)))
            else:
                (n,) = b.extend(*self.I([op(*self.I(args))]))
            self.bind(st, n)
        elif k == "load":
            v = mk_val(st["val"], self.it)
            cp = st.get("const_parent", "here")
            if cp == "root" and not isinstance(b.hugr[b.hugr.root].op, (ops.Module, ops.DfParentOp)):
                cp = "here"      # a Conditional / CFG root cannot hold constants
            if cp == "root":
                n = b.load(v, const_parent=b.hugr.root)
            elif cp == "node":
                c = b.add_const(v, parent=b.parent_node)
                n = b.load(c)
            else:
                n = b.load(v)
            self.bind(st, n)
        elif k == "loadc":      # load a module-level constant
            n = b.load(r.funcs["const:%d" % st["const"]])
            self.bind(st, n)
        elif k == "call":
            f = r.funcs[st["func"]]
            kw = {}
            if st.get("inst") is not None:
                kw["instantiation"] = mk_ty(st["inst"])
                kw["type_args"] = [mk_arg(a) for a in st["targs"]]
            n = b.call(f, *self.WS(st["args"]), **kw)
            self.bind(st, n)
        elif k == "loadfn":
            f = r.funcs[st["func"]]
            kw = {}
            if st.get("inst") is not None:
                kw["instantiation"] = mk_ty(st["inst"])
                kw["type_args"] = [mk_arg(a) for a in st["targs"]]
            n = b.load_function(f, **kw)
            self.bind(st, n)
        elif k == "nested":
            if st.get("insert"):
                from hugr.build import Dfg
                inner = Dfg(*self.I([mk_ty(t) for t in st["in_tys"]]))
                self.body(inner, st["body"], inner.set_outputs)
                n = b.insert_nested(inner, *self.WS(st["args"]))
                r.builders[st["id"]] = inner
            else:
                with b.add_nested(*self.WS(st["args"])) as inner:
                    self.body(inner, st["body"], inner.set_outputs)
                n = inner.parent_node
                r.builders[st["id"]] = inner
            self.bind(st, n)
        elif k == "cond":
            style = st.get("style", "cases")
            cases = st["cases"]
            if style == "insert":
                from hugr.build import Conditional
                from hugr import tys
                sty = mk_ty(st["sum_ty"])
                if not isinstance(sty, tys.Sum):
                    sty = tys.Sum([[mk_ty(x) for x in rw] for rw in sum_rows(st["sum_ty"])])
                cb = Conditional(sty, [mk_ty(t) for t in st["other_tys"]])
                for i in st.get("order", range(len(cases))):
                    with cb.add_case(i) as c:
                        self.body(c, cases[i], c.set_outputs)
                n = b.insert_conditional(cb, self.r.wires[st["cond"]], *self.WS(st["args"]))
                r.builders[st["id"]] = cb
            elif style == "ifelse":
                with b.add_if(self.r.wires[st["cond"]], *self.WS(st["args"])) as if_:
                    self.body(if_, cases[1], if_.set_outputs)
                with if_.add_else() as else_:
                    self.body(else_, cases[0], else_.set_outputs)
                n = else_.conditional_node
                r.builders[st["id"]] = else_
            else:
                with b.add_conditional(self.r.wires[st["cond"]], *self.WS(st["args"])) as cb:
                    for i in st.get("order", range(len(cases))):
                        with cb.add_case(i) as c:
                            self.body(c, cases[i], c.set_outputs)
                n = cb.parent_node
                r.builders[st["id"]] = cb
            self.bind(st, n)
        elif k == "loop":
            if st.get("insert"):
                from hugr.build import TailLoop
                tl = TailLoop([mk_ty(t) for t in st["just_tys"]], [mk_ty(t) for t in st["rest_tys"]])
                self.body(tl, st["body"], tl.set_loop_outputs)
                n = b.insert_tail_loop(tl, self.W(st["just"]), self.W(st["rest"]))
            else:
                with b.add_tail_loop(self.W(st["just"]), self.W(st["rest"])) as tl:
                    self.body(tl, st["body"], tl.set_loop_outputs)
                n = tl.parent_node
            r.builders[st["id"]] = tl
            self.bind(st, n)
        elif k == "cfg":
            if st.get("insert"):
                from hugr.build import Cfg
                cfg = Cfg(*self.I([mk_ty(t) for t in st["in_tys"]]))
                self.cfg_body(cfg, st)
                n = b.insert_cfg(cfg, *self.WS(st["args"]))
            else:
                with b.add_cfg(*self.WS(st["args"])) as cfg:
                    self.cfg_body(cfg, st)
                n = cfg.parent_node
            r.builders[st["id"]] = cfg
            self.bind(st, n)
        elif k == "order":
            b.add_state_order(self.node_of(b, st["src"]), self.node_of(b, st["dst"]))
        elif k == "localfn":     # a function defined inside this dataflow region and called here
            f = b.define_function(st["name"], [mk_ty(t) for t in st["ins"]],
                                  [mk_ty(t) for t in st["body"]["out_tys"]] if st.get("declare") else None,
                                  parent=b.parent_node)
            self.body(f, st["body"], f.set_outputs)
            r.funcs[st["name"]] = f.parent_node
            r.nodes[st["id"]] = f.parent_node
        else:
            raise ValueError(k)
    def tstmt(self, b, st):
        """statements of a tracked dataflow builder: arguments are ["i", index] or ["w", wire id]"""
        r = self.r
        k = st["k"]
        r.log.append((st["id"], k))
        A = lambda args: self.I([a[1] if a[0] == "i" else r.wires[a[1]] for a in args])
        if k == "tadd":
            op = mk_op(st["op"], self.it)
            md = st.get("md")
            if st.get("via") == "extend":
                (n,) = b.extend(*self.I([op(*A(st["args"]))]))
            else:
                n = b.add(op(*A(st["args"])), metadata=md) if md is not None else b.add(op(*A(st["args"])))
            r.nodes[st["id"]] = n
            for j, wid in enumerate(st["outs"]):
                if wid is not None:
                    r.wires[wid] = n.out(j)
        elif k == "load":
            n = b.load(mk_val(st["val"], self.it))
            self.bind(st, n)
        elif k == "track":
            i = b.track_wire(r.wires[st["w"]])
            assert i == st["idx"], (i, st)
        elif k == "untrack":
            r.wires[st["out"]] = b.untrack_wire(st["idx"])
        elif k == "tout":
            if st["mode"] == "tracked":
                b.set_tracked_outputs()
            else:
                b.set_indexed_outputs(*A(st["args"]))
        else:
            raise ValueError(k)

    def node_of(self, b, ref):
        if ref == "in":
            return b.input_node
        if ref == "out":
            return b.output_node
        return self.r.nodes[ref].to_node()
    def cfg_body(self, cfg, st):
        """blocks: list of {"id", "kind": "entry"|"block"|"succ", "pred": wire id (succ), "in_tys",
        "body": region (outs[0] = branching wire unless "single"), "single": bool, "branch_wires": [ids]}
        then "branches": [[src wire id, dst block index | "exit"]]"""
        blocks = {}
        for bl in st["blocks"]:
            if bl["kind"] == "entry":
                bb = cfg.add_entry()
            elif bl["kind"] == "succ":
                bb = cfg.add_successor(self.r.wires[bl["pred"]])
            else:
                bb = cfg.add_block(*self.I([mk_ty(t) for t in bl["in_tys"]]))
            with bb:
                if bl.get("single"):
                    self.body(bb, bl["body"], bb.set_single_succ_outputs)
                else:
                    self.body(bb, bl["body"], bb.set_block_outputs)
            blocks[bl["id"]] = bb
            self.r.builders[bl["id"]] = bb
            self.r.nodes[bl["id"]] = bb.parent_node
            for i, wid in enumerate(bl["branch_wires"]):
                self.r.wires[wid] = bb.parent_node.out(i)
        for src, dst in st["branches"]:
            if dst == "exit":
                cfg.branch_exit(self.r.wires[src])
            elif dst == "exit_via_branch":
                cfg.branch(self.r.wires[src], cfg.exit)
            else:
                cfg.branch(self.r.wires[src], blocks[dst].parent_node)
    # -- roots -----------------------------------------------------------------
    def root(self, p):
        from hugr.build import Cfg, Conditional, Dfg, Function, Module, TailLoop
        from hugr import tys
        k = p["root"]
        r = self.r
        if k == "dfg":
            b = Dfg(*self.I([mk_ty(t) for t in p["ins"]]))
            self.body(b, p["body"], b.set_outputs)
        elif k == "func":
            b = Function(p["name"], [mk_ty(t) for t in p["ins"]])
            if p.get("declare"):
                b.declare_outputs([mk_ty(t) for t in p["body"]["out_tys"]])
            self.body(b, p["body"], b.set_outputs)
        elif k == "loop":
            b = TailLoop([mk_ty(t) for t in p["just_tys"]], [mk_ty(t) for t in p["rest_tys"]])
            self.body(b, p["body"], b.set_loop_outputs)
        elif k == "cond":
            sty = mk_ty(p["sum_ty"])
            if not isinstance(sty, tys.Sum):
                sty = tys.Sum([[mk_ty(x) for x in rw] for rw in sum_rows(p["sum_ty"])])
            b = Conditional(sty, [mk_ty(t) for t in p["other_tys"]])
            for i in p.get("order", range(len(p["cases"]))):
                with b.add_case(i) as c:
                    self.body(c, p["cases"][i], c.set_outputs)
        elif k == "cfg":
            b = Cfg(*self.I([mk_ty(t) for t in p["in_tys"]]))
            self.cfg_body(b, p)
        elif k == "tdfg":
            from hugr.build import TrackedDfg
            track_in = p.get("track_inputs", True)
            # one-shot mode: track_inputs=True is track_wires(inputs()); spelled out, the wires as a one-shot iterable
            spell = self.it is not None and track_in and self.it.pick([True, False])
            b = TrackedDfg(*self.I([mk_ty(t) for t in p["ins"]]), track_inputs=track_in and not spell)
            for wid, port in zip(p["in_wires"], b.inputs()):
                r.wires[wid] = port
            if spell:
                b.track_wires(self.I(b.inputs()))
            elif not track_in and self.it is not None:
                b.track_wires(self.I([r.wires[wid] for wid in p.get("track_these", [])]))
            elif not track_in:
                for wid in p.get("track_these", []):
                    b.track_wire(r.wires[wid])
            for st in p["stmts"]:
                self.tstmt(b, st)
        elif k == "module":
            b = Module()
            for i, v in enumerate(p.get("consts", [])):
                r.funcs["const:%d" % i] = b.add_const(mk_val(v, self.it))
            fbs = []
            for f in p["funcs"]:
                if f.get("decl"):
                    sig = tys.PolyFuncType([mk_param(x) for x in f.get("params", [])],
                                           tys.FunctionType([mk_ty(t) for t in f["ins"]], [mk_ty(t) for t in f["outs"]]))
                    if f.get("reqs"):       # opt-in (see "runtime requirements" below)
                        sig = tys.PolyFuncType(sig.params, tys.FunctionType(sig.body.input, sig.body.output,
                                                                            runtime_reqs=list(f["reqs"])))
                    r.funcs[f["name"]] = b.declare_function(f["name"], sig)
                    fbs.append(None)
                else:
                    if f["name"] == "main" and not f.get("params") and not f.get("declare"):
                        fb = b.define_main([mk_ty(t) for t in f["ins"]])
                    else:
                        fb = b.define_function(f["name"], [mk_ty(t) for t in f["ins"]],
                                               [mk_ty(t) for t in f["outs"]] if f.get("declare") else None,
                                               [mk_param(x) for x in f["params"]] if f.get("params") else None)
                    r.funcs[f["name"]] = fb.parent_node
                    fbs.append(fb)
            for f, fb in zip(p["funcs"], fbs):
                if fb is not None:
                    r.nodes["fn:" + f["name"]] = fb.parent_node
                    r.builders["fn:" + f["name"]] = fb
                    self.body(fb, f["body"], fb.set_outputs)
        else:
            raise ValueError(k)
        r.hugr = b.hugr
        r.root_builder = b
        return r

def run(prog) -> Result:
    return _Interp(prog.get("oneshot")).root(prog)

# ----------------------------------------------------------------------------- generator
MD_VALUES = [0, "", [], {}, None, 1, -3, 2.5, "x", "naïve ✓", [1, [2, {"a": None}]], {"k": {"n": [0, ""]}}, True, False]

class Gen:
    """Type-directed random generator.  All choices come from self.rng."""
    def __init__(self, rng: random.Random, max_depth=3, size=6, allow=("nested", "cond", "loop", "cfg", "call", "order", "md", "insert", "fnval", "poly", "localfn")):
        self.rng = rng
        self.max_depth = max_depth
        self.size = size
        self.allow = set(allow)
        self.nw = 0           # wire ids
        self.ns = 0           # statement ids
        self.funcs = []       # module-level functions visible to calls: dicts name, params, ins, outs
        self.consts = []      # module-level constants (value specs)
    # -- ids
    def wire(self):
        self.nw += 1
        return self.nw
    def sid(self):
        self.ns += 1
        return self.ns
    # -- types
    COPY_ATOMS = ["B", "B", "I", "I", "F", "U", "CO", ["I", 3], ["usum", 3]]
    def rand_ty(self, depth=0, linear_ok=True, fn_ok=True):
        if "hof" in self.allow and fn_ok and depth < 2 and self.rng.random() < 0.12:
            # opt-in (not in the default `allow`: the default stream draws nothing here): function types are frequent
            return ["fn", [self.rand_ty(depth + 1, linear_ok, False) for _ in range(self.rng.randint(0, 2))],
                    [self.rand_ty(depth + 1, linear_ok, False) for _ in range(self.rng.randint(0, 2))]]
        r = self.rng.random()
        if linear_ok and r < 0.22:
            return self.rng.choice(["Q", "Q", "Q", "LQ"])
        if depth < 2 and r < 0.34:
            n = self.rng.randint(0, 3)
            return ["tup", [self.rand_ty(depth + 1, linear_ok, fn_ok) for _ in range(n)]]
        if depth < 2 and r < 0.44:
            nv = self.rng.randint(1, 3)
            return ["sum", [[self.rand_ty(depth + 1, False, fn_ok) for _ in range(self.rng.randint(0, 2))] for _ in range(nv)]]
        if depth < 2 and r < 0.48:
            return ["sum", [[], [self.rand_ty(depth + 1, False, fn_ok)]]]
        if fn_ok and depth < 2 and r < 0.53:
            return ["fn", [self.rand_ty(depth + 1, linear_ok, False) for _ in range(self.rng.randint(0, 2))],
                    [self.rand_ty(depth + 1, linear_ok, False) for _ in range(self.rng.randint(0, 2))]]
        return self.rng.choice(self.COPY_ATOMS)
    def rand_row(self, n=None, linear_ok=True):
        n = self.rng.choice([0, 1, 1, 2, 2, 3]) if n is None else n
        return [self.rand_ty(0, linear_ok) for _ in range(n)]
    # -- constants
    def const_for(self, t, depth=0):
        """a value spec of type t, or None when no constant of that type can be written"""
        rng = self.rng
        if isinstance(t, str):
            if t == "B":
                return [rng.choice(["true", "false"])]
            if t == "U":
                return ["unit"]
            if t == "I":
                return ["int", 5, rng.randint(0, 31)]
            if t == "F":
                return ["float", rng.choice([0.5, 1.5, -2.0, 0.0])]
            if t == "STR":
                return ["str", rng.choice(["", "héllo", "a b"])]
            return None
        k = t[0]
        if k == "I":
            return ["int", t[1], rng.randint(0, (1 << (1 << t[1])) - 1) if t[1] < 6 else rng.randint(0, 1 << 40)]
        if k == "usum":
            return ["usum", rng.randrange(t[1]), t[1]] if t[1] > 0 else None
        if k == "tup":
            vs = [self.const_for(x, depth + 1) for x in t[1]]
            return None if any(v is None for v in vs) else ["tuple", vs]
        if k == "opt":
            if rng.random() < 0.5:
                v = self.const_for(t[1], depth + 1)
                if v is not None:
                    return ["sum", 1, ["sum", [[], [t[1]]]], [v]]
            return ["sum", 0, ["sum", [[], [t[1]]]], []]
        if k == "sum":
            rows = t[1]
            idx = list(range(len(rows)))
            rng.shuffle(idx)
            for i in idx:
                vs = [self.const_for(x, depth + 1) for x in rows[i]]
                if all(v is not None for v in vs):
                    return ["sum", i, t, vs]
            return None
        if k == "fn" and "fnval" in self.allow and depth < 2:
            sub = Gen(rng, max_depth=1, size=3, allow=("md",))      # its own id space: run() separately
            ins = t[1]
            wins = [(sub.wire(), x) for x in ins]
            body = sub.region(wins, [], 1, required=t[2], nstmts=rng.randint(0, 2))
            if body is None:
                return None
            return ["fn", {"root": "dfg", "ins": ins, "body": body}]
        return None
    # -- regions
    def isolated(self, insert, f, *a, **k):
        """runs generator f; when the construct is built as a separate HUGR and inserted, module-level
        functions and constants of the target HUGR are not reachable from it"""
        if not insert:
            return f(*a, **k)
        saved = (self.funcs, self.consts)
        self.funcs, self.consts = [], []
        try:
            return f(*a, **k)
        finally:
            self.funcs, self.consts = saved

    def region(self, local, ext, depth, required=None, nstmts=None, dom=()):
        """local: [(wire, ty)] inputs of the region; ext: copyable wires of enclosing regions usable
        through non-local edges.  Returns {"ins","stmts","outs","out_tys"} or None if `required`
        cannot be met."""
        rng = self.rng
        S = _Scope(self, [w for w, _ in local], list(local), list(ext), depth, list(dom))
        n = rng.randint(0, self.size) if nstmts is None else nstmts
        for _ in range(n):
            S.random_stmt()
        if required is None:
            outs = []
            for w, t in S.unconsumed_linear():
                outs.append((w, t))
            cop = S.copyable_here()
            rng.shuffle(cop)
            for w, t in cop[: rng.randint(0, 3)]:
                outs.append((w, t))
            if ext and rng.random() < 0.15:
                outs.append(rng.choice(ext))        # an outer wire straight to the Output node
            rng.shuffle(outs)
            for w, t in outs:
                S.consume(w)
        else:
            outs = []
            for t in required:
                w = S.obtain(t)
                if w is None:
                    return None
                outs.append((w, t))
            for w, t in S.unconsumed_linear():
                S.drop(w, t)
        S.maybe_order_edges()
        return {"ins": S.in_ids, "stmts": S.stmts, "outs": [w for w, _ in outs], "out_tys": [t for _, t in outs],
                "defs": [[w, t] for w, t in S.direct_defs if not is_linear(t)]}

class _Scope:
    def __init__(self, g: Gen, in_ids, local, ext, depth, dom=()):
        self.g, self.rng = g, g.rng
        self.in_ids = in_ids
        self.vals = list(local)          # [(wire, ty)] defined in this region, in definition order
        self.ext = ext                   # copyable wires from outside (usable at any depth below)
        self.dom = list(dom)             # copyable wires of dominating blocks (usable only directly here)
        self.direct_defs = list(local)   # values whose defining node is a direct child of this region
        self.used = set()                # consumed linear wires
        self.stmts = []
        self.depth = depth
        self.node_stmts = []             # ids of statements that created a sibling dataflow node
    # -- bookkeeping
    def unconsumed_linear(self):
        return [(w, t) for w, t in self.vals if is_linear(t) and w not in self.used]
    def copyable_here(self):
        return [(w, t) for w, t in self.vals if not is_linear(t)]
    def copyable_all(self):
        return self.copyable_here() + self.ext + self.dom
    def consume(self, w):
        self.used.add(w)
    def emit(self, st, outs_tys=()):
        st["id"] = self.g.sid()
        outs = []
        for t in outs_tys:
            w = self.g.wire()
            outs.append(w)
            self.vals.append((w, t))
            self.direct_defs.append((w, t))
        if outs_tys or "outs" in st:
            st["outs"] = outs
        self.stmts.append(st)
        if st["k"] != "order" and st["k"] != "localfn":
            self.node_stmts.append(st["id"])
        return outs
    def pick(self, pred, linear_ok=True):
        """a usable wire satisfying pred(ty): copyable from anywhere, linear only local & unconsumed"""
        c = [(w, t) for w, t in self.copyable_all() if pred(t)]
        if linear_ok:
            c += [(w, t) for w, t in self.unconsumed_linear() if pred(t)]
        if not c:
            return None
        w, t = self.rng.choice(c)
        if is_linear(t):
            self.consume(w)
        return w, t
    def of_type(self, t):
        k = tkey(t)
        return self.pick(lambda x: tkey(x) == k)
    def drop(self, w, t):
        self.consume(w)
        self.emit({"k": "op", "op": ["custom", "drop", [t], []], "args": [w]}, [])
    def obtain(self, t, depth=0):
        """a wire of exactly type t: an existing one, or built from constants / allocation / tagging"""
        rng = self.rng
        have = self.of_type(t) if (rng.random() < 0.8 or is_linear(t)) else None
        if have is not None:
            return have[0]
        if not is_linear(t):
            v = self.g.const_for(t)
            if v is not None:
                (w,) = self.emit({"k": "load", "val": v, "const_parent": rng.choice(["here", "here", "node", "root"])}, [t])
                return w
        if t in LINEAR_ATOMS:
            (w,) = self.emit({"k": "op", "op": ["custom", "alloc", [], [t]], "args": []}, [t])
            self.consume(w)
            return w
        if depth > 3:
            return None
        if not isinstance(t, str) and t[0] == "tup":
            ws = [self.obtain(x, depth + 1) for x in t[1]]
            if any(w is None for w in ws):
                return None
            (w,) = self.emit({"k": "op", "op": ["mktup", t[1] if rng.random() < 0.5 else None], "args": ws}, [t])
            self.consume(w)
            return w
        if is_sum(t):
            rows = sum_rows(t)
            idx = list(range(len(rows)))
            rng.shuffle(idx)
            for i in idx:
                ws = [self.obtain(x, depth + 1) for x in rows[i]]
                if all(w is not None for w in ws):
                    (w,) = self.emit({"k": "op", "op": ["tag", i, t], "args": ws}, [t])
                    self.consume(w)
                    return w
            return None
        have = self.of_type(t)
        if have:
            return have[0]
        if not is_linear(t) and "var" not in tkey(t):
            (w,) = self.emit({"k": "op", "op": ["custom", "make", [], [t]], "args": []}, [t])
            return w
        return None
    # -- statements
    def random_stmt(self):
        rng, g = self.rng, self.g
        kinds = ["op"] * 6 + ["load"] * 2
        if self.depth < g.max_depth:
            for k, wgt in (("nested", 2), ("cond", 2), ("loop", 1), ("cfg", 1)):
                if k in g.allow:
                    kinds += [k] * wgt
        if "call" in g.allow and (g.funcs or g.consts):
            kinds += ["call"] * (8 if "hof" in g.allow and g.funcs else 2)      # "hof" (opt-in): calls are frequent
        if "localfn" in g.allow and self.depth < g.max_depth and rng.random() < 0.3:
            kinds += ["localfn"]
        getattr(self, "s_" + rng.choice(kinds))()
    def md(self):
        if "md" in self.g.allow and self.rng.random() < 0.3:
            return {self.rng.choice(["name", "k", "", "ü"]): self.rng.choice(MD_VALUES) for _ in range(self.rng.randint(0, 2))}
        return None
    def via(self):
        return self.rng.choice(["add_op", "add_op", "add", "extend"])
    def s_op(self):
        rng = self.rng
        choices = ["noop", "not", "divmod", "lin1", "lin2", "measure", "mktup", "untup", "tag", "cust", "callind", "alloc"]
        if "hof" in self.g.allow:       # opt-in: higher-order calls are frequent
            choices = choices + ["callind"] * 3
        k = rng.choice(choices)
        st = None
        if k == "noop":
            p = self.pick(lambda t: True, linear_ok=False)
            if p:
                st, outs = {"k": "op", "op": ["noop", p[1] if rng.random() < 0.5 else None], "args": [p[0]]}, [p[1]]
        elif k == "not":
            p = self.of_type("B")
            if p:
                st, outs = {"k": "op", "op": ["not"], "args": [p[0]]}, ["B"]
        elif k == "divmod":
            a, b = self.of_type("I"), self.of_type("I")
            if a and b:
                st, outs = {"k": "op", "op": ["divmod"], "args": [a[0], b[0]]}, ["I", "I"]
        elif k == "lin1":
            p = self.pick(is_linear)
            if p:
                st, outs = {"k": "op", "op": ["custom", "lin1", [p[1]], [p[1]]], "args": [p[0]]}, [p[1]]
        elif k == "lin2":
            a = self.pick(is_linear)
            b = self.pick(is_linear)
            if a and b:
                st, outs = {"k": "op", "op": ["custom", "lin2", [a[1], b[1]], [a[1], b[1]], "two ✓"], "args": [a[0], b[0]]}, [a[1], b[1]]
            elif a:
                st, outs = {"k": "op", "op": ["custom", "lin1", [a[1]], [a[1]]], "args": [a[0]]}, [a[1]]
        elif k == "measure":
            p = self.of_type("Q")
            if p:
                st, outs = {"k": "op", "op": ["custom", "measure", ["Q"], ["Q", "B"]], "args": [p[0]]}, ["Q", "B"]
        elif k == "alloc":
            t = rng.choice(["Q", "LQ"])
            st, outs = {"k": "op", "op": ["custom", "alloc", [], [t]], "args": []}, [t]
        elif k == "mktup":
            ps = [self.pick(lambda t: True) for _ in range(rng.randint(0, 3))]
            ps = [p for p in ps if p]
            tl = [p[1] for p in ps]
            st, outs = {"k": "op", "op": ["mktup", tl if rng.random() < 0.5 else None], "args": [p[0] for p in ps]}, [["tup", tl]]
        elif k == "untup":
            p = self.pick(lambda t: not isinstance(t, str) and t[0] == "tup")
            if p:
                st, outs = {"k": "op", "op": ["untup", p[1][1] if rng.random() < 0.5 else None], "args": [p[0]]}, list(p[1][1])
        elif k == "tag":
            # tag some available values into a fresh sum type
            ps = [self.pick(lambda t: True, linear_ok=False) for _ in range(rng.randint(0, 2))]
            ps = [p for p in ps if p]
            row = [p[1] for p in ps]
            other = [self.g.rand_ty(1, False) for _ in range(rng.randint(0, 2))]
            r = rng.random()
            if r < 0.25 and len(row) >= 1:
                st, outs = {"k": "op", "op": ["some", row], "args": [p[0] for p in ps]}, [["sum", [[], row]]]
            elif r < 0.45:
                st, outs = {"k": "op", "op": ["left", row, other], "args": [p[0] for p in ps]}, [["sum", [row, other]]]
            elif r < 0.65:
                st, outs = {"k": "op", "op": ["right", other, row], "args": [p[0] for p in ps]}, [["sum", [other, row]]]
            else:
                rows = [other, row, []]
                st, outs = {"k": "op", "op": ["tag", 1, ["sum", rows]], "args": [p[0] for p in ps]}, [["sum", rows]]
        elif k == "cust":
            ps = [self.pick(lambda t: True, linear_ok=False) for _ in range(rng.randint(0, 2))]
            ps = [p for p in ps if p]
            outs = [self.g.rand_ty(1, False) for _ in range(rng.randint(0, 3))]
            st = {"k": "op", "op": ["custom", "f%d" % rng.randint(0, 3), [p[1] for p in ps], outs, rng.choice(["", "descr", "δ"])],
                  "args": [p[0] for p in ps]}
        elif k == "callind":
            p = self.pick(lambda t: not isinstance(t, str) and t[0] == "fn", linear_ok=False)
            if p:
                args = []
                ok = True
                for t in p[1][1]:
                    a = self.obtain(t)
                    if a is None:
                        ok = False
                        break
                    if is_linear(t):
                        self.consume(a)
                    args.append(a)
                if ok:
                    st, outs = {"k": "op", "op": ["callind"], "args": [p[0]] + args}, list(p[1][2])
        if st is None:
            return
        md = self.md()
        if md is not None:
            st["md"] = md
        st["via"] = "add_op" if md is not None and rng.random() < 0.5 else self.via()
        if st["via"] == "extend" and md is not None:
            st["via"] = "add"
        self.emit(st, outs)
    def s_load(self):
        if "sumconst" in self.g.allow and self.rng.random() < 0.5:
            # opt-in (not in the default `allow`: the default stream draws nothing here): a two-variant sum constant
            # with a non-empty chosen row, the shape val.Left / val.Right / val.Some are made for
            g, rng = self.g, self.rng
            tag = rng.randrange(2)
            rows = [[g.rand_ty(1, False, False) for _ in range(rng.randint(0, 2))] for _ in range(2)]
            if rng.random() < 0.3:
                rows[0] = []
            vs = None
            for _ in range(4):
                rows[tag] = [g.rand_ty(1, False, False) for _ in range(rng.randint(1, 3))]
                vs = [g.const_for(x, 1) for x in rows[tag]]
                if all(v is not None for v in vs):
                    break
                vs = None
            if vs is not None:
                t = ["sum", rows]
                self.emit({"k": "load", "val": ["sum", tag, t, vs],
                           "const_parent": rng.choice(["here", "here", "node", "root"])}, [t])
                return
        t = self.g.rand_ty(0, linear_ok=False)
        v = self.g.const_for(t)
        if v is None:
            return
        self.emit({"k": "load", "val": v, "const_parent": self.rng.choice(["here", "here", "node", "root"])}, [val_ty(v) if v[0] != "sum" else t])
    def args_for(self, tys_):
        args = []
        for t in tys_:
            a = self.obtain(t)
            if a is None:
                return None
            if is_linear(t):
                self.consume(a)
            args.append(a)
        return args
    def s_call(self):
        rng, g = self.rng, self.g
        if g.consts and rng.random() < 0.25:
            i = rng.randrange(len(g.consts))
            self.emit({"k": "loadc", "const": i}, [val_ty(g.consts[i])])
            return
        if not g.funcs:
            return
        f = rng.choice(g.funcs)
        inst = targs = None
        ins, outs = f["ins"], f["outs"]
        if f.get("params"):
            ins, outs, inst, targs = self.instantiate(f)
        hof = "hof" in g.allow      # opt-in (not in the default `allow`: the default stream draws exactly what it drew)
        if rng.random() < (0.5 if hof else 0.25):
            ws = self.emit({"k": "loadfn", "func": f["name"], "inst": inst, "targs": targs}, [["fn", ins, outs]])
            if hof and rng.random() < 0.7:
                # the loaded function value is called right away (higher-order call of a statically known function)
                args = self.args_for(ins)
                if args is not None:
                    self.emit({"k": "op", "op": ["callind"], "args": [ws[0]] + args, "via": self.via()}, list(outs))
            return
        args = self.args_for(ins)
        if args is None:
            return
        self.emit({"k": "call", "func": f["name"], "args": args, "inst": inst, "targs": targs}, list(outs))
    def instantiate(self, f):
        """f is one of the polymorphic templates made by Gen.module"""
        rng = self.rng
        if f["poly"] == "type":
            t = rng.choice(["B", "I", ["tup", ["B", "F"]]]) if f["params"][0][1] == "C" else rng.choice(["Q", "B", "LQ"])
            sub = lambda x: t if (not isinstance(x, str) and x[0] == "var") else x
            ins, outs = [sub(x) for x in f["ins"]], [sub(x) for x in f["outs"]]
            return ins, outs, ["fn", ins, outs], [["type", t]]
        # row-polymorphic: ins = outs = [rowvar]; instantiate with a row of any length
        row = [rng.choice(["B", "I", "F"]) for _ in range(rng.choice([0, 1, 2, 3]))]
        return row, row, ["fn", row, row], [["seq", [["type", t] for t in row]]]
    def inner_ext(self):
        """copyable wires an inner region may use non-locally (Dom wires only work directly in a block)"""
        return self.copyable_here() + self.ext
    def s_nested(self):
        rng = self.rng
        insert = "insert" in self.g.allow and rng.random() < 0.25
        n = rng.randint(0, 3)
        ps = [self.pick(lambda t: True) for _ in range(n)]
        ps = [p for p in ps if p]
        inner_in = [(self.g.wire(), p[1]) for p in ps]
        body = self.g.isolated(insert, self.g.region, inner_in, [] if insert else self.inner_ext(), self.depth + 1)
        st = {"k": "nested", "args": [p[0] for p in ps], "body": body, "insert": insert, "in_tys": [p[1] for p in ps]}
        self.emit(st, body["out_tys"])
    def s_cond(self):
        rng, g = self.rng, self.g
        p = self.pick(is_sum, linear_ok=True)
        if p is None:
            v = ["usum", rng.randrange(3), 3] if rng.random() < 0.3 else [rng.choice(["true", "false"])]
            (w,) = self.emit({"k": "load", "val": v}, [val_ty(v)])
            p = (w, val_ty(v))
        rows = sum_rows(p[1])
        n = rng.randint(0, 2)
        others = [self.pick(lambda t: True) for _ in range(n)]
        others = [o for o in others if o]
        other_tys = [o[1] for o in others]
        style = "cases"
        if len(rows) == 2 and rows == [[], []] and rng.random() < 0.4:
            style = "ifelse"
        elif "insert" in g.allow and rng.random() < 0.2:
            style = "insert"
        ext = [] if style == "insert" else self.inner_ext()
        order = list(range(len(rows)))
        if style == "ifelse":
            order = [1, 0]
        else:
            rng.shuffle(order)
        cases = [None] * len(rows)
        req = None
        for i in order:
            cin = [(g.wire(), t) for t in rows[i] + other_tys]
            body = g.isolated(style == "insert", g.region, cin, ext, self.depth + 1, required=req)
            if body is None:      # cannot meet the agreed outputs: fall back to pass-through of a fresh agreement
                return self.fallback_cond(p, others, rows, style, ext, order)
            if req is None:
                req = body["out_tys"]
            cases[i] = body
        if not rows:
            return
        st = {"k": "cond", "cond": p[0], "args": [o[0] for o in others], "cases": cases, "style": style,
              "order": order, "sum_ty": p[1], "other_tys": other_tys}
        self.emit(st, req)
    def fallback_cond(self, p, others, rows, style, ext, order):
        g = self.g
        req = [o[1] for o in others if is_linear(o[1])]
        cases = []
        for i in range(len(rows)):
            cin = [(g.wire(), t) for t in rows[i] + [o[1] for o in others]]
            body = g.region(cin, ext, self.depth + 1, required=req, nstmts=0)
            assert body is not None
            cases.append(body)
        st = {"k": "cond", "cond": p[0], "args": [o[0] for o in others], "cases": cases, "style": style,
              "order": order, "sum_ty": p[1], "other_tys": [o[1] for o in others]}
        self.emit(st, req)
    def s_loop(self):
        rng, g = self.rng, self.g
        just = [self.pick(lambda t: True) for _ in range(rng.randint(0, 2))]
        just = [x for x in just if x]
        rest = [self.pick(lambda t: True) for _ in range(rng.randint(0, 2))]
        rest = [x for x in rest if x]
        just_tys, rest_tys = [x[1] for x in just], [x[1] for x in rest]
        just_out = [g.rand_ty(1, False) for _ in range(rng.randint(0, 2))]
        insert = "insert" in g.allow and rng.random() < 0.2
        cin = [(g.wire(), t) for t in just_tys + rest_tys]
        sum_ty = ["sum", [just_tys, just_out]]
        body = g.isolated(insert, g.region, cin, [] if insert else self.inner_ext(), self.depth + 1, required=[sum_ty] + rest_tys)
        if body is None:
            # give back the wires we took: simplest is to drop the linear ones
            for w, t in just + rest:
                if is_linear(t):
                    self.used.discard(w)
            return
        st = {"k": "loop", "just": [x[0] for x in just], "rest": [x[0] for x in rest], "body": body,
              "insert": insert, "just_tys": just_tys, "rest_tys": rest_tys}
        self.emit(st, just_out + rest_tys)
    def s_cfg(self):
        rng, g = self.rng, self.g
        ins = [self.pick(lambda t: True) for _ in range(rng.randint(0, 2))]
        ins = [x for x in ins if x]
        in_tys = [x[1] for x in ins]
        insert = "insert" in g.allow and rng.random() < 0.2
        ext = [] if insert else self.inner_ext()
        cfg = g.isolated(insert, g.cfg, in_tys, ext, self.depth + 1)
        if cfg is None:
            for w, t in ins:
                if is_linear(t):
                    self.used.discard(w)
            return
        st = {"k": "cfg", "args": [x[0] for x in ins], "insert": insert, "in_tys": in_tys, **cfg}
        self.emit(st, cfg["out_tys"])
    def s_localfn(self):
        g, rng = self.g, self.rng
        ins = g.rand_row(linear_ok=True)
        cin = [(g.wire(), t) for t in ins]
        # static (function/const) wires may enter a function body, value wires may not: ext = []
        saved = g.funcs
        body = g.region(cin, [], self.depth + 1)
        name = "local%d" % g.sid()
        st = {"k": "localfn", "name": name, "ins": ins, "body": body, "declare": rng.random() < 0.5}
        self.emit(st)
        outs = body["out_tys"]
        args = self.args_for(ins)
        if args is None:
            return
        g_f = {"name": name, "ins": ins, "outs": outs}
        self.emit({"k": "call", "func": name, "args": args, "inst": None, "targs": None}, list(outs))
    def maybe_order_edges(self):
        rng = self.rng
        if "order" not in self.g.allow or len(self.node_stmts) < 2:
            return
        for _ in range(rng.choice([0, 0, 1, 2])):
            i, j = sorted(rng.sample(range(len(self.node_stmts)), 2))
            self.stmts.append({"k": "order", "id": self.g.sid(), "src": self.node_stmts[i], "dst": self.node_stmts[j]})
        if rng.random() < 0.1 and self.node_stmts:
            self.stmts.append({"k": "order", "id": self.g.sid(), "src": "in", "dst": rng.choice(self.node_stmts)})

def _gen_cfg(self: Gen, in_tys, ext, depth):
    """Control-flow shapes with random block bodies.  Returns {"blocks","branches","out_tys"}."""
    rng = self.rng
    shape = rng.choice(["diamond", "chain", "selfloop", "direct"])
    blocks, branches = [], []
    def block(kind, tys_in, required, dom_ext, single, pred=None, nsucc=None):
        cin = [(self.wire(), t) for t in tys_in]
        body = self.region(cin, ext, depth, required=required, dom=dom_ext)
        if body is None:
            return None
        bid = self.sid()
        n = 1 if single else nsucc
        bw = [self.wire() for _ in range(n)]
        bl = {"id": bid, "kind": kind, "in_tys": tys_in, "body": body, "single": single, "branch_wires": bw}
        if pred is not None:
            bl["pred"] = pred
        blocks.append(bl)
        # values defined directly in this block that later (dominated) blocks may use
        dom = [(w, t) for w, t in body["defs"]] + list(dom_ext)
        return bl, dom
    lin_in = [t for t in in_tys]
    out_tys = [t for t in in_tys if is_linear(t)] + [self.rand_ty(1, False) for _ in range(rng.randint(0, 2))]
    if shape == "direct":
        r = block("entry", in_tys, out_tys, [], True)
        if r is None:
            return None
        branches.append([r[0]["branch_wires"][0], rng.choice(["exit", "exit_via_branch"])])
    elif shape == "chain":
        mid = [t for t in in_tys if is_linear(t)] + [self.rand_ty(1, False) for _ in range(rng.randint(0, 2))]
        r = block("entry", in_tys, mid, [], True)
        if r is None:
            return None
        e, dom = r
        if rng.random() < 0.5:
            r2 = block("succ", mid, out_tys, dom, True, pred=e["branch_wires"][0])
        else:
            r2 = block("block", mid, out_tys, dom, True)
            if r2 is not None:
                branches.append([e["branch_wires"][0], r2[0]["id"]])
        if r2 is None:
            return None
        branches.append([r2[0]["branch_wires"][0], "exit"])
    elif shape == "diamond":
        nv = rng.randint(2, 3)
        rows = [[self.rand_ty(1, False) for _ in range(rng.randint(0, 1))] for _ in range(nv)]
        others = [t for t in in_tys if is_linear(t)] + [self.rand_ty(1, False) for _ in range(rng.randint(0, 1))]
        r = block("entry", in_tys, [["sum", rows]] + others, [], False, nsucc=nv)
        if r is None:
            return None
        e, dom = r
        for i in range(nv):
            r2 = block("succ", rows[i] + others, out_tys, dom, True, pred=e["branch_wires"][i])
            if r2 is None:
                return None
            branches.append([r2[0]["branch_wires"][0], "exit"])
    else:  # selfloop: entry -> b ; b -> b | exit
        state = [t for t in in_tys if is_linear(t)] + [self.rand_ty(1, False) for _ in range(rng.randint(0, 2))]
        r = block("entry", in_tys, state, [], True)
        if r is None:
            return None
        e, dom = r
        r2 = block("succ", state, [["sum", [state, out_tys]]], dom, False, pred=e["branch_wires"][0], nsucc=2)
        if r2 is None:
            return None
        b = r2[0]
        branches.append([b["branch_wires"][0], b["id"]])
        branches.append([b["branch_wires"][1], "exit"])
    return {"blocks": blocks, "branches": branches, "out_tys": out_tys}

Gen.cfg = _gen_cfg

def _gen_program(self: Gen, root=None):
    """A whole program.  root in dfg | func | module | loop | cond | cfg (random when None)."""
    rng = self.rng
    root = root or rng.choice(["dfg", "dfg", "module", "module", "module", "func", "loop", "cond", "cfg"])
    if root == "dfg" or root == "func":
        ins = self.rand_row()
        cin = [(self.wire(), t) for t in ins]
        body = self.region(cin, [], 0)
        p = {"root": root, "ins": ins, "body": body}
        if root == "func":
            p["name"] = "f"
            p["declare"] = rng.random() < 0.5
        return p
    if root == "loop":
        just, rest = self.rand_row(rng.randint(0, 2)), self.rand_row(rng.randint(0, 2))
        jo = [self.rand_ty(1, False) for _ in range(rng.randint(0, 2))]
        cin = [(self.wire(), t) for t in just + rest]
        body = self.region(cin, [], 0, required=[["sum", [just, jo]]] + rest)
        if body is None:
            return self.program("dfg")
        return {"root": "loop", "just_tys": just, "rest_tys": rest, "body": body}
    if root == "cond":
        rows = [[self.rand_ty(1, True) for _ in range(rng.randint(0, 2))] for _ in range(rng.randint(1, 3))]
        others = self.rand_row(rng.randint(0, 2))
        cases, req = [], None
        order = list(range(len(rows)))
        rng.shuffle(order)
        cases = [None] * len(rows)
        for i in order:
            cin = [(self.wire(), t) for t in rows[i] + others]
            body = self.region(cin, [], 1, required=req)
            if body is None:
                return self.program("dfg")
            req = body["out_tys"] if req is None else req
            cases[i] = body
        return {"root": "cond", "sum_ty": ["sum", rows], "other_tys": others, "cases": cases, "order": order}
    if root == "cfg":
        ins = self.rand_row(rng.randint(0, 2))
        c = self.cfg(ins, [], 1)
        if c is None:
            return self.program("dfg")
        return {"root": "cfg", "in_tys": ins, **c}
    # module: constants, declarations, (polymorphic) definitions, main
    consts = []
    for _ in range(rng.randint(0, 2)):
        v = self.const_for(self.rand_ty(0, False, False))
        if v is not None and v[0] != "fn":
            consts.append(v)
    self.consts = consts
    funcs = []
    nf = rng.randint(0, 3)
    for i in range(nf):
        r = rng.random()
        if "poly" in self.allow and r < 0.2:
            b = rng.choice(["C", "A"])
            f = {"name": "poly%d" % i, "params": [["type", b]], "ins": [["var", 0, b]], "outs": [["var", 0, b]],
                 "poly": "type", "declare": True, "decl": rng.random() < 0.4}
        elif "poly" in self.allow and r < 0.3:
            f = {"name": "rowpoly%d" % i, "params": [["list", ["type", "C"]]], "ins": [], "outs": [], "poly": "row",
                 "decl": True, "rowvar": True}
        elif r < (0.75 if "hof" in self.allow else 0.5):     # "hof" (opt-in): declarations are frequent
            f = {"name": "decl%d" % i, "ins": self.rand_row(), "outs": self.rand_row(), "decl": True}
        else:
            f = {"name": "def%d" % i, "ins": self.rand_row(), "outs": None, "declare": rng.random() < 0.5}
        funcs.append(f)
    main = {"name": "main", "ins": self.rand_row(rng.randint(0, 2)), "outs": None}
    funcs.append(main)
    # bodies are generated in order; a body may call functions whose outputs are already known
    self.funcs = [f for f in funcs if f.get("decl") and not f.get("rowvar")]
    for f in funcs:
        if f.get("rowvar"):
            self.funcs.append(f)
    out = []
    for f in funcs:
        if f.get("decl"):
            if f.get("rowvar"):
                out.append({**f, "ins": [["rowvar"]], "outs": [["rowvar"]]})
            else:
                out.append(f)
            continue
        cin = [(self.wire(), t) for t in f["ins"]]
        if f.get("poly") == "type":
            body = self.region(cin, [], 1, required=f["outs"], nstmts=rng.randint(0, 2))
            if body is None:      # the required outputs cannot be produced: keep it as a declaration
                f["decl"] = True
                out.append(f)
                self.funcs.append(f)
                continue
        else:
            body = self.region(cin, [], 1)
            f["outs"] = body["out_tys"]
        f["body"] = body
        out.append(f)
        if f["name"] != "main":
            self.funcs.append(f)
    return {"root": "module", "consts": consts, "funcs": out}

Gen.program = _gen_program
# the row-variable declaration needs a RowVariable type, which only appears in that template
_orig_mk_ty = mk_ty

def mk_ty(t):  # noqa: F811
    if not isinstance(t, str) and t[0] == "rowvar":
        from hugr import tys
        return tys.RowVariable(0, tys.TypeBound.Copyable)
    return _orig_mk_ty(t)

def gen_tracked_program(rng: random.Random, size=8) -> dict:
    """A circuit-style program over hugr.build.TrackedDfg: commands take tracked indices and explicit wires in
    mixed order; indices are rebound by argument position; linear values are used once (a linear wire is either
    tracked and used through its index, or untracked and used as a wire)."""
    nw = [0]
    ns = [0]

    def wire():
        nw[0] += 1
        return nw[0]

    def sid():
        ns[0] += 1
        return ns[0]
    ins = [rng.choice(["Q", "Q", "Q", "B", "I", "LQ"]) for _ in range(rng.randint(1, 5))]
    in_wires = [wire() for _ in ins]
    tracked = [t for t in ins]                     # index -> type (None once untracked)
    free = []                                      # untracked wires [(wire, type)] not yet consumed (linear) / usable (copyable)
    stmts = []

    def idx_of(pred):
        c = [i for i, t in enumerate(tracked) if t is not None and pred(t)]
        return rng.choice(c) if c else None

    def wire_of(pred):
        c = [(w, t) for w, t in free if pred(t)]
        if not c:
            return None
        w, t = rng.choice(c)
        if is_linear(t):
            free.remove((w, t))
        return w
    for _ in range(rng.randint(1, size)):
        r = rng.random()
        if r < 0.12:
            v = [rng.choice(["true", "false"])] if rng.random() < 0.5 else ["float", 0.5]
            w = wire()
            stmts.append({"k": "load", "val": v, "id": sid(), "outs": [w]})
            free.append((w, val_ty(v)))
            continue
        if r < 0.2 and free:
            w, t = rng.choice(free)
            free.remove((w, t))
            stmts.append({"k": "track", "w": w, "idx": len(tracked), "id": sid()})
            tracked.append(t)
            if not is_linear(t):
                free.append((w, t))
            continue
        if r < 0.27:
            i = idx_of(lambda t: True)
            if i is not None:
                w = wire()
                stmts.append({"k": "untrack", "idx": i, "out": w, "id": sid()})
                free.append((w, tracked[i]))
                tracked[i] = None
            continue
        # a command: a row of argument types, each served by a tracked index or an explicit wire
        n = rng.randint(1, 3)
        args, in_tys = [], []
        used_idx = set()
        for _j in range(n):
            choice = rng.random()
            i = idx_of(lambda t: True) if choice < 0.65 else None
            if i is not None and i not in used_idx and not (is_linear(tracked[i]) and i in used_idx):
                used_idx.add(i)
                args.append(["i", i])
                in_tys.append(tracked[i])
            else:
                w = None
                for w0, t0 in list(free):
                    if rng.random() < 0.6:
                        w = w0
                        t = t0
                        if is_linear(t0):
                            free.remove((w0, t0))
                        break
                if w is None:
                    continue
                args.append(["w", w])
                in_tys.append(t)
        if not args:
            continue
        extra = [rng.choice(["B", "I"]) for _ in range(rng.choice([0, 0, 1]))]
        out_tys = list(in_tys) + extra               # outputs repeat the inputs (so rebinding keeps types), then extras
        if rng.random() < 0.15 and len(in_tys) >= 2 and not is_linear(in_tys[-1]) and args[-1][0] == "w":
            out_tys = in_tys[:-1] + extra             # a copyable wire argument that is only read
        outs = []
        for j, t in enumerate(out_tys):
            if j < len(args) and args[j][0] == "i":
                outs.append(None)                     # rebinds the tracked index
                tracked[args[j][1]] = t
            else:
                w = wire()
                outs.append(w)
                free.append((w, t))
        md = {"name": rng.choice(MD_VALUES)} if rng.random() < 0.25 else None
        st = {"k": "tadd", "op": ["custom", "g%d" % rng.randint(0, 4), in_tys, out_tys], "args": args, "outs": outs,
              "via": "add" if md is not None or rng.random() < 0.6 else "extend", "id": sid()}
        if md is not None:
            st["md"] = md
        stmts.append(st)
    lin_free = [(w, t) for w, t in free if is_linear(t)]
    if not lin_free and rng.random() < 0.5:
        stmts.append({"k": "tout", "mode": "tracked", "id": sid()})
    else:
        args = [["i", i] for i, t in enumerate(tracked) if t is not None and (is_linear(t) or rng.random() < 0.7)]
        args += [["w", w] for w, _ in lin_free]
        cop = [(w, t) for w, t in free if not is_linear(t)]
        args += [["w", w] for w, _ in cop[: rng.randint(0, 2)]]
        rng.shuffle(args)
        stmts.append({"k": "tout", "mode": "indexed", "args": args, "id": sid()})
    return {"root": "tdfg", "ins": ins, "in_wires": in_wires, "track_inputs": True, "stmts": stmts}


# ----------------------------------------------------------------------------- runtime requirements (opt-in, per program)
# Function types that differ only in their `runtime_reqs` (extension set) are different types.  with_reqs(prog, seed)
# rewrites a generated program so that function types carry NON-EMPTY requirement sets: every function type spec
# ["fn", ins, outs] becomes ["fn", ins', outs', reqs] with reqs a function of (seed, the spec), so equal types stay
# equal and different types stay different (the program stays well formed), and a declared function whose type got
# requirements is declared with them ("reqs" of the function entry; FuncDecl -> Call / LoadFunction -> CallIndirect).
# Function types whose requirement set the BUILDERS decide keep the empty set: the type of a function constant
# (val.Function: the inner signature of its Dfg), of a defined function (FuncDefn built by define_function /
# define_main / a local define_function), and -- to keep declaration and instantiation in step without modelling
# substitution here -- the body and the instantiations of polymorphic functions.  Programs not passed through
# with_reqs are interpreted exactly as before.
REQ_NAMES = ("prelude", "arithmetic.int", "verif.ext", "logic")

def _is_fn_spec(x):
    return isinstance(x, list) and len(x) == 3 and x[0] == "fn" and isinstance(x[1], list) and isinstance(x[2], list)

def with_reqs(prog, seed, density=0.75):
    import copy
    import hashlib
    pinned = set()
    def pin(ins, outs):
        pinned.add(tkey(["fn", list(ins), list(outs)]))
    def scan(x):
        if isinstance(x, dict):
            if x.get("k") in ("call", "loadfn") and x.get("inst") is not None:
                pinned.add(tkey(x["inst"]))
            if x.get("k") == "localfn":
                pin(x["ins"], x["body"]["out_tys"])
            if "funcs" in x and x.get("root") == "module":
                for f in x["funcs"]:
                    if f.get("params") or not f.get("decl"):
                        pin(f["ins"], f["outs"] if f.get("outs") is not None else f["body"]["out_tys"])
            for v in x.values():
                scan(v)
        elif isinstance(x, list):
            if len(x) == 2 and x[0] == "fn" and isinstance(x[1], dict):       # value spec: function constant
                pin(x[1]["ins"], x[1]["body"]["out_tys"])
            for v in x:
                scan(v)
    scan(prog)
    def reqs_of(key):
        if key in pinned:
            return None
        h = hashlib.sha256(("%s|%s" % (seed, key)).encode()).digest()
        if h[0] >= 256 * density:
            return None
        n = 1 + h[1] % 3
        names = [REQ_NAMES[(h[2] + j * (1 + h[3] % 3)) % len(REQ_NAMES)] for j in range(n)]
        out = []
        for a in names:
            if a not in out:
                out.append(a)
        return out
    def rw(x):
        if isinstance(x, dict):
            y = {k: rw(v) for k, v in x.items()}
            if x.get("decl") and not x.get("params") and "ins" in x and "outs" in x and "name" in x:
                rq = reqs_of(tkey(["fn", list(x["ins"]), list(x["outs"])]))
                if rq:
                    y["reqs"] = rq
            return y
        if isinstance(x, list):
            if _is_fn_spec(x):
                rq = reqs_of(tkey(x))
                y = ["fn", rw(x[1]), rw(x[2])]
                return y + [rq] if rq else y
            return [rw(v) for v in x]
        return x
    return rw(copy.deepcopy(prog))

def fn_reqs_count(prog) -> int:
    """how many function type specs with requirements a program text has (diagnostic)"""
    n = 0
    def walk(x):
        nonlocal n
        if isinstance(x, dict):
            for v in x.values():
                walk(v)
        elif isinstance(x, list):
            if len(x) == 4 and x[0] == "fn" and isinstance(x[3], list) and x[3]:
                n += 1
            for v in x:
                walk(v)
    walk(prog)
    return n

def gen_program(rng: random.Random, root=None, **kw) -> dict:
    if root == "tdfg":
        return gen_tracked_program(rng)
    return Gen(rng, **kw).program(root)

def size_of(prog) -> int:
    """number of statements, recursively"""
    n = 0
    def walk(x):
        nonlocal n
        if isinstance(x, dict):
            if "k" in x and "id" in x:
                n += 1
            for v in x.values():
                walk(v)
        elif isinstance(x, list):
            for v in x:
                walk(v)
    walk(prog)
    return n

def kinds_of(prog) -> dict:
    d = {}
    def walk(x):
        if isinstance(x, dict):
            if "k" in x and "id" in x:
                key = x["k"] + (":" + x["op"][0] if x["k"] == "op" else "") + (":insert" if x.get("insert") or x.get("style") == "insert" else "")
                d[key] = d.get(key, 0) + 1
            for v in x.values():
                walk(v)
        elif isinstance(x, list):
            for v in x:
                walk(v)
    walk(prog)
    return d
