"""Random hugr types: abstract terms, the real hugr objects, and Gallina literals of coq/model/Types.v.

Reusable by every property that needs types (C05, C06, C07, C14 ...).

Abstract terms are JSON-able nested lists (so they can be stored in replay files and shrunk):

  types   ["Sum", [[t..], ..]] ["Tuple", [t..]] ["Option", [t..]] ["Either", [t..], [t..]] ["UnitSum", n]
          ["Var", i, b] ["RowVar", i, b] ["USize"] ["Qubit"] ["Alias", name, b]
          ["Func", [t..], [t..], [ext..]] ["Opaque", ext, id, [arg..], b] ["Ext", defname, [arg..]]
          ["List", t] ["Array", t, n]                      (std collections: ExtType subclasses)
  args    ["AType", t] ["ANat", n] ["AString", s] ["ASeq", [arg..]] ["AExts", [ext..]] ["AVar", i, param]
  params  ["PType", b] ["PNat", ub|None] ["PString"] ["PList", p] ["PTuple", [p..]] ["PExts"]
  functy  ["F", [t..], [t..], [ext..]]        poly  ["P", [param..], functy]
  bounds  "C" | "A"

Three independent walks:
  build_*  term -> real hugr object (public constructors)
  coq_*    term -> Gallina literal
  print_*  real hugr object -> Gallina literal (used for observations)
`selfcheck(term)` asserts coq_type(term) == print_type(build_type(term)).

Strings are interned to N by an `Interner`; "" is 0 and "prelude" is 1 (model/Ops.v relies on it).
Extension sets are printed sorted and without duplicates (hugr passes them through Python sets).
"""
from __future__ import annotations

import fw
from fw import gN, gnat, glist, gopt, gapp

BOUNDS = ["C", "A"]
NAMES = ["prelude", "arithmetic.int", "ext.a", "ext.b", "T", "U", "alias_x", "qsys", "x"]

# definition-backed extension types used by ["Ext", name, args]: name -> (ext, descr, params, bound)
TYPEDEFS = {
    "Cpy": ("ext.a", "a copyable thing", [], ["Explicit", "C"]),
    "Lin": ("ext.a", "a linear thing", [], ["Explicit", "A"]),
    "Box": ("ext.b", "boxed", [["PType", "A"]], ["FromParams", [0]]),
    "Pair": ("ext.b", "pair", [["PType", "A"], ["PNat", None], ["PType", "A"]], ["FromParams", [0, 2]]),
}


def new_interner() -> fw.Interner:
    it = fw.Interner()
    it("")
    it("prelude")
    return it


class TyGen:
    def __init__(self, intern: fw.Interner | None = None):
        self.intern = intern or new_interner()
        self._defs = None

    # ------------------------------------------------------------------ random terms
    def rand_bound(self, rng):
        return rng.choice(BOUNDS)

    def rand_reqs(self, rng):
        r = rng.random()
        if r < 0.6:
            return []
        return sorted(set(rng.sample(NAMES[:4], rng.randint(1, 2))))

    def rand_param(self, rng, depth=2):
        r = rng.random()
        if r < 0.45 or depth <= 0:
            return rng.choice([["PType", "C"], ["PType", "A"], ["PNat", None], ["PNat", rng.randint(0, 9)],
                               ["PString"], ["PExts"]])
        if r < 0.8:
            return ["PList", self.rand_param(rng, depth - 1)]
        return ["PTuple", [self.rand_param(rng, depth - 1) for _ in range(rng.randint(0, 3))]]

    def rand_arg(self, rng, depth=2, rowvars=False):
        r = rng.random()
        if r < 0.5 or depth <= 0:
            return ["AType", self.rand_type(rng, depth - 1, rowvars=rowvars)]
        if r < 0.65:
            return ["ANat", rng.choice([0, 1, 5, 2 ** 40])]
        if r < 0.75:
            return ["AString", rng.choice(NAMES)]
        if r < 0.85:
            return ["ASeq", [self.rand_arg(rng, depth - 1, rowvars) for _ in range(rng.randint(0, 3))]]
        if r < 0.92:
            return ["AExts", self.rand_reqs(rng)]
        return ["AVar", rng.randint(0, 3), self.rand_param(rng, 1)]

    def rand_row(self, rng, depth=2, rowvars=False, maxlen=4):
        n = rng.choice([0, 0, 1, 1, 2, 2, 3, maxlen])
        return [self.rand_type(rng, depth, rowvars=rowvars) for _ in range(n)]

    def rand_sum(self, rng, depth=2, rowvars=False):
        """A term denoting a tys.Sum (any of its sugar forms)."""
        r = rng.random()
        if r < 0.2:
            return ["UnitSum", rng.choice([0, 1, 2, 2, 3, 5])]
        if r < 0.35:
            return ["Tuple", self.rand_row(rng, depth - 1, rowvars)]
        if r < 0.5:
            return ["Option", self.rand_row(rng, depth - 1, rowvars)]
        if r < 0.65:
            return ["Either", self.rand_row(rng, depth - 1, rowvars), self.rand_row(rng, depth - 1, rowvars)]
        return ["Sum", [self.rand_row(rng, depth - 1, rowvars) for _ in range(rng.choice([0, 1, 2, 2, 3, 4]))]]

    def rand_functy(self, rng, depth=2, rowvars=False):
        return ["F", self.rand_row(rng, depth, rowvars), self.rand_row(rng, depth, rowvars), self.rand_reqs(rng)]

    def rand_type(self, rng, depth=2, rowvars=False):
        r = rng.random()
        if depth <= 0 or r < 0.35:
            c = rng.random()
            if c < 0.2:
                return ["USize"]
            if c < 0.4:
                return ["Qubit"]                              # linear
            if c < 0.55:
                return ["UnitSum", rng.choice([1, 2, 2, 3])]
            if c < 0.7:
                return ["Var", rng.randint(0, 3), self.rand_bound(rng)]
            if c < 0.8 and rowvars:
                return ["RowVar", rng.randint(0, 3), self.rand_bound(rng)]
            if c < 0.9:
                return ["Alias", rng.choice(NAMES[4:7]), self.rand_bound(rng)]
            return ["Ext", rng.choice(["Cpy", "Lin"]), []]
        if r < 0.6:
            return self.rand_sum(rng, depth, rowvars)
        if r < 0.78:
            f = self.rand_functy(rng, depth - 1, rowvars=True)    # row variables live inside function types
            return ["Func", f[1], f[2], f[3]]
        if r < 0.86:
            return ["Opaque", rng.choice(NAMES[:4]), rng.choice(NAMES[4:]),
                    [self.rand_arg(rng, depth - 1, rowvars) for _ in range(rng.randint(0, 2))], self.rand_bound(rng)]
        if r < 0.92:
            name = rng.choice(["Box", "Pair"])
            if name == "Box":
                return ["Ext", "Box", [["AType", self.rand_type(rng, depth - 1)]]]
            return ["Ext", "Pair", [["AType", self.rand_type(rng, depth - 1)], ["ANat", rng.randint(0, 7)],
                                    ["AType", self.rand_type(rng, depth - 1)]]]
        if r < 0.96:
            return ["List", self.rand_type(rng, depth - 1)]
        return ["Array", self.rand_type(rng, depth - 1), rng.randint(0, 6)]

    def rand_poly(self, rng, depth=2, nparams=None):
        n = rng.choice([0, 0, 1, 2, 3]) if nparams is None else nparams
        return ["P", [self.rand_param(rng) for _ in range(n)], self.rand_functy(rng, depth, rowvars=n > 0)]

    # ------------------------------------------------------------------ shrinking helpers
    def shrink_type(self, t):
        """Smaller types (structural)."""
        k = t[0]
        if k not in ("USize",):
            yield ["USize"]
        if k in ("Tuple", "Option", "List"):
            sub = t[1] if k != "List" else [t[1]]
            yield from sub
        if k == "Sum":
            for r in t[1]:
                yield from r
            for i in range(len(t[1])):
                yield ["Sum", t[1][:i] + t[1][i + 1:]]
        if k == "Func":
            yield from t[1]
            yield from t[2]
            yield ["Func", [], [], []]

    def shrink_row(self, row):
        for i in range(len(row)):
            yield row[:i] + row[i + 1:]
        for i in range(len(row)):
            for s in self.shrink_type(row[i]):
                yield row[:i] + [s] + row[i + 1:]

    # ------------------------------------------------------------------ term -> hugr objects
    def defs(self):
        if self._defs is None:
            from hugr import ext, tys
            import semver
            exts, out = {}, {}
            for name, (e, descr, params, bound) in TYPEDEFS.items():
                if e not in exts:
                    exts[e] = ext.Extension(e, semver.Version(0, 1, 0))
                b = (ext.ExplicitBound(self.build_bound(bound[1])) if bound[0] == "Explicit"
                     else ext.FromParamsBound(list(bound[1])))
                td = ext.TypeDef(name=name, description=descr, params=[self.build_param(p) for p in params], bound=b)
                out[name] = exts[e].add_type_def(td)
            self._defs, self._exts = out, exts
        return self._defs

    def build_bound(self, b):
        from hugr import tys
        return {"C": tys.TypeBound.Copyable, "A": tys.TypeBound.Any}[b]

    def build_param(self, p):
        from hugr import tys
        k = p[0]
        if k == "PType":
            return tys.TypeTypeParam(self.build_bound(p[1]))
        if k == "PNat":
            return tys.BoundedNatParam(p[1])
        if k == "PString":
            return tys.StringParam()
        if k == "PList":
            return tys.ListParam(self.build_param(p[1]))
        if k == "PTuple":
            return tys.TupleParam([self.build_param(x) for x in p[1]])
        if k == "PExts":
            return tys.ExtensionsParam()
        raise ValueError(p)

    def build_arg(self, a):
        from hugr import tys
        k = a[0]
        if k == "AType":
            return tys.TypeTypeArg(self.build_type(a[1]))
        if k == "ANat":
            return tys.BoundedNatArg(a[1])
        if k == "AString":
            return tys.StringArg(a[1])
        if k == "ASeq":
            return tys.SequenceArg([self.build_arg(x) for x in a[1]])
        if k == "AExts":
            return tys.ExtensionsArg(list(a[1]))
        if k == "AVar":
            return tys.VariableArg(a[1], self.build_param(a[2]))
        raise ValueError(a)

    def build_row(self, row):
        return [self.build_type(t) for t in row]

    def build_functy(self, f):
        from hugr import tys
        assert f[0] == "F", f
        return tys.FunctionType(self.build_row(f[1]), self.build_row(f[2]), list(f[3]))

    def build_poly(self, p):
        from hugr import tys
        assert p[0] == "P", p
        return tys.PolyFuncType([self.build_param(x) for x in p[1]], self.build_functy(p[2]))

    def build_type(self, t):
        from hugr import tys
        k = t[0]
        if k == "Sum":
            return tys.Sum([self.build_row(r) for r in t[1]])
        if k == "Tuple":
            return tys.Tuple(*self.build_row(t[1]))
        if k == "Option":
            return tys.Option(*self.build_row(t[1]))
        if k == "Either":
            return tys.Either(self.build_row(t[1]), self.build_row(t[2]))
        if k == "UnitSum":
            return tys.UnitSum(t[1])
        if k == "Var":
            return tys.Variable(t[1], self.build_bound(t[2]))
        if k == "RowVar":
            return tys.RowVariable(t[1], self.build_bound(t[2]))
        if k == "USize":
            return tys.USize()
        if k == "Qubit":
            return tys.Qubit
        if k == "Alias":
            return tys.Alias(t[1], self.build_bound(t[2]))
        if k == "Func":
            return tys.FunctionType(self.build_row(t[1]), self.build_row(t[2]), list(t[3]))
        if k == "Opaque":
            return tys.Opaque(id=t[2], bound=self.build_bound(t[4]), args=[self.build_arg(a) for a in t[3]],
                              extension=t[1])
        if k == "Ext":
            return self.defs()[t[1]].instantiate([self.build_arg(a) for a in t[2]])
        if k == "List":
            from hugr.std.collections.list import List
            return List(self.build_type(t[1]))
        if k == "Array":
            from hugr.std.collections.array import Array
            return Array(self.build_type(t[1]), t[2])
        raise ValueError(t)

    # ------------------------------------------------------------------ term -> Gallina
    def gname(self, s):
        return gN(self.intern(s))

    def gnames(self, l):
        return glist(self.gname(s) for s in sorted(set(l)))

    def coq_bound(self, b):
        return {"C": "Copyable", "A": "Any"}[b]

    def coq_param(self, p):
        k = p[0]
        if k == "PType":
            return gapp("PType", self.coq_bound(p[1]))
        if k == "PNat":
            return gapp("PNat", gopt(None if p[1] is None else gN(p[1])))
        if k == "PString":
            return "PString"
        if k == "PList":
            return gapp("PList", self.coq_param(p[1]))
        if k == "PTuple":
            return gapp("PTuple", glist(self.coq_param(x) for x in p[1]))
        if k == "PExts":
            return "PExts"
        raise ValueError(p)

    def coq_arg(self, a):
        k = a[0]
        if k == "AType":
            return gapp("AType", self.coq_type(a[1]))
        if k == "ANat":
            return gapp("ANat", gN(a[1]))
        if k == "AString":
            return gapp("AString", self.gname(a[1]))
        if k == "ASeq":
            return gapp("ASeq", glist(self.coq_arg(x) for x in a[1]))
        if k == "AExts":
            return gapp("AExts", self.gnames(a[1]))
        if k == "AVar":
            return gapp("AVar", gnat(a[1]), self.coq_param(a[2]))
        raise ValueError(a)

    def coq_row(self, row):
        return glist(self.coq_type(t) for t in row)

    def coq_typedef(self, name, ext, descr, params_coq, bound_coq):
        return ("{| td_ext := %s; td_name := %s; td_descr := %s; td_params := %s; td_bound := %s |}"
                % (self.gname(ext), self.gname(name), self.gname(descr), params_coq, bound_coq))

    def coq_functy(self, f):
        assert f[0] == "F", f
        return gapp("mkF", self.coq_row(f[1]), self.coq_row(f[2]), self.gnames(f[3]))

    def coq_poly(self, p):
        assert p[0] == "P", p
        return gapp("mkP", glist(self.coq_param(x) for x in p[1]), self.coq_functy(p[2]))

    def coq_type(self, t):
        k = t[0]
        if k == "Sum":
            return gapp("TSum", glist(self.coq_row(r) for r in t[1]))
        if k == "Tuple":
            return gapp("TSum", glist([self.coq_row(t[1])]))
        if k == "Option":
            return gapp("TSum", glist(["[]", self.coq_row(t[1])]))
        if k == "Either":
            return gapp("TSum", glist([self.coq_row(t[1]), self.coq_row(t[2])]))
        if k == "UnitSum":
            return gapp("TUnitSum", gnat(t[1]))
        if k == "Var":
            return gapp("TVar", gnat(t[1]), self.coq_bound(t[2]))
        if k == "RowVar":
            return gapp("TRowVar", gnat(t[1]), self.coq_bound(t[2]))
        if k == "USize":
            return "TUSize"
        if k == "Qubit":
            return "TQubit"
        if k == "Alias":
            return gapp("TAlias", self.gname(t[1]), self.coq_bound(t[2]))
        if k == "Func":
            return gapp("TFunc", self.coq_row(t[1]), self.coq_row(t[2]), self.gnames(t[3]))
        if k == "Opaque":
            return gapp("TOpaque", self.gname(t[1]), self.gname(t[2]), glist(self.coq_arg(a) for a in t[3]),
                        self.coq_bound(t[4]))
        if k == "Ext":
            e, descr, params, bound = TYPEDEFS[t[1]]
            b = (gapp("Explicit", self.coq_bound(bound[1])) if bound[0] == "Explicit"
                 else gapp("FromParams", glist(gnat(i) for i in bound[1])))
            td = self.coq_typedef(t[1], e, descr, glist(self.coq_param(p) for p in params), b)
            return gapp("TExt", td, glist(self.coq_arg(a) for a in t[2]), "Generic")
        if k in ("List", "Array"):
            # the definitions live in the std extensions: read them from the implementation
            return self.print_type(self.build_type(t))
        raise ValueError(t)

    # ------------------------------------------------------------------ hugr objects -> Gallina
    def print_bound(self, b):
        from hugr import tys
        return "Copyable" if b == tys.TypeBound.Copyable else "Any"

    def print_param(self, p):
        from hugr import tys
        if isinstance(p, tys.TypeTypeParam):
            return gapp("PType", self.print_bound(p.bound))
        if isinstance(p, tys.BoundedNatParam):
            return gapp("PNat", gopt(None if p.upper_bound is None else gN(p.upper_bound)))
        if isinstance(p, tys.StringParam):
            return "PString"
        if isinstance(p, tys.ListParam):
            return gapp("PList", self.print_param(p.param))
        if isinstance(p, tys.TupleParam):
            return gapp("PTuple", glist(self.print_param(x) for x in p.params))
        if isinstance(p, tys.ExtensionsParam):
            return "PExts"
        raise TypeError(f"unknown type parameter {p!r}")

    def print_arg(self, a):
        from hugr import tys
        if isinstance(a, tys.TypeTypeArg):
            return gapp("AType", self.print_type(a.ty))
        if isinstance(a, tys.BoundedNatArg):
            return gapp("ANat", gN(a.n))
        if isinstance(a, tys.StringArg):
            return gapp("AString", self.gname(a.value))
        if isinstance(a, tys.SequenceArg):
            return gapp("ASeq", glist(self.print_arg(x) for x in a.elems))
        if isinstance(a, tys.ExtensionsArg):
            return gapp("AExts", self.gnames(a.extensions))
        if isinstance(a, tys.VariableArg):
            return gapp("AVar", gnat(a.idx), self.print_param(a.param))
        raise TypeError(f"unknown type argument {a!r}")

    def print_row(self, row):
        return glist(self.print_type(t) for t in row)

    def print_functy(self, f):
        from hugr import tys
        if type(f) is not tys.FunctionType:
            raise TypeError(f"not a FunctionType: {f!r}")
        return gapp("mkF", self.print_row(f.input), self.print_row(f.output), self.gnames(f.runtime_reqs))

    def print_poly(self, p):
        from hugr import tys
        if type(p) is not tys.PolyFuncType:
            raise TypeError(f"not a PolyFuncType: {p!r}")
        return gapp("mkP", glist(self.print_param(x) for x in p.params), self.print_functy(p.body))

    def print_type(self, t):
        from hugr import tys, ext
        if isinstance(t, tys.UnitSum):
            return gapp("TUnitSum", gnat(t.size))
        if isinstance(t, tys.Sum):
            return gapp("TSum", glist(self.print_row(r) for r in t.variant_rows))
        if isinstance(t, tys.Variable):
            return gapp("TVar", gnat(t.idx), self.print_bound(t.bound))
        if isinstance(t, tys.RowVariable):
            return gapp("TRowVar", gnat(t.idx), self.print_bound(t.bound))
        if isinstance(t, tys.USize):
            return "TUSize"
        if isinstance(t, type(tys.Qubit)):
            return "TQubit"
        if isinstance(t, tys.Alias):
            return gapp("TAlias", self.gname(t.name), self.print_bound(t.bound))
        if isinstance(t, tys.FunctionType):
            return gapp("TFunc", self.print_row(t.input), self.print_row(t.output), self.gnames(t.runtime_reqs))
        if isinstance(t, tys.PolyFuncType):
            return gapp("TPoly", glist(self.print_param(x) for x in t.params), self.print_row(t.body.input),
                        self.print_row(t.body.output), self.gnames(t.body.runtime_reqs))
        if isinstance(t, tys.Opaque):
            return gapp("TOpaque", self.gname(t.extension), self.gname(t.id), glist(self.print_arg(a) for a in t.args),
                        self.print_bound(t.bound))
        if isinstance(t, tys.ExtType):
            d = t.type_def
            if isinstance(d.bound, ext.ExplicitBound):
                b = gapp("Explicit", self.print_bound(d.bound.bound))
            else:
                b = gapp("FromParams", glist(gnat(i) for i in d.bound.indices))
            try:
                e = d.get_extension().name
            except Exception:                               # noqa: BLE001 -- a definition outside any extension
                e = ""
            td = self.coq_typedef(d.name, e, d.description, glist(self.print_param(p) for p in d.params), b)
            cls = type(t).__name__
            klass = {"ExtType": "Generic", "List": "(ElemAt 0)", "StaticArray": "(ElemAt 0)", "Array": "(ElemAt 1)"}.get(cls)
            if klass is None:
                raise TypeError(f"unknown ExtType subclass {cls}")
            return gapp("TExt", td, glist(self.print_arg(a) for a in t.args), klass)
        raise TypeError(f"unknown type {t!r}")

    def selfcheck(self, term):
        a, b = self.coq_type(term), self.print_type(self.build_type(term))
        if a != b:
            raise AssertionError(f"tygen printers disagree on {term}: {a} vs {b}")
