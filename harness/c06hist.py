"""C06, histories: one Hugr is changed through the public API (add_node / delete_node -- the freed index is reused
by the next node --, `hugr[n].op = ...`, resolve_extensions, assignment of public dataclass fields of an operation,
builder programs that complete partial operations in place) and after EVERY step every live node's operation is
read back from its public attributes and all the queries of the property are asked again (op.port_kind,
op.port_type, Hugr.port_kind, Hugr.port_type, outer_signature, inner_signature, num_out).  The Coq side
(run/C06Run.v, CHist) replays the events: an answer must be the one the model / the specification gives for the
operation the node holds NOW, whatever was answered before the change.

A case is {"kind": "hist", "root": "raw" | "dfg" | "func", "row": <input row>, "callee": .., "steps": [step ...]};
every step has a label "id" under which the node(s) it creates are known to later steps; a step whose references
are gone (after shrinking) or that hugr-py refuses is skipped -- the trace records what really happened.
"""
import copy

from fw import gZ, glist, gopt, gapp

DATAFLOW_FULL = ["Custom", "Tag", "MakeTuple", "Noop", "Some", "Left", "Right", "LoadConst", "UnpackTuple",
                 "CallIndirect", "DFG", "Conditional", "TailLoop", "CFG", "Input", "ExtOp"]


class Hist:
    def __init__(self, prop):
        self.P = prop
        self.g = prop.g

    # ------------------------------------------------------------------ reading an operation back
    def print_op(self, op):
        """Gallina `op ty` of a live operation object, from its public attributes; None = class outside the model."""
        from hugr import ops
        g = self.g

        def opt(f):
            try:
                return f()
            except ops.IncompleteOp:
                return None
        row = g.print_row
        orow = lambda f: gopt(None if opt(f) is None else g.print_row(opt(f)))
        oty = lambda f: gopt(None if opt(f) is None else g.print_type(opt(f)))
        args = lambda l: glist(g.print_arg(x) for x in l)
        T = type(op)
        if T is ops.Input:
            return gapp("OInput", row(op.types))
        if T is ops.Output:
            return gapp("OOutput", orow(lambda: op.types))
        if T is ops.Custom:
            return gapp("OCustom", g.gname(op.extension), g.gname(op.op_name), g.gname(op.description),
                        g.print_functy(op.signature), args(op.args))
        if T is ops.ExtOp:
            d = op.op_def()
            pf = d.signature.poly_func
            try:
                ename = d.get_extension().name
            except Exception:                                # noqa: BLE001 -- a definition outside any extension
                ename = ""
            return gapp("OExtOp", g.gname(ename), g.gname(d.name),
                        gopt(None if pf is None else g.print_poly(pf)),
                        gopt(None if op.signature is None else g.print_functy(op.signature)), args(op.args))
        if T is ops.MakeTuple:
            return gapp("OMakeTuple", orow(lambda: op.types))
        if T is ops.UnpackTuple:
            return gapp("OUnpackTuple", orow(lambda: op.types))
        if T is ops.Noop:
            return gapp("ONoop", oty(lambda: op.type_))
        if T in (ops.Tag, ops.Some, ops.Left, ops.Right, ops.Continue, ops.Break):
            return gapp("OTag", gZ(op.tag), g.print_type(op.sum_ty))
        if T is ops.DFG:
            # the extension delta (a private field) only flows into the signature's requirements: not compared
            return gapp("ODFG", row(op.inputs), orow(lambda: op.outputs), g.gnames([]))
        if T is ops.CFG:
            return gapp("OCFG", row(op.inputs), orow(lambda: op.outputs))
        if T is ops.DataflowBlock:
            return gapp("OBlock", row(op.inputs), oty(lambda: op.sum_ty), orow(lambda: op.other_outputs),
                        g.gnames(list(op.extension_delta)))
        if T is ops.ExitBlock:
            return gapp("OExit", orow(lambda: op.cfg_outputs))
        if T is ops.Const:
            return gapp("OConst", g.print_type(op.val.type_()))
        if T is ops.LoadConst:
            return gapp("OLoadConst", oty(lambda: op.type_))
        if T is ops.Conditional:
            return gapp("OConditional", g.print_type(op.sum_ty), row(op.other_inputs), orow(lambda: op.outputs))
        if T is ops.Case:
            return gapp("OCase", row(op.inputs), orow(lambda: op.outputs))
        if T is ops.TailLoop:
            return gapp("OTailLoop", row(op.just_inputs), row(op.rest), orow(lambda: op.just_outputs),
                        g.gnames(list(op.extension_delta)))
        if T is ops.FuncDefn:
            return gapp("OFuncDefn", g.gname(op.f_name), row(op.inputs), glist(g.print_param(p) for p in op.params),
                        orow(lambda: op.outputs))
        if T is ops.FuncDecl:
            return gapp("OFuncDecl", g.gname(op.f_name), g.print_poly(op.signature))
        if T is ops.Module:
            return "OModule"
        if T in (ops.Call, ops.LoadFunc):
            return gapp("OCall" if T is ops.Call else "OLoadFunc", g.print_poly(op.signature),
                        g.print_functy(op.instantiation), args(getattr(op, "type_args", ())))
        if T is ops.CallIndirect:
            s = opt(lambda: op.signature)
            return gapp("OCallIndirect", gopt(None if s is None else g.print_functy(s)))
        if T is ops.AliasDecl:
            return gapp("OAliasDecl", g.gname(op.alias), g.print_bound(op.bound))
        if T is ops.AliasDefn:
            return gapp("OAliasDefn", g.gname(op.alias), g.print_type(op.definition))
        return None

    @staticmethod
    def width(op):
        """Number of offsets worth asking about, from the rows the object holds."""
        from hugr import tys
        w = 1

        def see(v):
            nonlocal w
            if isinstance(v, list):
                w = max(w, len(v))
            elif isinstance(v, tys.FunctionType):
                w = max(w, len(v.input) + 1, len(v.output))
            elif isinstance(v, tys.Sum):
                w = max([w] + [len(r) + 1 for r in v.variant_rows])
        try:
            held = list(vars(op).values())
        except TypeError:                                    # no instance dict: a default width
            return 3
        for v in held:
            see(v)
            if isinstance(v, tys.PolyFuncType):
                see(v.body)
        return min(w, 5)

    # ------------------------------------------------------------------ interpreter
    def run(self, case):
        """Executes the history on the real hugr-py; returns (events, applied step labels)."""
        from hugr import ops, tys
        from hugr.hugr.base import Hugr
        from hugr.hugr.node_port import InPort, OutPort, Node
        from hugr.build.dfg import Dfg
        from hugr.build.function import Module
        P, g = self.P, self.g
        events, applied = [], []
        last, dead = {}, set()                    # index -> literal last written; indices deleted and not reused
        nodes, opobj, terms = {}, {}, {}          # label -> [Node ...] ; label -> op object

        root, b, decl = case.get("root", "raw"), None, None
        if root == "dfg":
            b = Dfg(*g.build_row(case["row"]))
            h = b.hugr
        elif root == "func":
            m = Module()
            h = m.hugr
            cal = case.get("callee")
            if cal is not None:
                decl = m.declare_function("g", g.build_poly(cal[0]))
            b = m.define_function("main", g.build_row(case["row"]))
        else:
            h = Hugr()
        if b is not None:
            nodes["in"] = [b.input_node]
            nodes["root"] = [b.parent_node]

        def observe_node(idx, full=True):
            n = Node(idx)
            try:
                op = h[n].op
            except KeyError:
                op = None
            w = 1 if op is None else self.width(op)
            zs = range(-1, w + 2) if full else (0,)
            for d in ("in", "out") if full else ("out",):
                for z in zs:
                    port = (InPort if d == "in" else OutPort)(n, z)
                    k = P.guard(lambda: h[n].op.port_kind(port), P.pr_kind)
                    t = P.guard(lambda: h[n].op.port_type(port), P.pr_otype)
                    hk = P.guard(lambda: h.port_kind(port), P.pr_kind)
                    ht = P.guard(lambda: h.port_type(port), P.pr_otype)
                    events.append(["port", idx, d, z, k, t, hk, ht])
            if not full:
                return
            events.append(["sig", idx,
                           P.guard(lambda: h[n].op.outer_signature(), P.pr_sig),
                           P.guard(lambda: h[n].op.inner_signature(), P.pr_sig),
                           P.guard(lambda: h[n].op.num_out, lambda v: gZ(int(v)))])

        def snap():
            live = {}
            for n in h:
                try:
                    lit = self.print_op(h[n].op)
                except Exception:                            # noqa: BLE001 -- a type outside the printer's vocabulary
                    lit = None
                live[n.idx] = lit
            for idx in sorted(set(last) - set(live)):
                events.append(["del", idx])
                del last[idx]
                dead.add(idx)
            watch, changed = [], set()
            for idx in sorted(live):
                lit = live[idx]
                dead.discard(idx)
                if lit is None:
                    if idx in last:                          # now holds something outside the model: stop watching
                        events.append(["del", idx])
                        del last[idx]
                    continue
                if last.get(idx) != lit:
                    events.append(["put", idx, lit])
                    last[idx] = lit
                    changed.add(idx)
                watch.append(idx)
            # a node whose operation changed in this step: every offset, both directions, signatures;
            # the others: output port 0 only
            for idx in watch:
                observe_node(idx, full=idx in changed)
            for idx in sorted(dead):
                if idx not in live:
                    observe_node(idx, full=False)

        def wire(w):
            return OutPort(nodes[w[0]][w[1]], w[2])

        def step(st):
            s = st["s"]
            if s == "add":                                   # raw: Hugr.add_node under the root
                op = P.build_op(st["op"])
                nodes[st["id"]] = [h.add_node(op, h.root)]
                opobj[st["id"]] = op
            elif s == "del":
                h.delete_node(Node(nodes[st["n"]][st.get("j", 0)].idx))
            elif s == "set":                                 # assignment of the node's operation
                op = P.build_op(st["op"])
                h[Node(nodes[st["n"]][0].idx)].op = op
                opobj[st["id"]] = op
            elif s == "mut":                                 # assignment of the operation's public fields, in place
                new = P.build_op(st["op"])
                old = h[Node(nodes[st["n"]][0].idx)].op
                if type(old) is not type(new):
                    raise TypeError("different class")
                for name, v in list(vars(new).items()):
                    if not name.startswith("_"):
                        setattr(old, name, v)
            elif s == "resolve":                             # Hugr.resolve_extensions over a registry of the named ops
                from hugr import ext
                import semver
                reg = ext.ExtensionRegistry()
                seen = {}
                for n in list(h):
                    op = h[n].op
                    if type(op) is ops.Custom and op.extension in st["exts"]:
                        e = seen.get(op.extension)
                        if e is None:
                            e = seen[op.extension] = ext.Extension(op.extension, semver.Version(0, 1, 0))
                            reg.add_extension(e)
                        if op.op_name not in e.operations:
                            e.add_op_def(ext.OpDef(name=op.op_name, description="", signature=ext.OpDefSig(
                                tys.PolyFuncType([], op.signature))))
                h.resolve_extensions(reg)
            elif s == "op":                                  # builder: add_op (completes a partial op in place)
                op = P.build_op(st["op"])
                opobj[st["id"]] = op
                nodes[st["id"]] = [b.add_op(op, *[wire(w) for w in st["w"]])]
            elif s == "reop":                                # the same operation object given to add_op again
                op = opobj[st["of"]]
                nodes[st["id"]] = [b.add_op(op, *[wire(w) for w in st["w"]])]
            elif s == "outs":
                b.set_outputs(*[wire(w) for w in st["w"]])
            elif s == "declare":
                b.declare_outputs(g.build_row(st["row"]))
            elif s == "nested":
                inner = b.add_nested(*[wire(w) for w in st["w"]])
                nodes[st["id"]] = [inner.parent_node]
                snap()
                ins = inner.inputs()
                inner.set_outputs(*[ins[i] for i in st["perm"]])
            elif s == "loop":
                tl = b.add_tail_loop([wire(w) for w in st["just"]], [wire(w) for w in st["rest"]])
                nodes[st["id"]] = [tl.parent_node]
                snap()
                ins = tl.inputs()
                nj = len(st["just"])
                sum_ty = tys.Sum([g.build_row(st["jin"]), g.build_row(st["jout"])])
                tag = tl.add_op(ops.Tag(0, sum_ty), *ins[:nj])
                tl.set_loop_outputs(OutPort(tag, 0), *ins[nj:])
            elif s == "cond":
                sum_ty = g.build_type(st["sum"])
                tag = b.add_op(ops.Tag(st["tag"], sum_ty), *[wire(w) for w in st["tw"]])
                nodes[st["id"]] = [tag]
                cond = b.add_conditional(OutPort(tag, 0), *[wire(w) for w in st["w"]])
                nodes[st["id"]].append(cond.parent_node)
                snap()
                for i in range(len(sum_ty.variant_rows)):
                    with cond.add_case(i) as c:
                        ins = c.inputs()
                        c.set_outputs(*(ins[len(ins) - st["nouts"]:] if st["nouts"] else []))
                    if i == 0:
                        snap()
            elif s == "cfg":
                cfg = b.add_cfg(*[wire(w) for w in st["w"]])
                nodes[st["id"]] = [cfg.parent_node]
                snap()
                with cfg.add_entry() as e:
                    e.set_single_succ_outputs(*e.inputs())
                nodes[st["id"]].append(e.parent_node)
                snap()
                cfg.branch_exit(OutPort(e.parent_node, 0))
            elif s == "call":
                cal = case["callee"]
                n = b.call(decl, *[wire(w) for w in st["w"]],
                           instantiation=None if cal[1] is None else g.build_functy(cal[1]),
                           type_args=None if cal[2] is None else [g.build_arg(x) for x in cal[2]])
                nodes[st["id"]] = [n]
            elif s == "loadf":
                cal = case["callee"]
                n = b.load_function(decl, instantiation=None if cal[1] is None else g.build_functy(cal[1]),
                                    type_args=None if cal[2] is None else [g.build_arg(x) for x in cal[2]])
                nodes[st["id"]] = [n]
            else:
                raise ValueError(s)

        snap()
        for st in case["steps"]:
            try:
                step(st)
                applied.append(st["id"])
            except Exception:                                # noqa: BLE001 -- refused / dangling reference: skipped
                pass
            snap()
        return events, applied

    # ------------------------------------------------------------------ literal
    def literal(self, obs):
        P = self.P
        from props.c06 import POISON
        psig = "([%s], [], [])" % POISON
        pk = gapp("ValueKind", POISON)
        out = []
        for e in obs["trace"]:
            if e[0] == "put":
                out.append(gapp("HPut", gZ(e[1]), gapp("Ret", e[2])))
            elif e[0] == "del":
                out.append(gapp("HDel", gZ(e[1])))
            elif e[0] == "port":
                out.append(gapp("HPort", gZ(e[1]), "In" if e[2] == "in" else "Out", gZ(e[3]), P.gres(e[4], pk),
                                P.gres(e[5], gapp("Some", POISON)), P.gres(e[6], pk),
                                P.gres(e[7], gapp("Some", POISON))))
            else:
                out.append(gapp("HSig", gZ(e[1]), P.gres(e[2], psig), P.gres(e[3], psig), P.gres(e[4], "(-7)%Z")))
        return gapp("CHist", glist(out))

    # ------------------------------------------------------------------ generation
    def small_type(self, rng):
        return rng.choice([["USize"], ["Qubit"], ["UnitSum", 2], ["USize"], ["Qubit"],
                           ["Tuple", [["USize"], ["Qubit"]]], ["Sum", [[["Qubit"]], [["USize"], ["USize"]]]],
                           ["Func", [["USize"]], [["Qubit"]], []]] + [self.g.rand_type(rng, 1)])

    def small_row(self, rng, lo=0, hi=3):
        return [self.small_type(rng) for _ in range(rng.randint(lo, hi))]

    def term_of_class(self, rng, name, depth=1):
        """A random term of the given class (for in-place changes of an operation's fields)."""
        P = self.P
        from props.c06 import SCHEMA, CONSTVALS
        if name in ("Call", "LoadFunc"):
            return P.rand_call(rng, name, depth)
        if name == "ConstVal":
            return [name, rng.choice(CONSTVALS)]
        op = [name] + [P.rand_field(rng, k, depth) for k in SCHEMA[name]]
        if name == "Tag":
            op[1] = rng.randint(0, max(0, P.n_variants(op[2]) - 1))
        return op

    def gen_raw(self, rng):
        """add_node / delete_node (index reuse) / op assignment / field assignment / resolve_extensions."""
        P = self.P
        steps, terms, live = [], {}, []
        nid = [0]

        def fresh():
            nid[0] += 1
            return "n%d" % nid[0]

        def add():
            t = P.rand_op(rng, depth=rng.choice([1, 1, 2]))
            if rng.random() < 0.6:
                t = self.term_of_class(rng, rng.choice(DATAFLOW_FULL + ["Call", "LoadFunc", "Call"]))
            L = fresh()
            steps.append({"s": "add", "id": L, "op": t})
            terms[L] = t
            live.append(L)
        for _ in range(rng.randint(1, 3)):
            add()
        for _ in range(rng.randint(2, 5)):
            r = rng.random()
            if r < 0.45 and live:                            # delete, then (usually) a new node takes the index
                L = live.pop(rng.randrange(len(live)))
                steps.append({"s": "del", "id": fresh(), "n": L})
                if rng.random() < 0.3 and live:
                    L2 = live.pop(rng.randrange(len(live)))
                    steps.append({"s": "del", "id": fresh(), "n": L2})
                for _ in range(rng.choice([1, 1, 2])):
                    add()
            elif r < 0.65 and live:
                L = rng.choice(live)
                t = P.rand_op(rng, depth=1) if rng.random() < 0.4 else \
                    self.term_of_class(rng, rng.choice(DATAFLOW_FULL + ["Call"]))
                steps.append({"s": "set", "id": fresh(), "n": L, "op": t})
                terms[L] = t
            elif r < 0.85 and live:
                L = rng.choice(live)
                t = self.term_of_class(rng, terms[L][0])
                steps.append({"s": "mut", "id": fresh(), "n": L, "op": t})
                terms[L] = t
            elif r < 0.92:
                exts = sorted({terms[L][2] for L in live if terms[L][0] == "Custom"})
                steps.append({"s": "resolve", "id": fresh(), "exts": exts})
            else:
                add()
        return {"kind": "hist", "root": "raw", "steps": steps}

    def gen_build(self, rng):
        """A builder program: partial operations completed in place by add_op / set_outputs / nested builders,
        nodes deleted and their index reused, the same operation object completed twice."""
        P = self.P
        root = rng.choice(["dfg", "func", "func"])
        row = self.small_row(rng, 1, 3)
        case = {"kind": "hist", "root": root, "row": row, "steps": []}
        env = [(["in", 0, i], t) for i, t in enumerate(row)]         # typed wires
        steps = case["steps"]
        partial, opnodes = [], []
        nid = [0]
        if root == "func":
            if rng.random() < 0.6:
                c = P.rand_call(rng, "Call", 1)
                case["callee"] = [c[1], c[2], c[3]]
            else:
                f = ["F", self.small_row(rng, 0, 2), self.small_row(rng, 0, 2), []]
                case["callee"] = [["P", [], f], None, None]

        def fresh():
            nid[0] += 1
            return "s%d" % nid[0]

        def pick(k=None):
            k = rng.randint(0, 3) if k is None else k
            return [rng.choice(env) for _ in range(k)] if env else []

        for _ in range(rng.randint(2, 6)):
            L = fresh()
            r = rng.random()
            if r < 0.14 and env:                             # Noop() completed by its input wire
                (w, t), = pick(1)
                steps.append({"s": "op", "id": L, "op": ["Noop", None], "w": [w]})
                env.append(([L, 0, 0], t))
                partial.append(L)
                opnodes.append(L)
            elif r < 0.28 and env:                           # MakeTuple() completed by its input wires
                ws = pick(rng.randint(0, 3))
                steps.append({"s": "op", "id": L, "op": ["MakeTuple", None], "w": [w for w, _ in ws]})
                env.append(([L, 0, 0], ["Tuple", [copy.deepcopy(t) for _, t in ws]]))
                partial.append(L)
                opnodes.append(L)
            elif r < 0.36:                                   # UnpackTuple() on a tuple wire
                tup = [(w, t) for w, t in env if t[0] == "Tuple"]
                if not tup:
                    continue
                w, t = rng.choice(tup)
                steps.append({"s": "op", "id": L, "op": ["UnpackTuple", None], "w": [w]})
                env.extend(([L, 0, i], x) for i, x in enumerate(t[1]))
                partial.append(L)
                opnodes.append(L)
            elif r < 0.44:                                   # a complete operation
                f = ["F", [t for _, t in pick(rng.randint(0, 2))], self.small_row(rng, 0, 3), []]
                t = rng.choice([["Custom", "op", "ext.a", "x", f, []], ["Noop", self.small_type(rng)],
                                ["MakeTuple", self.small_row(rng, 0, 3)], ["CallIndirect", None]])
                k = {"Custom": len(f[1]), "Noop": 1, "MakeTuple": len(t[1] or []), "CallIndirect": 1}[t[0]]
                ws = pick(k)
                if t[0] == "CallIndirect":
                    fw_ = [(w, x) for w, x in env if x[0] == "Func"]
                    if not fw_:
                        continue
                    ws = [rng.choice(fw_)]
                    partial.append(L)
                steps.append({"s": "op", "id": L, "op": t, "w": [w for w, _ in ws]})
                if t[0] == "Custom":
                    env.extend(([L, 0, i], x) for i, x in enumerate(f[2]))
                opnodes.append(L)
            elif r < 0.58 and opnodes:                       # delete a node; the next node reuses its index
                D = opnodes.pop(rng.randrange(len(opnodes)))
                steps.append({"s": "del", "id": L, "n": D})
                if rng.random() < 0.85:
                    env[:] = [(w, t) for w, t in env if w[0] != D]
            elif r < 0.66 and partial and env:               # the same partial op object completed again
                O = rng.choice(partial)
                steps.append({"s": "reop", "id": L, "of": O, "w": [w for w, _ in pick(rng.randint(1, 2))]})
            elif r < 0.74:
                ws = pick(rng.randint(0, 3))
                steps.append({"s": "outs", "id": L, "w": [w for w, _ in ws]})
            elif r < 0.78 and root == "func":
                steps.append({"s": "declare", "id": L, "row": self.small_row(rng, 0, 2)})
            elif r < 0.84:
                ws = pick(rng.randint(0, 3))
                perm = [rng.randrange(len(ws)) for _ in range(rng.randint(0, 3))] if ws else []
                steps.append({"s": "nested", "id": L, "w": [w for w, _ in ws], "perm": perm})
                env.extend(([L, 0, i], ws[p][1]) for i, p in enumerate(perm))
                opnodes.append(L)
            elif r < 0.89:
                just, rest = pick(rng.randint(0, 2)), pick(rng.randint(0, 2))
                jout = self.small_row(rng, 0, 2)
                steps.append({"s": "loop", "id": L, "just": [w for w, _ in just], "rest": [w for w, _ in rest],
                              "jin": [t for _, t in just], "jout": jout})
                env.extend(([L, 0, i], t) for i, t in enumerate(jout + [t for _, t in rest]))
                opnodes.append(L)
            elif r < 0.94:
                tw, others = pick(rng.randint(0, 2)), pick(rng.randint(0, 2))
                nv = rng.randint(1, 3)
                tag = rng.randrange(nv)
                rows = [self.small_row(rng, 0, 2) for _ in range(nv)]
                rows[tag] = [t for _, t in tw]
                nouts = rng.randint(0, len(others))
                steps.append({"s": "cond", "id": L, "sum": ["Sum", rows], "tag": tag, "tw": [w for w, _ in tw],
                              "w": [w for w, _ in others], "nouts": nouts})
                env.extend(([L, 1, i], t) for i, (_, t) in enumerate(others[len(others) - nouts:] if nouts else []))
            elif r < 0.97:
                ws = pick(rng.randint(0, 2))
                steps.append({"s": "cfg", "id": L, "w": [w for w, _ in ws]})
                env.extend(([L, 0, i], t) for i, (_, t) in enumerate(ws))
                opnodes.append(L)
            elif root == "func":
                cal = case["callee"]
                inst = cal[1] if cal[1] is not None else cal[0][2]
                if rng.random() < 0.7:
                    steps.append({"s": "call", "id": L, "w": [w for w, _ in pick(len(inst[1]))]})
                    env.extend(([L, 0, i], t) for i, t in enumerate(inst[2]))
                else:
                    steps.append({"s": "loadf", "id": L})
                    env.append(([L, 0, 0], ["Func", inst[1], inst[2], inst[3]]))
                opnodes.append(L)
        if rng.random() < 0.5:
            steps.append({"s": "outs", "id": fresh(), "w": [w for w, _ in pick(rng.randint(0, 2))]})
        return case

    def generate(self, rng, tier):
        n_raw, n_build = (70, 70) if tier == "quick" else (500, 500)
        out = [self.gen_raw(rng) for _ in range(n_raw)]
        out += [self.gen_build(rng) for _ in range(n_build)]
        return out

    def corpus(self):
        U, Q, B = ["USize"], ["Qubit"], ["UnitSum", 2]
        return [
            # seeded C06-e: a type remembered per (index, offset): Noop(bool) deleted, the index reused by MakeTuple
            {"kind": "hist", "root": "dfg", "row": [B, Q], "steps": [
                {"s": "op", "id": "a", "op": ["Noop", None], "w": [["in", 0, 0]]},
                {"s": "op", "id": "t", "op": ["Noop", None], "w": [["in", 0, 0]]},
                {"s": "del", "id": "d", "n": "t"},
                {"s": "op", "id": "p", "op": ["MakeTuple", None], "w": [["in", 0, 1], ["a", 0, 0]]},
                {"s": "nested", "id": "n", "w": [["p", 0, 0]], "perm": [0]},
                {"s": "outs", "id": "o", "w": [["n", 0, 0]]}]},
            {"kind": "hist", "root": "raw", "steps": [
                {"s": "add", "id": "a", "op": ["Noop", U]}, {"s": "del", "id": "d", "n": "a"},
                {"s": "add", "id": "b", "op": ["MakeTuple", [Q, U]]}]},
            # the node's operation is replaced / its fields are assigned
            {"kind": "hist", "root": "raw", "steps": [
                {"s": "add", "id": "a", "op": ["Input", [U]]}, {"s": "set", "id": "s", "n": "a", "op": ["Input", [Q, U]]},
                {"s": "mut", "id": "m", "n": "a", "op": ["Input", [U, U, Q]]}]},
            {"kind": "hist", "root": "raw", "steps": [
                {"s": "add", "id": "a", "op": ["Custom", "op", "ext.a", "x", ["F", [U], [Q], []], []]},
                {"s": "resolve", "id": "r", "exts": ["ext.a"]},
                {"s": "set", "id": "s", "n": "a", "op": ["Custom", "op", "ext.a", "x", ["F", [Q], [U, U], []], []]},
                {"s": "resolve", "id": "r2", "exts": ["ext.a"]}]},
            # found on the unchanged tree (repaired): MakeTuple remembered its first signature (AsExtOp.ext_op is
            # a cached_property) when the builder completed the same object a second time
            {"kind": "hist", "root": "dfg", "row": [B, Q], "steps": [
                {"s": "op", "id": "m", "op": ["MakeTuple", None], "w": [["in", 0, 0]]},
                {"s": "reop", "id": "m2", "of": "m", "w": [["in", 0, 1], ["in", 0, 0]]}]},
            # outputs set twice: Output and the parent's signature follow the last call
            {"kind": "hist", "root": "func", "row": [U, Q], "callee": [["P", [], ["F", [U], [Q, U], []]], None, None],
             "steps": [{"s": "call", "id": "c", "w": [["in", 0, 0]]},
                       {"s": "outs", "id": "o2", "w": [["c", 0, 1], ["c", 0, 0], ["in", 0, 1]]}]},
            {"kind": "hist", "root": "dfg", "row": [U, Q], "steps": [
                {"s": "outs", "id": "o1", "w": [["in", 0, 0]]},
                {"s": "outs", "id": "o2", "w": [["in", 0, 1], ["in", 0, 0], ["in", 0, 1]]}]},
        ]

    # ------------------------------------------------------------------ reporting
    @staticmethod
    def describe(obs):
        out = []
        for e in (obs or {}).get("trace", []):
            if e[0] in ("put", "del"):
                out.append(e)
            else:
                out.append(e[:4 if e[0] == "port" else 2] + [(v[1] if v[0] == "err" else v[2]) for v in e[(4 if e[0] == "port" else 2):]])
        return {"applied_steps": (obs or {}).get("applied"), "trace": out}

    @staticmethod
    def distribution(cases, observations):
        d = {"cases": 0, "by_root": {}, "steps": {}, "steps_applied": 0, "events": 0, "port_observations": 0,
             "index_reused_with_other_op": 0, "op_changed_in_place_or_assigned": 0, "answers_at_vacant_index": 0}
        for c, o in zip(cases, observations):
            if c["kind"] != "hist":
                continue
            d["cases"] += 1
            d["by_root"][c.get("root", "raw")] = d["by_root"].get(c.get("root", "raw"), 0) + 1
            ids = set(o["applied"])
            for st in c["steps"]:
                if st["id"] in ids:
                    d["steps"][st["s"]] = d["steps"].get(st["s"], 0) + 1
            d["steps_applied"] += len(ids)
            d["events"] += len(o["trace"])
            state, deleted = {}, {}
            for e in o["trace"]:
                if e[0] == "put":
                    if e[1] in deleted and deleted[e[1]] != e[2]:
                        d["index_reused_with_other_op"] += 1
                    elif e[1] in state and state[e[1]] != e[2]:
                        d["op_changed_in_place_or_assigned"] += 1
                    deleted.pop(e[1], None)
                    state[e[1]] = e[2]
                elif e[0] == "del":
                    deleted[e[1]] = state.pop(e[1], None)
                elif e[0] == "port":
                    d["port_observations"] += 1
                    if e[1] not in state:
                        d["answers_at_vacant_index"] += 1
        return d

    # ------------------------------------------------------------------ shrinking
    def shrink(self, case):
        steps = case["steps"]
        for i in reversed(range(len(steps))):
            yield {**case, "steps": steps[:i] + steps[i + 1:]}
        if case.get("row") and len(case["row"]) > 1:
            used = {w[2] for st in steps for key in ("w", "tw", "just", "rest") for w in st.get(key, [])
                    if w[0] == "in"}
            if len(case["row"]) - 1 not in used:
                yield {**case, "row": case["row"][:-1]}
        for i, st in enumerate(steps):
            for key in ("w", "tw", "just", "rest", "perm"):
                if st.get(key) and st["s"] not in ("loop",):
                    yield {**case, "steps": steps[:i] + [{**st, key: st[key][:-1]}] + steps[i + 1:]}
            if "op" in st:
                for c in list(self.P.shrink({"kind": "sig", "op": st["op"]}))[:20]:
                    yield {**case, "steps": steps[:i] + [{**st, "op": c["op"]}] + steps[i + 1:]}
