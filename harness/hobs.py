"""Shared observation of a hugr.Hugr through its public query API, as a canonical JSON-able structure.

dump(h) -> {"root": idx,
            "nodes": [{"idx", "kind" (class name of the op), "name" (op.name() or None),
                       "op": serial dict of the operation (parent field included) or {"error": class},
                       "parent": idx | None, "children": [idx...], "md": {...},
                       "nin", "nout" (reported port counts)}]   in iteration order,
            "links": [[src idx, src offset, dst idx, dst offset]...] in links() order,
            "order_out": {idx: [dst idx...]}, "order_in": {idx: [src idx...]}}

Nothing here decides a property; properties canonicalise further (multisets, renaming) as they need.
"""
from __future__ import annotations

import json


def op_serial(h, n):
    """The encoded form of the node's operation, as plain JSON data."""
    d = h[n]
    try:
        s = d._to_serial(n)
        return json.loads(s.model_dump_json())
    except Exception as e:  # IncompleteOp etc.
        return {"error": type(e).__name__}


def dump(h, with_ops=True):
    from hugr.hugr.node_port import Direction
    nodes = []
    for n in h:
        d = h[n]
        try:
            name = d.op.name()
        except Exception as e:
            name = "error:" + type(e).__name__
        nodes.append({
            "idx": n.idx, "kind": type(d.op).__name__, "name": name,
            "op": op_serial(h, n) if with_ops else None,
            "parent": d.parent.idx if d.parent is not None else None,
            "children": [c.idx for c in h.children(n)],
            "md": json.loads(json.dumps(d.metadata, default=repr)),
            "nin": h.num_in_ports(n), "nout": h.num_out_ports(n),
        })
    links = [[s.node.idx, s.offset, t.node.idx, t.offset] for s, t in h.links()]
    oo, oi = {}, {}
    for n in h:
        a = [m.idx for m in h.outgoing_order_links(n)]
        b = [m.idx for m in h.incoming_order_links(n)]
        if a:
            oo[n.idx] = a
        if b:
            oi[n.idx] = b
    return {"root": h.root.idx, "nodes": nodes, "links": links, "order_out": oo, "order_in": oi}


def canon_links(links):
    return sorted(map(tuple, links))


def rename(d, f):
    """the same dump with node indices mapped through f (a dict)"""
    g = lambda i: None if i is None else f[i]
    return {
        "root": g(d["root"]),
        "nodes": [{**n, "idx": g(n["idx"]), "parent": g(n["parent"]), "children": [g(c) for c in n["children"]]}
                  for n in d["nodes"]],
        "links": [[g(a), b, g(c), e] for a, b, c, e in d["links"]],
        "order_out": {g(k): [g(x) for x in v] for k, v in d["order_out"].items()},
        "order_in": {g(k): [g(x) for x in v] for k, v in d["order_in"].items()},
    }
