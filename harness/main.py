"""Driver: ./check Cnn [--tier quick|thorough] [--replay file] [--seed n]"""
from __future__ import annotations

import argparse
import importlib
import json
import os
import random
import shutil
import sys
import tempfile
import time
import traceback

HERE = os.path.dirname(os.path.abspath(__file__))
sys.path.insert(0, HERE)
import fw  # noqa: E402

sys.path.insert(0, fw.SRC)


class Ctx:
    def __init__(self, pid, tier, seed, work):
        self.pid, self.tier, self.seed, self.work = pid, tier, seed, work
        self.notes: list[str] = []
        self.stats: dict = {}


def out(line: str):
    print(line, flush=True)


def write_replay(pid, kind, payload) -> str:
    os.makedirs(os.path.join(fw.VERIF, "replays"), exist_ok=True)
    h = fw.case_hash(payload)
    path = os.path.join(fw.VERIF, "replays", f"{pid}-{kind}-{h}.json")
    with open(path, "w") as f:
        json.dump(payload, f, indent=1, default=repr, sort_keys=True)
    return path


def evaluate(P, ctx, cases, tag):
    """Observes the implementation on each case and evaluates corr/mon in Coq."""
    obs, lits = [], []
    for c in cases:
        o = P.observe(c, ctx)
        obs.append(o)
        lits.append(P.literal(c, o, ctx))
    res = fw.eval_cases(ctx.work, P.run_module, lits, shard=P.shard, checks=P.checks, tag=tag,
                        case_type=P.case_type)
    return obs, res


def shrink_case(P, ctx, case, check, rounds=40):
    """Greedy shrinking: keep any smaller variant that still fails `check` (time-boxed)."""
    cur = case
    t0 = time.time()
    budget = 60 if ctx.tier == "quick" else 300
    for r in range(rounds):
        if time.time() - t0 > budget:
            break
        cands = list(P.shrink(cur))[:400]
        if not cands:
            break
        try:
            _, res = evaluate(P, ctx, cands, f"shrink{r}")
        except Exception:
            break
        if not res[check]:
            break
        cur = cands[res[check][0]]
    return cur


def main():
    ap = argparse.ArgumentParser()
    ap.add_argument("pid")
    ap.add_argument("--tier", default=os.environ.get("VERIF_TIER", "quick"), choices=["quick", "thorough"])
    ap.add_argument("--seed", type=int, default=int(os.environ.get("VERIF_SEED", "0") or 0))
    ap.add_argument("--replay")
    ap.add_argument("--keep", action="store_true")
    a = ap.parse_args()
    pid = a.pid.upper()
    t0 = time.time()
    os.makedirs(fw.WORK_ROOT, exist_ok=True)
    work = tempfile.mkdtemp(prefix=f"{pid}-", dir=fw.WORK_ROOT)
    ctx = Ctx(pid, a.tier, a.seed, work)
    rc = 2
    try:
        if pid in ("SETUP", "REGEN"):
            rc = setup(ctx, build=(pid == "SETUP"))
            sys.exit(rc)
        mod = importlib.import_module(f"props.{pid.lower()}")
        P = mod.PROP
        rc = run(P, ctx, a)
    except SystemExit:
        raise
    except BaseException:
        traceback.print_exc()
        # an internal failure is never silent: the property is not shown to hold by this run
        path = write_replay(pid, "internal", {"property": pid, "kind": "internal-error",
                                              "trace": traceback.format_exc()[-4000:]})
        out(f"VIOLATION property={pid} replay={path} no-failing-input-found")
        rc = 1
    finally:
        if not a.keep:
            shutil.rmtree(work, ignore_errors=True)
    sys.exit(rc)


def setup(ctx, build=True):
    """./check setup: regenerate every data-derived Coq file from VERIF_REPO's working tree (coq/gen/*.v are
    never taken from the commit: they describe whatever checkout the last run looked at), then build everything.
    ./check regen: regeneration only."""
    import glob
    rc = 0
    for f in sorted(glob.glob(os.path.join(HERE, "props", "c[0-9][0-9].py"))):
        name = os.path.basename(f)[:-3]
        src = open(f).read()
        if "def regenerate" not in src:
            continue
        try:
            P = importlib.import_module("props." + name).PROP
            out("regenerated %s: %s" % (name.upper(), P.regenerate(ctx)))
        except BaseException:
            traceback.print_exc()
            rc = 1
    if build:
        jobs = int(os.environ.get("VERIF_JOBS", "14"))
        with fw.BuildLock():
            fw.ensure_makefile()
            r, log = fw.sh(["make", "-k", "-j", str(jobs)], cwd=fw.COQ, timeout=3000)
        out(tail_err(log))
        out("setup build rc=%d" % r)
        rc = rc or r
    return rc


def run(P, ctx, a):
    pid, tier = ctx.pid, ctx.tier
    t0 = time.time()
    violations = []      # (replay_path, suffix)
    known_hits = {}
    known, fixed = fw.load_known(pid)

    # 1. regenerate data-derived Coq files, then build the closure of the property
    regenerated = P.regenerate(ctx)
    targets = [P.props_file.replace(".v", ".vo"), P.run_file.replace(".v", ".vo")]
    ok_run, log_run = fw.coq_build([targets[1]])
    ok_props, log_props = fw.coq_build([targets[0]])
    closure = fw.coq_closure(P.props_file)
    bad = fw.forbidden_gate(sorted(set(closure + fw.coq_closure(P.run_file))))
    oblig = fw.count_obligations(closure)
    n_oblig = sum(len(v) for v in oblig.values())
    prop_thms = [t for t in oblig.get(P.props_file, [])]
    assumptions = fw.print_assumptions(ctx.work, P.props_file[:-2].replace("/", "."), prop_thms) if ok_props else {}
    open_axioms = {t: s for t, s in assumptions.items()
                   if "Closed under the global context" not in s and not P.axioms_allowed(t, s)}
    chk = None
    if tier == "thorough" and ok_props and not a.replay:
        try:
            chk = fw.coqchk(P.props_file[:-2].replace("/", "."))
        except Exception as e:                      # timeout etc.: reported, not fatal
            chk = {"ok": None, "axioms": "?", "summary": "coqchk did not finish: " + repr(e)[:200]}
    proof_broken = None
    if bad:
        proof_broken = "forbidden construct in the development: " + "; ".join(bad[:5])
    elif not ok_props:
        proof_broken = "proof closure of %s does not build: %s" % (P.props_file, tail_err(log_props))
    elif open_axioms:
        proof_broken = "theorems with unexpected assumptions: " + json.dumps(open_axioms)[:600]
    elif chk is not None and chk["ok"] is False:
        proof_broken = "coqchk rejects the compiled development: " + chk["summary"][:600]
    elif chk is not None and chk["ok"] and chk["axioms"] not in ("<none>",) and not P.axioms_allowed("coqchk", chk["axioms"]):
        proof_broken = "coqchk reports axioms in the closure: " + chk["axioms"][:600]

    if a.replay:
        return replay(P, ctx, a.replay)

    # 2. cases: corpus first, then generated
    rng = random.Random(ctx.seed * 1000003 + sum(map(ord, pid)))
    cases = []
    observations = []
    res = {c: [] for c in P.checks}
    eval_error = None
    if ok_run:
        cases = list(P.corpus(ctx)) + list(P.generate(rng, tier, ctx))
        try:
            observations, res = evaluate(P, ctx, cases, "cases")
        except fw.CoqEvalError as e:
            eval_error = str(e)
    else:
        eval_error = "run module does not build: " + tail_err(log_run)

    # 3. verdicts
    mon_fail = res.get("mon", [])
    corr_fail = [i for i in res.get("corr", []) if i not in set(mon_fail)]
    seen_sigs = set()
    for i in mon_fail:
        sig = P.signature(cases[i], observations[i], ctx)
        if sig in known:
            known_hits.setdefault(sig, 0)
            known_hits[sig] += 1
            continue
        if sig in seen_sigs and len(seen_sigs) > 0 and sig != "unclassified":
            continue
        seen_sigs.add(sig)
        small = shrink_case(P, ctx, cases[i], "mon")
        o = P.observe(small, ctx)
        path = write_replay(pid, "mon", {"property": pid, "kind": "property-fails-on-implementation",
                                         "signature": sig, "case": P.describe(small, o),
                                         "replay_cmd": f"./check {pid} --replay <this file>"})
        violations.append((path, ""))
        if len(violations) >= 5:
            break
    searched = 0
    if corr_fail and not violations:
        # model and implementation disagree but the specification was not seen to fail:
        # search the neighbourhood for a failing input (monitor only)
        found = None
        t_search = time.time()
        for i in corr_fail[:5]:
            if time.time() - t_search > (90 if tier == "quick" else 600):
                break
            neigh = list(P.neighbours(cases[i], rng))[:(300 if tier == "quick" else 2000)]
            if not neigh:
                continue
            try:
                nobs, nres = evaluate(P, ctx, neigh, "search")
            except fw.CoqEvalError:
                continue
            searched += len(neigh)
            bad_n = [j for j in nres.get("mon", []) if P.signature(neigh[j], nobs[j], ctx) not in known]
            if bad_n:
                found = (neigh[bad_n[0]], nobs[bad_n[0]])
                break
        if found:
            small = shrink_case(P, ctx, found[0], "mon")
            o = P.observe(small, ctx)
            path = write_replay(pid, "mon", {"property": pid, "kind": "property-fails-on-implementation",
                                             "signature": P.signature(small, o, ctx), "case": P.describe(small, o)})
            violations.append((path, ""))
        else:
            i = corr_fail[0]
            small = shrink_case(P, ctx, cases[i], "corr")
            o = P.observe(small, ctx)
            path = write_replay(pid, "corr", {
                "property": pid, "kind": "correspondence-broken",
                "broken": f"correspondence {P.run_module}.corr (model {P.props_file} vs implementation)",
                "theorems_no_longer_tied": prop_thms, "disagreeing_case": P.describe(small, o),
                "neighbours_searched": searched})
            violations.append((path, " no-failing-input-found"))
    # property-specific extra checks (regenerated-data theorems, exhaustive sweeps ...)
    extra_info = {}
    if ok_run and not eval_error:
        for kind, desc, detail in P.extra(ctx, tier):
            sig = detail.get("signature", kind) if isinstance(detail, dict) else kind
            if sig in known:
                known_hits[sig] = known_hits.get(sig, 0) + 1
                continue
            path = write_replay(pid, kind, {"property": pid, "kind": kind, "what": desc, "detail": detail})
            suffix = "" if (isinstance(detail, dict) and detail.get("failing_input")) else " no-failing-input-found"
            violations.append((path, suffix))
    if eval_error and not violations:
        path = write_replay(pid, "eval", {"property": pid, "kind": "model-evaluation-failed", "error": eval_error[-3000:]})
        violations.append((path, " no-failing-input-found"))
    if proof_broken and not violations:
        path = write_replay(pid, "proof", {"property": pid, "kind": "proof-obligation-broken", "broken": proof_broken,
                                           "searched_cases": len(cases)})
        violations.append((path, " no-failing-input-found"))

    # 4. evidence
    nontriv = set()
    for c, o in zip(cases, observations):
        if P.nontrivial(c, o):
            nontriv.add(fw.case_hash(P.describe(c, o)["input"] if isinstance(P.describe(c, o), dict) and "input" in P.describe(c, o) else P.describe(c, o)))
    samples = [P.describe(c, o) for c, o in list(zip(cases, observations))[:: max(1, len(cases) // 3)][:3]]
    tb = [
        "Coq 8.16.1 kernel + vm_compute (no native_compute); full .vo build by make",
        "Print Assumptions per property theorem: " + json.dumps(assumptions, sort_keys=True),
        "hand-written Gallina model tied to /repo by behavioural correspondence (sampling) on this run's cases",
        "harness: Python->Gallina literal printer, observation code in harness/props/%s.py" % pid.lower(),
    ] + (["coqchk -o on the property's closure: " + json.dumps(chk)] if chk is not None else []) + list(P.trusted)
    ev = {
        "property_id": pid, "tier": tier, "seed": ctx.seed, "level": "proof",
        "coverage": {
            "obligations": n_oblig,
            "discharged": n_oblig if (ok_props and not bad and not open_axioms) else 0,
            "checker_cmd": "make -C coq %s  (coqc 8.16.1, full .vo); coqc cases_*.v with vm_compute" % targets[0],
            "trusted_base": tb,
            "evaluations": len(cases),
            "distinct_nontrivial": len(nontriv),
            "rule": P.rule,
            "samples": samples or [{"note": "no cases evaluated"}],
            "exhaustive": bool(P.exhaustive),
            "theorems": prop_thms,
            "proof_files": {f: len(v) for f, v in oblig.items()},
            "regenerated": regenerated,
            "input_distribution": P.distribution(cases, observations),
            "correspondence_failures": len(res.get("corr", [])),
            "monitor_failures": len(mon_fail),
            "known_finding_hits": known_hits,
            "fixed_entries": fixed,
            "neighbours_searched": searched,
            "notes": ctx.notes, **ctx.stats,
        },
        "assumptions": list(P.assumptions),
        "wall_s": round(time.time() - t0, 2),
        "violations": len(violations),
    }
    os.makedirs(os.path.join(fw.VERIF, "evidence"), exist_ok=True)
    with open(os.path.join(fw.VERIF, "evidence", f"{pid}.json"), "w") as f:
        json.dump(ev, f, indent=1, default=repr)
    for sig, n in sorted(known_hits.items()):
        out(f"KNOWN-FINDING: property={pid} sig={sig} {known[sig]} ({n} cases)")
    for path, suffix in violations:
        out(f"VIOLATION property={pid} replay={path}{suffix}")
    if not violations:
        out(f"OK property={pid} tier={tier} cases={len(cases)} nontrivial={len(nontriv)} "
            f"theorems={len(prop_thms)} obligations={n_oblig} wall={ev['wall_s']}s")
    return 1 if violations else 0


def replay(P, ctx, path):
    d = json.load(open(path))
    case = d.get("case", d.get("disagreeing_case", {})).get("input")
    if case is None:
        out("replay file holds no concrete case: " + d.get("kind", "?") + " " + str(d.get("broken", d.get("what", ""))))
        return 1
    case = P.undescribe(case) if hasattr(P, "undescribe") else case
    obs, res = evaluate(P, ctx, [case], "replay")
    out(json.dumps({"observed": P.describe(case, obs[0]), "failing_checks": {k: bool(v) for k, v in res.items()}},
                   default=repr)[:4000])
    if any(res.values()):
        out(f"VIOLATION property={ctx.pid} replay={path}")
        return 1
    return 0


def tail_err(log: str) -> str:
    lines = [l for l in log.splitlines() if l.strip() and not l.startswith("COQ") and not l.startswith("make")]
    return " | ".join(lines[-8:])[:1200]


if __name__ == "__main__":
    main()
