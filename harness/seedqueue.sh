#!/bin/bash
# usage: seedqueue.sh <letters> : confirms and tests every /tmp/wt/out-Cnn/patch_<letter>.diff not yet stored under seeded/
cd /verif
for L in $(echo ${1:-cd} | grep -o .); do
  for d in /tmp/wt/out-C??; do
    P=$(basename $d | sed 's/out-//')
    [ -f $d/patch_$L.diff ] && [ -f $d/demo_$L.py ] && [ -f $d/meta_$L.json ] || continue
    [ -d seeded/$P-$L ] && continue
    [ -f /tmp/wt/seedlog-$P-$L.txt ] && continue
    echo "=== $P-$L $(date +%T)"
    bash harness/seedtest.sh $P $L > /tmp/wt/seedlog-$P-$L.txt 2>&1
    tail -4 /tmp/wt/seedlog-$P-$L.txt
  done
done
