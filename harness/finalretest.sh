#!/bin/bash
# Re-runs EVERY stored seeded and harmless change against the current checks, in three lanes (the lane with C07 C10 C12 C14 C17
# is alone in regenerating coq/gen from the patched checkout).  Results go to seeded/*/meta.json and neutral/*/meta.json ("retest_quick").
cd /verif; export NO_REGEN=1
lane() { n=$1; shift; ids=""; for P in "$@"; do ids="$ids $(ls seeded | grep "^$P-" | tr '\n' ' ')"; done; nids=""; for P in "$@"; do nids="$nids $(ls neutral | grep "^$P-" | tr '\n' ' ')"; done
  (bash harness/seedretest.sh $ids > /tmp/wt/final-seeded-$n.log 2>&1; bash harness/neutralretest.sh $nids > /tmp/wt/final-neutral-$n.log 2>&1) & }
lane A C03 C07 C10 C12 C14 C17
lane B C01 C02 C05 C09 C13 C16 C19
lane C C04 C06 C08 C11 C15 C18 C20
wait
unset NO_REGEN; ./check regen >/dev/null 2>&1
