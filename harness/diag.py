"""Developer aid: evaluates one property's quick cases and prints the first failing cases per check.
usage (from /verif): PYTHONPATH=$VERIF_REPO/hugr-py/src python harness/diag.py Cnn [k]"""
import sys, os, random, json, tempfile
sys.path.insert(0, os.path.dirname(os.path.abspath(__file__)))
import fw, main, importlib
pid = sys.argv[1]
P = importlib.import_module('props.' + pid.lower()).PROP
work = tempfile.mkdtemp(prefix=pid + '-diag-', dir=fw.WORK_ROOT)
ctx = main.Ctx(pid, 'quick', 0, work)
P.regenerate(ctx)
rng = random.Random(0 * 1000003 + sum(map(ord, pid)))
cases = list(P.corpus(ctx)) + list(P.generate(rng, 'quick', ctx))
obs, res = main.evaluate(P, ctx, cases, 'cases')
print({k: len(v) for k, v in res.items()})
for k, v in res.items():
    for i in v[:int(sys.argv[2]) if len(sys.argv) > 2 else 3]:
        print('---', k, i, json.dumps(P.describe(cases[i], obs[i]), default=repr)[:1800])
