"""C17 — published JSON schema == schema of the pydantic models (model: coq/model/Schema.v)."""
from __future__ import annotations

import atexit
import copy
import glob
import json
import os
import subprocess
import sys

import fw
from fw import gapp, gbool
from translators import schema as tr

HERE = os.path.dirname(os.path.abspath(__file__))
C17DIR = os.path.join(os.path.dirname(HERE), "c17")
TAGS = {"op": "OpType", "t": "Type", "v": "Value", "tp": "TypeParam", "tya": "TypeArg", "s": "SumType", "b": "TypeDefBound"}
SCHEMA_FILE = {("hugr", "strict"): "hugr_schema_strict", ("hugr", "lax"): "hugr_schema",
               ("testing", "strict"): "testing_hugr_schema_strict", ("testing", "lax"): "testing_hugr_schema"}


# ------------------------------------------------------------------------------------- worker processes

class Workers:
    """pydantic workers (one per model configuration, so a rebuilt config never leaks) and jsonschema workers."""

    def __init__(self):
        self.procs = {}
        atexit.register(self.close)

    def _spawn(self, key):
        kind = key[0]
        if kind == "pyd":
            env = dict(os.environ, PYTHONPATH=fw.SRC, PYTHONHASHSEED="0", PYTHONDONTWRITEBYTECODE="1")
            cmd = [sys.executable, os.path.join(C17DIR, "pyd_worker.py"), key[1], key[2]]
        elif kind == "seq":
            # the models after a history of Root._pydantic_rebuild calls; key[1] = ((family, mode), ...)
            env = dict(os.environ, PYTHONPATH=fw.SRC, PYTHONHASHSEED="0", PYTHONDONTWRITEBYTECODE="1")
            cmd = [sys.executable, os.path.join(C17DIR, "seq_worker.py"), json.dumps([list(x) for x in key[1]])]
        elif kind == "jsfile":
            env = dict(os.environ)
            env.pop("PYTHONPATH", None)
            cmd = ["python3-vt", os.path.join(C17DIR, "js_worker.py"), key[1]]
        else:
            env = dict(os.environ)
            env.pop("PYTHONPATH", None)
            path = self.schema_path(key[1], key[2])
            cmd = ["python3-vt", os.path.join(C17DIR, "js_worker.py"), path]
        p = subprocess.Popen(cmd, stdin=subprocess.PIPE, stdout=subprocess.PIPE, stderr=subprocess.PIPE, text=True, env=env)
        self.procs[key] = p

    def schema_path(self, fam, mode):
        d = os.path.join(fw.REPO, "specification", "schema")
        pre = SCHEMA_FILE[(fam, mode)]
        for fn in sorted(os.listdir(d)):
            m = tr.FILE_RE.match(fn)
            if m and m.group(1) == pre:
                return os.path.join(d, fn)
        raise RuntimeError("no published file for " + pre)

    def ensure(self, keys):
        new = [k for k in keys if k not in self.procs]
        for k in new:
            self._spawn(k)
        for k in new:
            line = self.procs[k].stdout.readline()
            if "ready" not in line:
                err = self.procs[k].stderr.read()[-1500:]
                raise RuntimeError("worker %r did not start: %s %s" % (k, line, err))

    def ask(self, key, entry, doc):
        return self.ask_many([key], entry, doc)[0]

    def ask_many(self, keys, entry, doc, extra=None):
        """The same request to several workers: all written first, then all read (the workers run concurrently)."""
        self.ensure(keys)
        req = {"entry": entry, "doc": doc}
        if extra:
            req.update(extra)
        text = json.dumps(req) + "\n"
        for key in keys:
            p = self.procs[key]
            p.stdin.write(text)
            p.stdin.flush()
        out = []
        for key in keys:
            p = self.procs[key]
            line = p.stdout.readline()
            if not line:
                raise RuntimeError("worker %r died: %s" % (key, p.stderr.read()[-1500:]))
            out.append(json.loads(line))
        return out

    def close(self):
        for p in self.procs.values():
            try:
                p.stdin.close()
                p.terminate()
            except Exception:  # noqa: BLE001
                pass
        self.procs = {}


W = Workers()
ALLKEYS = lambda fam: [("pyd", fam, "strict"), ("pyd", fam, "lax"), ("pyd", "hugr", "default"),
                       ("js", fam, "strict"), ("js", fam, "lax")]


# ---- histories of schema-defining rebuilds (Root._pydantic_rebuild(config, force=True)) in ONE process
OTHER_FAM = {"hugr": "testing", "testing": "hugr"}
OTHER_MODE = {"strict": "lax", "lax": "strict"}
ROOT = {"hugr": "SerialHugr", "testing": "TestingHugr"}
SEQ_TIER = "quick"


def histories(fam, mode, tier=None):
    """Histories (oldest first) that end in the rebuild (fam, mode).  What is rebuilt before must not matter:
    another root with the SAME configuration just before; the same root under the other configuration before; the
    configuration held earlier, left and come back to; the thorough tier adds a repeated rebuild and
    generate_schema.py's own order rotated to end here."""
    F, c, G, d = fam, mode, OTHER_FAM[fam], OTHER_MODE[mode]
    hs = [((G, c), (F, c)),
          ((F, d), (F, c)),
          ((F, c), (F, d), (G, d), (F, c))]
    if (tier or SEQ_TIER) != "quick":
        order = list(tr.STEPS)
        i = order.index((F, c))
        hs += [((F, c), (F, c)), tuple(order[i + 1:] + order[:i + 1]), ((G, d), (G, c), (F, c))]
    return hs


def seq_keys(fam, tier=None, cross=True):
    """cross=False: only the histories that rebuild this family's root alone (the expected file is then the
    published one, no further evaluation of the Coq validator is needed)."""
    return [("seq", h) for mode in ("strict", "lax") for h in histories(fam, mode, tier)
            if cross or all(f_ == fam for f_, _ in h)]


def cross_wanted(case):
    """Histories that also rebuild the OTHER root cost one more run of the Coq validator per history when the file
    holds that root (the testing files hold SerialHugr): there they are observed on the documents that tell the
    configurations apart (an extra member anywhere; unmutated ones) and on a fixed quarter of the others."""
    if case["fam"] == "hugr" or case["mut"] in ("extra", "none") or case["base"].startswith("corpus:"):
        return True
    import zlib
    return zlib.crc32(json.dumps(case["doc"], sort_keys=True).encode()) % 4 == 0


_expected_files = {}


def expected_js_key(h):
    """python-jsonschema worker for the file expected after history h (Python mirror of SchemaSeq.expected; used for
    reports, shrinking and searches only - the verdict is Coq's): the published file unless the history configured
    the root of the other family."""
    fam, mode = h[-1]
    state = {}
    for f_, m_ in h:
        state[f_] = m_
    other = OTHER_FAM[fam]
    if state.get(other) is None:
        return ("js", fam, mode)
    k = (fam, mode, state[other])
    if k not in _expected_files:
        published, _ = tr.read_published(fw.REPO)
        e, subst = tr.expected_py(published, state, fam, mode)
        if not subst:
            _expected_files[k] = None
        else:
            import tempfile
            fd, path = tempfile.mkstemp(prefix="c17-expected-", suffix=".json", dir=fw.WORK_ROOT if os.path.isdir(fw.WORK_ROOT) else None)
            with os.fdopen(fd, "w") as f:
                json.dump(e, f)
            atexit.register(lambda p=path: os.path.exists(p) and os.remove(p))
            _expected_files[k] = path
    return ("js", fam, mode) if _expected_files[k] is None else ("jsfile", _expected_files[k])


def seq_verdicts(fam, entry, doc, api_wanted=False, tier=None, cross=True):
    """[{"history", "ok", "api"}] for every history of (fam, strict) and (fam, lax)."""
    keys = seq_keys(fam, tier, cross)
    rs = W.ask_many(keys, entry, doc, {"api": bool(api_wanted)})
    return [{"history": [list(x) for x in key[1]], "ok": r["ok"],
             "api": r.get("api") if (api_wanted and key[1][-1][1] == "strict") else None, "err": r["err"]}
            for key, r in zip(keys, rs)]


def seq_js(fam, entry, doc, obs, q):
    """python-jsonschema verdict of the file expected after q's history (for reports / shrinking / signatures)."""
    key = expected_js_key(tuple(tuple(x) for x in q["history"]))
    if key[0] == "js":
        return obs["js_" + key[2]]
    return W.ask(key, entry, doc)


def verdicts(fam, entry, doc, api_wanted=False, cross=True):
    keys = ALLKEYS(fam)
    W.ensure(keys + seq_keys(fam))
    ps, pl, pdf, jss, jsl = W.ask_many(keys, entry, doc)
    return {"js_strict": jss, "js_lax": jsl,
            "pyd_strict": ps["ok"], "pyd_lax": pl["ok"], "pyd_default": pdf["ok"],
            "errors": {"strict": ps["err"], "lax": pl["err"], "default": pdf["err"]},
            "seqs": seq_verdicts(fam, entry, doc, api_wanted, None, cross)}


def api_wanted(case):
    """The validator object the last rebuild left on the root is observed on documents whose single mutation is an
    extra member of the ROOT object (the root is rebuilt last, after its configuration was updated; nested models
    keep cached validators of older configurations on the unchanged tree, see pyd_worker.py)."""
    return case["mut"] == "extra" and list(case["path"]) == [] and case["entry"] == ROOT[case["fam"]]


# ------------------------------------------------------------------------------------- base documents

def builder_docs():
    """Small HUGRs / packages / extensions made with the public builder API of the checkout under test."""
    from hugr import ext, ops, tys, val
    from hugr.build import Cfg, Dfg, Module
    from hugr.package import Package
    from hugr.std.float import FloatVal
    from hugr.std.int import INT_T, DivMod, IntVal
    from hugr.std.logic import Not
    out = []
    Q, B = tys.Qubit, tys.Bool
    d = Dfg(B, Q)
    b, q = d.inputs()
    n = d.add_op(Not, b)
    with d.add_nested(q) as inner:
        inner.set_outputs(inner.inputs()[0])
    d.set_outputs(n, inner[0])
    out.append(("dfg_nested", "SerialHugr", d.hugr))
    d = Dfg(B, INT_T)
    b, i = d.inputs()
    with d.add_tail_loop([], [i]) as tl:
        (ii,) = tl.inputs()
        with tl.add_if(b, ii) as if_:
            (v,) = if_.inputs()
            dm = if_.add_op(DivMod, v, v)
            if_.set_outputs(dm[0])
        with if_.add_else() as else_:
            else_.set_outputs(*else_.inputs())
        c = else_.conditional_node
        brk = tl.add_op(ops.Break(tys.Either([], [])))
        tl.set_loop_outputs(brk, c[0])
    d.set_outputs(tl[0])
    out.append(("loop_if", "SerialHugr", d.hugr))
    m = Module()
    f = m.define_function("f", [B], [B])
    f.set_outputs(*f.inputs())
    k = m.add_const(val.TRUE)
    g = m.define_main([B])
    g.load(k)
    call = g.call(f, g.inputs()[0])
    g.set_outputs(call)
    m.declare_function("ext_f", tys.PolyFuncType([tys.TypeTypeParam(tys.TypeBound.Any)],
                                                 tys.FunctionType([tys.Variable(0, tys.TypeBound.Any)], [])))
    m.add_alias_defn("MyAlias", tys.Tuple(B, Q)) if hasattr(m, "add_alias_defn") else None
    out.append(("module_call", "SerialHugr", m.hugr))
    d = Dfg()
    c1 = d.load(IntVal(5, 6))
    c2 = d.load(FloatVal(1.5))
    c3 = d.load(val.Tuple(val.TRUE, val.FALSE))
    c4 = d.load(val.Sum(1, tys.Sum([[B], [Q, B]]), []))if False else d.load(val.Some(val.TRUE))
    d.set_outputs(c1, c2, c3, c4)
    d.hugr[d.parent_node].metadata["k"] = {"x": [1, 2.5, None], "é": "ü"}
    out.append(("consts_meta", "SerialHugr", d.hugr))
    cfg = Cfg(B)
    with cfg.add_entry() as entry:
        entry.set_single_succ_outputs(*entry.inputs())
    cfg.branch_exit(entry[0])
    out.append(("cfg", "SerialHugr", cfg.hugr))
    # higher-order / alias / exotic type arguments: AliasDecl, CallIndirect, LoadFunction, Alias, Function value,
    # Sequence / String / Extensions / Variable type arguments
    m3 = Module()
    idf = m3.define_function("id", [B], [B])
    idf.set_outputs(*idf.inputs())
    m3.add_alias_decl("ADecl", tys.TypeBound.Copyable)
    odd = tys.Opaque("weird", tys.TypeBound.Any,
                     [tys.SequenceArg([tys.StringArg("s"), tys.BoundedNatArg(3)]), tys.ExtensionsArg(["prelude"]),
                      tys.VariableArg(0, tys.StringParam()), tys.TypeTypeArg(tys.Alias("ADecl", tys.TypeBound.Copyable))],
                     "my.ext")
    hm = m3.define_function("hm", [B, odd], [B, odd])
    bb, oo = hm.inputs()
    lf = hm.load_function(idf)
    ci = hm.add_op(ops.CallIndirect(), lf, bb)
    inner_f = Dfg(B)
    inner_f.set_outputs(*inner_f.inputs())
    hm.load(val.Function(inner_f.hugr))
    hm.set_outputs(ci, oo)
    out.append(("higher_order", "SerialHugr", m3.hugr))
    m2 = Module()
    f2 = m2.define_function("main", [B])
    f2.set_outputs(*f2.inputs())
    e = ext.Extension("my.ext", ext.Version(0, 1, 2), runtime_reqs={"prelude"})
    e.add_type_def(ext.TypeDef("T", "a type", [tys.TypeTypeParam(tys.TypeBound.Any)], ext.FromParamsBound([0])))
    e.add_type_def(ext.TypeDef("U", "another", [tys.BoundedNatParam(5), tys.ListParam(tys.StringParam()),
                                                tys.TupleParam([tys.BoundedNatParam(None)])],
                               ext.ExplicitBound(tys.TypeBound.Copyable)))
    e.add_op_def(ext.OpDef("op", ext.OpDefSig(tys.FunctionType([B], [Q])), "descr", {"k": [1, "x"]},
                           lower_funcs=[ext.FixedHugr(["prelude"], m3.hugr)]))      # a lowering HUGR (fix 87af3c7: wire format)
    e.add_op_def(ext.OpDef("bin", ext.OpDefSig(None, binary=True), "binary one"))
    out.append(("pkg", "Package", Package([m2.hugr], [e])))
    out.append(("pkg_empty", "Package", Package([], [])))
    out.append(("ext", "Extension", e))
    return [(name, entry_, json.loads(o._to_serial().model_dump_json())) for name, entry_, o in out]


def file_docs(tier):
    out = []
    for p in sorted(glob.glob(os.path.join(fw.REPO, "resources", "test", "*.json"))):
        out.append(("file:" + os.path.relpath(p, fw.REPO), "SerialHugr", tr.load_json(p)))
    roots = ["specification/std_extensions", "hugr-py/src/hugr/std/_json_defs"]
    for root in roots:
        for p in sorted(glob.glob(os.path.join(fw.REPO, root, "**", "*.json"), recursive=True)):
            out.append(("file:" + os.path.relpath(p, fw.REPO), "Extension", tr.load_json(p)))
    return out


def find_all(d, pred, path=()):
    if pred(d):
        yield path, d
    if isinstance(d, dict):
        for k, v in d.items():
            yield from find_all(v, pred, path + (k,))
    elif isinstance(d, list):
        for i, v in enumerate(d):
            yield from find_all(v, pred, path + (i,))


def testing_docs(bases):
    """TestingHugr documents assembled from pieces of the other documents."""
    out = []
    pick = lambda pred: [x for _, _, doc in bases for _, x in find_all(doc, pred)]
    isd = lambda k: (lambda x: isinstance(x, dict) and k in x)
    typs = [x for x in pick(isd("t"))]
    seen = set()
    for field, pool in (("typ", typs), ("sum_type", [x for x in typs if x.get("t") == "Sum"]),
                        ("poly_func_type", pick(lambda x: isinstance(x, dict) and "params" in x and "body" in x)),
                        ("value", pick(isd("v"))), ("optype", pick(lambda x: isinstance(x, dict) and "op" in x and "parent" in x)),
                        ("op_def", pick(lambda x: isinstance(x, dict) and "lower_funcs" in x))):
        kinds = {}
        for x in pool:
            key = json.dumps([x.get(k) for k in ("t", "s", "v", "op", "tp") if isinstance(x.get(k), str)]) + field
            if key not in kinds and len(json.dumps(x)) < 3000:
                kinds[key] = x
        for key, x in list(kinds.items())[:8]:
            if key in seen:
                continue
            seen.add(key)
            out.append(("testing:%s:%s" % (field, key[:30]), "TestingHugr", {"version": "live", field: x}))
    out.append(("testing:empty", "TestingHugr", {}))
    return out


# ------------------------------------------------------------------------------------- mutations

def getp(d, path):
    for p in path:
        d = d[p]
    return d


def setp(d, path, v):
    if not path:
        return copy.deepcopy(v)
    d = copy.deepcopy(d)
    getp(d, path[:-1])[path[-1]] = v
    return d


def delp(d, path):
    d = copy.deepcopy(d)
    del getp(d, path[:-1])[path[-1]]
    return d


def tyname(v):
    return {type(None): "null", bool: "bool", int: "int", float: "float", str: "str", list: "arr", dict: "obj"}[type(v)]


# replacement values; the coercible ones are what pydantic's lax mode (and non-strict classes) converts
PLAIN = {"null": None, "str": "abc", "arr": [], "obj": {}, "int": 7, "float": 2.5}
COERCIBLE = {"bool": True, "numstr": "12", "boolstr": "true", "one": 1}
ALL_TAGS = ["Module", "DFG", "Q", "G", "Sum", "Unit", "General", "Extension", "Tuple", "Type", "BoundedNat", "Explicit",
            "FromParams", "Variable", "Opaque", "I", "Function", "String", "List", "Sequence"]


def all_mutations(doc):
    """Every single-point mutation: (class, one_way, path, mutated doc).  one_way marks the NAMED exclusions."""
    muts = []
    for path, v in find_all(doc, lambda x: True):
        if path and isinstance(path[-1], str):
            muts.append(("missing", False, path, lambda p=path: delp(doc, p)))
            if path[-1] in TAGS and isinstance(v, str):
                muts.append(("tag-unknown", False, path, lambda p=path: setp(doc, p, "Bogus")))
                for t in ALL_TAGS:
                    if t != v:
                        muts.append(("tag-other", False, path, lambda p=path, t=t: setp(doc, p, t)))
        if isinstance(v, dict):
            muts.append(("extra", False, path, lambda p=path: setp(doc, p + ("zz_extra",), 1)))
        if isinstance(v, list) and v:
            # tuples (prefixItems + minItems/maxItems) vs lists: one element more / one less
            # (a string is appended in a changed spelling: a plain copy would be the one-way `dup-item` class)
            more = v[-1] + "_x" if isinstance(v[-1], str) else v[-1]
            muts.append(("arity", False, path, lambda p=path, v=v, more=more: setp(doc, p, v + [more])))
            muts.append(("arity", False, path, lambda p=path, v=v: setp(doc, p, v[:-1])))
        if isinstance(v, list) and v and all(isinstance(x, str) for x in v):
            # uniqueItems vs set[...]: pydantic deduplicates, the schema demands distinct items (named, one-way)
            muts.append(("dup-item", True, path, lambda p=path, v=v: setp(doc, p, v + [v[0]])))
        for r, rv in PLAIN.items():
            if tyname(rv) != tyname(v) and not (tyname(v) == "bool" and r == "int") and not (r == "float" and tyname(v) == "int"):
                muts.append(("wrongtype", False, path, lambda p=path, rv=rv: setp(doc, p, rv)))
        if tyname(v) in ("int", "bool", "null", "float", "str"):
            for r, rv in COERCIBLE.items():
                if type(rv) != type(v):
                    muts.append(("coerce", True, path, lambda p=path, rv=rv: setp(doc, p, rv)))
    return muts


# ---- renamed members (seeded round 3, C17-j): the decoder must read each field under the ONE key the schema lists
# legacy spellings from hugr's own history (field renames between serialization versions) and from the Rust side
LEGACY = {"runtime_reqs": ["extension_reqs", "input_extensions", "extension_delta", "extensions"],
          "extension_reqs": ["runtime_reqs"], "signature": ["sig", "type_scheme"], "body": ["sig", "signature"],
          "params": ["vars", "type_params"], "input": ["inputs", "in"], "output": ["outputs", "out"],
          "typ": ["ty", "type"], "ty": ["typ"], "tys": ["types"], "vs": ["values", "vals"], "v": ["c"], "t": ["ty"],
          "op": ["optype"], "parent": ["p"], "name": ["op_name", "id"], "args": ["type_args"], "bound": ["b"],
          "b": ["bound"], "extension": ["ext"], "metadata": ["meta"], "encoder": ["generator"],
          "sum_rows": ["variants"], "other_outputs": ["outputs"], "just_inputs": ["inputs"], "just_outputs": ["outputs"],
          "nodes": ["ops"], "edges": ["links"], "lower_funcs": ["lowering"], "description": ["desc", "doc"]}
NEAR = ["camel", "under", "upper", "hyphen", "plural", "dunder"]


def near_miss(k, how):
    """A near-miss spelling of member name k (None when it would be k itself)."""
    if how == "camel":
        parts = k.split("_")
        r = parts[0] + "".join(x[:1].upper() + x[1:] for x in parts[1:]) if len(parts) > 1 else k[:1].upper() + k[1:]
    elif how == "under":
        r = k + "_"
    elif how == "upper":
        r = k.upper()
    elif how == "hyphen":
        r = k.replace("_", "-") if "_" in k else k + "-"
    elif how == "plural":
        r = k[:-1] if k.endswith("s") and len(k) > 1 else k + "s"
    else:
        r = "_" + k
    return None if r == k else r


def renamep(doc, path, new):
    """The member at `path` under the key `new` (same position, same value)."""
    d = copy.deepcopy(doc)
    parent = getp(d, path[:-1])
    items = [((new if k == path[-1] else k), v) for k, v in parent.items()]
    parent.clear()
    parent.update(items)
    return d


def object_kind(o):
    """Which model class an object (probably) instantiates: its discriminator tags, else its member names."""
    tags = [(k, o[k]) for k in sorted(TAGS) if isinstance(o.get(k), str)]
    return json.dumps(tags) if tags else json.dumps(sorted(o)[:6])


def rename_mutations(doc, alias_keys=None):
    """(kind of the object, old key, new key, legacy?, path of the RENAMED member, thunk) for every member of every
    object and every legacy / near-miss spelling (plus every key the decoder is known to read for a field of that
    name, from harness/c17/alias_probe.py)."""
    out = []
    for path, v in find_all(doc, lambda x: isinstance(x, dict)):
        kind = object_kind(v)
        for k in v:
            if not isinstance(k, str) or not k:
                continue
            seen = set()
            alts = [(n, True) for n in (alias_keys or {}).get(k, [])] + [(n, True) for n in LEGACY.get(k, [])]
            alts += [(near_miss(k, h), False) for h in NEAR]
            for n, legacy in alts:
                if n is None or n == k or n in v or n in seen:
                    continue
                seen.add(n)
                out.append((kind, k, n, legacy, path + (n,), lambda p=path + (k,), n=n: renamep(doc, p, n)))
    return out


_probe = {}


def alias_probe():
    """harness/c17/alias_probe.py on the checkout (once per run): the keys the decoder reads per field."""
    if "r" not in _probe:
        env = dict(os.environ, PYTHONPATH=fw.SRC, PYTHONHASHSEED="0", PYTHONDONTWRITEBYTECODE="1")
        try:
            r = subprocess.run([sys.executable, os.path.join(C17DIR, "alias_probe.py")], env=env, text=True,
                               capture_output=True, timeout=120)
            _probe["r"] = json.loads(r.stdout) if r.returncode == 0 else {"error": r.stderr[-1200:]}
        except Exception as e:  # noqa: BLE001
            _probe["r"] = {"error": "%s: %s" % (type(e).__name__, str(e)[:600])}
    return _probe["r"]


def alias_keys():
    """{schema key: [further keys the decoder reads for a field listed under that key]} (empty on the unchanged tree)."""
    out = {}
    for i in alias_probe().get("issues", []):
        if i.get("schema_key"):
            out.setdefault(i["schema_key"], [])
            out[i["schema_key"]] += [k for k in i["accepted"][1:] if k not in out[i["schema_key"]]]
    return out


def pattern_of(entry, path):
    return entry + "".join("/" + ("*" if isinstance(p, int) else str(p)) for p in path)


def mk_case(fam, name, entry, doc, cls="none", one_way=False, path=()):
    return {"fam": fam, "base": name, "entry": entry, "doc": doc, "mut": cls, "one_way": one_way, "path": list(path)}


def gjson_case(j):
    """JSON value as a Gallina term (object members through `kv` so that keys need no scope annotation)."""
    if isinstance(j, dict):
        return "(JObj [" + "; ".join("kv %s %s" % (tr.gstring(k), gjson_case(v)) for k, v in j.items()) + "])"
    if isinstance(j, list):
        return "(JArr [" + "; ".join(gjson_case(x) for x in j) + "])"
    return tr.gjson(j)


# ------------------------------------------------------------------------------------- python-side diff (reports only)

def norm_py(s):
    if not isinstance(s, dict):
        return s
    out = {}
    for k, v in s.items():
        kind = tr.KEYWORDS.get(k)
        if k == "additionalProperties" and v is True:
            continue
        if kind == "schema":
            out[k] = norm_py(v)
        elif kind == "list" and isinstance(v, list):
            out[k] = [norm_py(x) for x in v]
        elif kind == "map" and isinstance(v, dict):
            out[k] = {n: norm_py(x) for n, x in v.items()}
        else:
            out[k] = v
    return out


def schema_diff(a, b, path="$"):
    """JSON paths at which two normalised schemas differ (same comparison as Schema.schema_equiv)."""
    if isinstance(a, bool) or isinstance(b, bool) or not isinstance(a, dict) or not isinstance(b, dict):
        return [] if (type(a) == type(b) and a == b) else [path]
    out = []
    for k in sorted(set(a) | set(b)):
        p = path + "/" + k
        if k not in a or k not in b:
            out.append(p + (" (only published)" if k in a else " (only generated)"))
            continue
        v, w = a[k], b[k]
        kind = tr.KEYWORDS.get(k)
        if kind == "schema":
            out += schema_diff(v, w, p)
        elif kind == "list" and isinstance(v, list) and isinstance(w, list):
            if len(v) != len(w):
                out.append(p + " (length)")
            for i, (x, y) in enumerate(zip(v, w)):
                out += schema_diff(x, y, "%s/%d" % (p, i))
        elif kind == "map" and isinstance(v, dict) and isinstance(w, dict):
            for n in sorted(set(v) | set(w)):
                if n not in v or n not in w:
                    out.append("%s/%s (%s)" % (p, n, "only published" if n in v else "only generated"))
                else:
                    out += schema_diff(v[n], w[n], p + "/" + n)
        elif kind == "set" and isinstance(v, list) and isinstance(w, list):
            cs = lambda l: sorted(json.dumps(x, sort_keys=True) for x in l)
            if sorted(set(cs(v))) != sorted(set(cs(w))):
                out.append(p)
        elif json.dumps(v, sort_keys=True) != json.dumps(w, sort_keys=True) or type(v) != type(w):
            out.append(p)
    return out


# ------------------------------------------------------------------------------------- the property

class C17(fw.Prop):
    id = "C17"
    props_file = "props/C17.v"
    run_file = "run/C17Run.v"
    run_module = "run.C17Run"
    shard = 40
    rule = ("documents: HUGRs/packages/extensions built with the builder API, resources/test/*.json, all std-extension "
            "JSON files (both locations), TestingHugr documents assembled from their parts; each unmutated and with "
            "single-point mutations (member deleted, unknown/other discriminator tag, value of another JSON type, "
            "extra member; plus the named one-way classes: coercible scalar, duplicated set item).  Every case is "
            "judged by the Coq validator on the published AND generated constants (strict+lax), by python-jsonschema "
            "on the published files and by the pydantic models under strict / lax / as-imported configuration, and by the "
            "models after histories of Root._pydantic_rebuild calls in one process (per root and configuration: the other "
            "root with the same configuration just before, the same root under the other configuration before, a "
            "configuration left and come back to; thorough: three more), against the Coq validator on the file expected "
            "in the state reached; root-object mutations (extra / missing / wrong-typed member) as a stream of their own; members RENAMED to legacy / "
            "near-miss spellings (extension_reqs, input_extensions, camelCase, trailing underscore, upper case, hyphen, "
            "plural, leading underscore, and every key the alias probe finds the decoder to read) as a stream of their own, "
            "one occurrence of every (object kind, member name).  "
            "non-trivial = mutated, or a document of more than 20 JSON values")
    trusted = [
        "translator harness/translators/schema.py (JSON -> Gallina constants; fails closed on unknown keywords, duplicate keys, unexpected files)",
        "pydantic: that its validator and the JSON schema it generates describe the same documents is pydantic's contract; it is "
        "monitored per case on four mutation classes, with named one-way exclusions (lax/non-strict scalar coercions, uniqueItems vs set)",
        "the strict/lax pydantic validators are obtained by applying generate_schema.py's config to the same classes and dropping "
        "pydantic's cached nested core schemas (a plain _pydantic_rebuild leaves nested validators on the old config; hugr-py never "
        "decodes with the strict config, it only generates the strict schema from it)",
        "python-jsonschema 4.26 (Draft 2020-12) as the reference for the Coq validator",
        "harness/c17/alias_probe.py reads model_fields / model_config of every pydantic class of hugr._serialization (alias, "
        "validation_alias, populate_by_name, alias_generator): a field the decoder reads under more than the one key its schema "
        "lists is reported (fail closed) and the further keys are fed to the renamed-member stream",
        "rebuild histories: harness/c17/seq_schema.py calls the checkout's own scripts/generate_schema.py write_schema step by "
        "step (one fresh process per history); harness/c17/seq_worker.py performs a history through Root._pydantic_rebuild only, "
        "then drops cached core schemas and rebuilds every class with the configuration it carries (writes no configuration)",
    ]
    assumptions = ["JSON Schema draft 2020-12 semantics for the keyword subset occurring in the files; `pattern` only for the semver regex"]

    def __init__(self):
        self.info = None
        self.order_runs = None

    # -- translator
    def regenerate(self, ctx):
        path, self.info = tr.regenerate(fw.REPO, fw.COQ, ctx.work)
        path2, self.order_runs = tr.regenerate_orders(fw.REPO, fw.COQ, ctx.work, self.info,
                                                      jobs=int(os.environ.get("VERIF_JOBS", "6")))
        return [os.path.relpath(path, fw.VERIF), os.path.relpath(path2, fw.VERIF)]

    # -- cases
    def bases(self, tier):
        try:
            b = builder_docs()
            self.builder_error = None
        except Exception as e:  # noqa: BLE001  (e.g. hugr.std cannot load its own JSON any more)
            b = []
            self.builder_error = "%s: %s" % (type(e).__name__, str(e)[:600])
        f = file_docs(tier)
        return b, f

    def corpus(self, ctx):
        tdef = {"extension": "e", "name": "T", "description": "", "params": [], "bound": {"bound": "C"}}
        ext = {"version": "0.1.0", "name": "e", "runtime_reqs": [], "types": {"T": tdef}, "values": {}, "operations": {}}
        hugr = {"nodes": [{"parent": 0, "op": "Module"}], "edges": []}
        cs = []
        for fam in ("hugr", "testing"):
            # fixed (5e7340a): TypeDef bound without its tag "b" was accepted by the published schemas, rejected by pydantic
            cs.append(mk_case(fam, "corpus:typedefbound-no-tag", "Extension", ext, "missing", False, ("types", "T", "bound", "b")))
            # known: a HUGR without "version" (the model has a default_factory, json_schema_extra lists it as required)
            cs.append(mk_case(fam, "corpus:hugr-no-version", "SerialHugr", hugr, "missing", False, ("version",)))
            cs.append(mk_case(fam, "corpus:package-module-no-version", "Package", {"modules": [hugr]}, "missing", False,
                              ("modules", 0, "version")))
        # seeded C17-h (a rebuild skipped when the previous rebuild, of the OTHER root, had an equal configuration):
        # an unknown member of the root object must be refused by the strict decoder after every history
        cs.append(mk_case("hugr", "corpus:hugr-root-extra", "SerialHugr",
                          {"version": "live", "nodes": [], "edges": [], "zz_extra": 1}, "extra", False, ()))
        cs.append(mk_case("testing", "corpus:testing-root-extra", "TestingHugr", {"version": "live", "zz_extra": 1},
                          "extra", False, ()))
        cs.append(mk_case("hugr", "corpus:hugr-node-extra", "SerialHugr",
                          {"version": "live", "nodes": [{"parent": 0, "op": "Module", "zz_extra": 1}], "edges": []},
                          "extra", False, ("nodes", 0)))
        # seeded C17-j (a validation alias: the decoder reads a legacy key the schema does not list): a function type
        # that spells its requirement set `extension_reqs` - refused by the strict files, an extra member for the lax
        fty = {"t": "G", "input": [], "output": [], "extension_reqs": ["e"]}
        cs.append(dict(mk_case("hugr", "corpus:functype-legacy-extension_reqs", "FunctionType", fty, "rename", False,
                               ("extension_reqs",)), old="runtime_reqs"))
        cs.append(dict(mk_case("testing", "corpus:testing-functype-legacy-extension_reqs", "TestingHugr",
                               {"version": "live", "typ": fty}, "rename", False, ("typ", "extension_reqs")), old="runtime_reqs"))
        cs.append(dict(mk_case("hugr", "corpus:polyfunctype-legacy-extension_reqs", "PolyFuncType",
                               {"params": [], "body": fty}, "rename", False, ("body", "extension_reqs")), old="runtime_reqs"))
        return cs

    def generate(self, rng, tier, ctx):
        global SEQ_TIER
        SEQ_TIER = tier
        builder, files = self.bases(tier)
        testing = testing_docs(builder + files)
        cases = []
        quick = tier == "quick"
        # unmutated documents, against both families of files
        for name, entry, doc in builder + files:
            big = len(json.dumps(doc)) > 20000
            if quick and name.startswith("file:hugr-py/") and len(json.dumps(doc)) > 4000:
                continue          # identical copies of the specification/std_extensions files (C10 checks that)
            cases.append(mk_case("hugr", name, entry, doc))
            if not big or not quick:
                cases.append(mk_case("testing", name, entry, doc))
        for name, entry, doc in testing:
            cases.append(mk_case("testing", name, entry, doc))
        # single-point mutations
        per_doc = 10 if quick else 120
        pool = [("hugr", b) for b in builder] + [("hugr", f) for f in files if len(json.dumps(f[2])) < (2500 if quick else 9000)]
        pool += [("testing", t) for t in testing] + [("testing", b) for b in builder[:3]]
        for fam, (name, entry, doc) in pool:
            muts = all_mutations(doc)
            by = {}
            for m in muts:
                by.setdefault(m[0], []).append(m)
            chosen = []
            classes = sorted(by)
            quota = {"missing": 2, "tag-unknown": 1, "tag-other": 1, "extra": 1, "wrongtype": 2, "coerce": 1, "dup-item": 1, "arity": 1}
            scale = 1 if quick else 8
            for c in classes:
                ms = by[c]
                rng.shuffle(ms)
                chosen += ms[: quota.get(c, 1) * scale]
            rng.shuffle(chosen)
            for cls, one_way, path, thunk in chosen[:per_doc]:
                cases.append(mk_case(fam, name, entry, thunk(), cls, one_way, path))
        # members of the ROOT object itself (the class only its own _pydantic_rebuild configures): an extra member
        # and a wrong-typed / missing one, for documents whose entry is the root of the family
        roots = [(fam, b) for fam, b in pool if b[1] == ROOT[fam] and len(json.dumps(b[2])) < 6000]
        rng.shuffle(roots)
        for fam, (name, entry, doc) in roots[: (6 if quick else 40)]:
            cases.append(mk_case(fam, name, entry, setp(doc, ("zz_extra",), 1), "extra", False, ()))
            top = [m for m in all_mutations(doc) if len(m[2]) == 1 and m[0] in ("wrongtype", "missing", "coerce")]
            rng.shuffle(top)
            for cls, one_way, path, thunk in top[: (1 if quick else 4)]:
                cases.append(mk_case(fam, name, entry, thunk(), cls, one_way, path))
        cases += self.rename_stream(rng, pool, quick)
        return cases

    def rename_stream(self, rng, pool, quick):
        """Members renamed to legacy / near-miss spellings.  One occurrence (in the smallest document) of every
        (object kind, member name); for each, every key the alias probe says the decoder reads (none on the unchanged
        tree), then legacy and near-miss spellings: quick = all legacy spellings of `runtime_reqs` and the first legacy
        spelling of the function-type / signature members (input, output, body, params) in every kind of object
        that has them + a random sample of the rest (14 legacy, 26 near-miss)."""
        ak = alias_keys()
        occ = {}
        for fam, (name, entry, doc) in sorted(pool, key=lambda x: len(json.dumps(x[1][2]))):
            if len(json.dumps(doc)) > 6000:
                continue
            for m in rename_mutations(doc, ak):
                occ.setdefault((m[0], m[1]), []).append((fam, name, entry) + m)
        first, rest = [], []
        for key in sorted(occ):
            ms = occ[key]
            fam0, name0 = ms[0][0], ms[0][1]
            ms = [m for m in ms if (m[0], m[1]) == (fam0, name0)]
            paths = sorted({m[7][:-1] for m in ms})
            ms = [m for m in ms if m[7][:-1] == paths[0]]
            for m in ms:
                forced = m[4] in ak or (m[6] and (m[4] == "runtime_reqs" or
                                                   (m[4] in ("input", "output", "body", "params") and m[5] == LEGACY[m[4]][0])))
                (first if forced else rest).append(m)
        rng.shuffle(rest)
        legacy = [m for m in rest if m[6]]
        near = [m for m in rest if not m[6]]
        chosen = first[: (40 if quick else 400)] + legacy[: (14 if quick else 400)] + near[: (26 if quick else 600)]
        return [dict(mk_case(fam, name, entry, th(), "rename", False, path), old=old)
                for fam, name, entry, kind, old, newk, leg, path, th in chosen]

    def observe(self, case, ctx):
        return verdicts(case["fam"], case["entry"], case["doc"], api_wanted(case), cross_wanted(case))

    def literal(self, case, obs, ctx):
        return gapp("CDoc", "FHugr" if case["fam"] == "hugr" else "FTesting", tr.gstring(case["entry"]),
                    gjson_case(case["doc"]), gbool(case["one_way"]), gbool(case["mut"] == "none"), gbool(obs["js_strict"]), gbool(obs["js_lax"]),
                    gbool(obs["pyd_strict"]), gbool(obs["pyd_lax"]), gbool(obs["pyd_default"]),
                    fw.glist(fw.gpair(fw.glist(fw.gpair("FHugr" if f_ == "hugr" else "FTesting", gbool(m_ == "strict"))
                                               for f_, m_ in q["history"]),
                                      gbool(q["ok"]), fw.gopt(None if q["api"] is None else gbool(q["api"])))
                             for q in obs["seqs"]))

    def nontrivial(self, case, obs):
        return case["mut"] != "none" or sum(1 for _ in find_all(case["doc"], lambda x: True)) > 20

    def describe(self, case, obs):
        return {"input": case, "observed": obs}

    def signature(self, case, obs, ctx):
        direction = "?"
        if isinstance(obs, dict):
            s = obs["js_lax"]
            p = obs["pyd_lax"]
            if s == p:
                s, p = obs["js_strict"], obs["pyd_strict"]
            direction = "same" if s == p else ("pydantic-accepts" if p else "schema-accepts")
            if direction == "same":
                # only a history of rebuilds makes the decoder and the expected file disagree
                for q in obs.get("seqs", []):
                    js = seq_js(case["fam"], case["entry"], case["doc"], obs, q)
                    if js != q["ok"] and not (case["one_way"] and q["ok"]):
                        direction = "after-rebuilds:" + ("pydantic-accepts" if q["ok"] else "schema-accepts")
                        break
                    if q["api"] and not js:
                        direction = "after-rebuilds:root-validator-accepts"
                        break
        if case["mut"] == "rename" and case.get("old") and isinstance(obs, dict) and direction not in ("same", "?"):
            # a renamed member is a missing member + an unknown one: when the document without the member already
            # disagrees in the same direction and that is a KNOWN finding (a HUGR without `version`), this is that finding
            try:
                comp = dict(case, mut="missing", path=list(case["path"][:-1]) + [case["old"]],
                            doc=delp(case["doc"], tuple(case["path"])))
                o2 = self.observe(comp, ctx)
                sig2 = self.signature(comp, o2, ctx)
                if self.py_mon_fails(comp, o2) and sig2.rsplit(":", 1)[1] == direction and sig2 in fw.load_known(self.id)[0]:
                    return sig2
            except Exception:  # noqa: BLE001
                pass
        return "%s:%s:%s" % (case["mut"], pattern_of(case["entry"], case["path"]), direction)

    def py_mon_fails(self, case, obs):
        """Python-side prediction of `mon` failing (python-jsonschema standing in for the Coq validator)."""
        for s_, p_ in ((obs["js_strict"], obs["pyd_strict"]), (obs["js_lax"], obs["pyd_lax"]), (obs["js_lax"], obs["pyd_default"])):
            if (s_ and not p_) or (not case["one_way"] and s_ != p_):
                return True
        for q in obs.get("seqs", []):
            js = seq_js(case["fam"], case["entry"], case["doc"], obs, q)
            if (js and not q["ok"]) or (not case["one_way"] and js != q["ok"]) or (q["api"] and not js):
                return True
        return False

    def shrink_candidates(self, case, with_path=False):
        doc = case["doc"]
        protected = tuple(case["path"])
        cands = []
        for path, v in find_all(doc, lambda x: True):
            if not path or path == protected[:len(path)]:
                continue
            parent = getp(doc, path[:-1])
            if isinstance(parent, list) and isinstance(path[-1], int):
                # removing an element shifts later indices: never in front of the protected path
                if len(protected) >= len(path) and protected[:len(path) - 1] == path[:-1] \
                        and isinstance(protected[len(path) - 1], int) and protected[len(path) - 1] > path[-1]:
                    continue
            cands.append((len(json.dumps(v)), path))
        cands.sort(key=lambda x: -x[0])
        for _, path in cands:
            c = dict(case)
            c["doc"] = delp(doc, path)
            yield (c, path) if with_path else c

    def shrink(self, case):
        """Smaller documents (one subtree deleted at a time, biggest first).  When the disagreement between the
        published schema and pydantic is visible to the worker processes, the greedy minimisation runs here and
        Coq only confirms the result; deletions that would merely create a KNOWN finding are not taken."""
        if len(json.dumps(case["doc"])) > 60000:
            return
        try:
            o0 = self.observe(case, None)
            failing0 = self.py_mon_fails(case, o0)
            sig = self.signature(case, o0, None)
        except Exception:  # noqa: BLE001
            failing0 = False
        if not failing0:
            for n, c in enumerate(self.shrink_candidates(case)):
                if n >= 24:
                    break
                yield c
            return
        known, _ = fw.load_known(self.id)
        cur, budget, progress = case, 700, True
        while progress and budget > 0:
            progress = False
            for c, path in self.shrink_candidates(cur, with_path=True):
                budget -= 1
                if budget <= 0:
                    break
                o = self.observe(c, None)
                if not (self.py_mon_fails(c, o) and self.signature(c, o, None) == sig):
                    continue
                as_missing = dict(c, mut="missing", path=list(path))
                if isinstance(path[-1], str) and self.signature(as_missing, o, None) in known:
                    continue
                cur, progress = c, True
                break
        if cur is not case:
            yield cur

    def neighbours(self, case, rng):
        ms = all_mutations(case["doc"])
        rng.shuffle(ms)
        rs = rename_mutations(case["doc"], alias_keys()) if len(json.dumps(case["doc"])) < 6000 else []
        rng.shuffle(rs)
        return [dict(mk_case(case["fam"], case["base"], case["entry"], th(), "rename", False, path), old=o_)
                for _, o_, _, _, path, th in rs[:40]] + \
               [mk_case(case["fam"], case["base"], case["entry"], th(), cls, ow, path) for cls, ow, path, th in ms[:360]]

    def distribution(self, cases, observations):
        d = {}
        for c, o in zip(cases, observations):
            k = "%s/%s/%s" % (c["fam"], c["entry"], c["mut"])
            v = "schema:%s%s pyd:%s%s%s" % tuple("AR"[not o[x]] for x in ("js_strict", "js_lax", "pyd_strict", "pyd_lax", "pyd_default"))
            d.setdefault(k, {})
            d[k][v] = d[k].get(v, 0) + 1
        return d

    # -- regenerated-data theorems: report the differing path and look for a distinguishing document
    def extra(self, ctx, tier):
        out = []
        info = self.info
        if info is None:
            return out
        v = info["versions"]
        names = {m[1] for m in v["models"]} | {x[1] for x in info["published_files"]} | {x[1] for x in info["generated_files"]}
        names.add(v["serialization_version"])
        names |= {x["version"] for run in (self.order_runs or []) for x in run}
        if len(names) != 1 or sorted(p for p, _ in info["published_files"]) != sorted(tr.PREFIXES):
            out.append(("version-mismatch", "theorem version_strings_agree fails: the models, serialization_version() and the "
                        "published file names do not carry one version string",
                        {"signature": "version-mismatch", "versions": v, "published_files": info["published_files"],
                         "generated_files": info["generated_files"], "theorem": "version_strings_agree"}))
        if getattr(self, "builder_error", None):
            out.append(("builder-programs-failed", "the builder programs that produce the HUGR/package documents raise: "
                        + self.builder_error, {"signature": "builder-programs-failed", "error": self.builder_error}))
        out += self.undeclared_keys(ctx)
        drift = {}
        for pre in tr.PREFIXES:
            diffs = schema_diff(norm_py(info["published"][pre]), norm_py(info["generated"][pre]))
            if diffs:
                drift[pre] = diffs
        searches = {}
        for pre, diffs in drift.items():
            fam = "testing" if pre.startswith("testing") else "hugr"
            mode = "strict" if pre.endswith("strict") else "lax"
            if fam not in searches:
                both = [d for q, ds in drift.items() if q.startswith("testing") == (fam == "testing") for d in ds]
                # differences confined to annotations cannot change any verdict (the validator never reads them)
                annot = all(any(("/" + a) in d.split(" (")[0].rsplit("/properties/", 1)[-1] or d.split(" (")[0].endswith("/" + a)
                                for a in ("default", "title", "description", "discriminator")) for d in both)
                searches[fam] = {} if annot else self.search_disagreement(fam, both, tier, info)
            thm = "published_%s_eq_generated_%s" % (tr.CONST[pre], tr.CONST[pre])
            detail = {"signature": "schema-drift:" + pre, "theorem": thm, "file": pre, "differing_paths": diffs[:20]}
            if searches[fam].get(mode):
                detail["failing_input"] = searches[fam][mode]
            out.append(("schema-drift", "published %s_<v>.json differs from the schema the models define now at %s"
                        % (pre, "; ".join(diffs[:4])), detail))
        ctx.stats["schema_constants"] = {"bytes": os.path.getsize(os.path.join(fw.COQ, "gen", "Schemas.v"))}
        out += self.order_drift(ctx, tier, info, bool(drift))
        return out

    def undeclared_keys(self, ctx):
        """Fail closed on decoder keys the schema cannot show (harness/c17/alias_probe.py): every field of every
        serialization model class must be read under exactly ONE top-level key - the one pydantic lists as the
        property.  A further key (validation alias with choices, alias path, populate_by_name with an alias, alias
        generator) is a member the strict files refuse and the decoder consumes.  Reported with a concrete document
        (the field's object under the undeclared key, smallest occurrence in the documents of this run) when the
        strict decoder and the strict file are seen to disagree on it."""
        out = []
        probe = alias_probe()
        ctx.stats["decoder_keys_probe"] = {k: probe.get(k) for k in ("classes", "fields")}
        ctx.stats["decoder_keys_probe"]["undeclared"] = len(probe.get("issues", [])) if "error" not in probe else None
        if "error" in probe:
            return [("decoder-keys-probe-failed", "the probe of the model classes' fields (aliases) did not run: " + probe["error"],
                     {"signature": "decoder-keys-probe-failed", "error": probe["error"]})]
        for i in probe["issues"][:6]:
            detail = {"signature": "undeclared-decoder-key:%s.%s" % (i["cls"], i["field"]), "class": i["cls"], "field": i["field"],
                      "schema_lists": i["schema_key"], "decoder_reads": i["accepted"], "alias_paths": i["paths"], "why": i["why"]}
            hit = self.search_undeclared(i)
            if hit:
                detail["failing_input"] = hit
            out.append(("undeclared-decoder-key", "the decoder reads field %s.%s under keys %s (%s) but a generated schema lists one "
                        "property key per field: the strict files refuse the others" % (i["cls"], i["field"], i["accepted"] + i["paths"],
                                                                                     ", ".join(i["why"])), detail))
        return out

    def search_undeclared(self, issue):
        builder, files = self.bases("quick")
        bases = builder + [f for f in files if len(json.dumps(f[2])) < 6000]
        bases = [("hugr", b) for b in bases] + [("testing", t) for t in testing_docs(builder + files)]
        ak = {issue["schema_key"]: issue["accepted"][1:]} if issue.get("schema_key") else {}
        n = 0
        for fam, (name, entry, doc) in sorted(bases, key=lambda x: len(json.dumps(x[1][2]))):
            for kind, old, newk, leg, path, th in rename_mutations(doc, ak):
                if old != issue.get("schema_key") or newk not in issue["accepted"][1:]:
                    continue
                n += 1
                if n > 60:
                    return None
                c = dict(mk_case(fam, name, entry, th(), "rename", False, path), old=old)
                o = verdicts(fam, entry, c["doc"])
                for mode in ("strict", "lax"):
                    if o["js_" + mode] != o["pyd_" + mode]:
                        return {"case": c, "published_schema_accepts": o["js_" + mode], "pydantic_accepts": o["pyd_" + mode],
                                "configuration": mode}
        return None

    def order_drift(self, ctx, tier, info, drifted):
        """Report for theorem C17_rebuild_orders_define_expected_schemas: the first step of each history whose
        schema is not the expected file (Python mirror of SchemaSeq.expected / schema_equiv o norm; the verdict is
        Coq's), grouped by (root, configuration, differing paths), shortest history kept; with a document on which
        the decoder after exactly that history and the expected file disagree, when one is found."""
        out, groups = [], {}
        runs = self.order_runs or []
        for run in runs:
            state = {}
            for i, x in enumerate(run):
                fam, mode = x["step"]
                state[fam] = mode
                exp, _ = tr.expected_py(info["published"], state, fam, mode)
                diffs = schema_diff(norm_py(exp), norm_py(x["schema"]))
                if diffs:
                    h = [tuple(y["step"]) for y in run[: i + 1]]
                    k = (fam, mode, tuple(diffs[:6]))
                    if k not in groups or len(h) < len(groups[k]):
                        groups[k] = h
                    break
        ctx.stats["rebuild_orders"] = {"histories": len(runs), "steps": sum(len(r) for r in runs),
                                       "histories_with_unexpected_schema": len(groups)}
        if drifted:
            return out        # the files differ from the models already in generate_schema.py's own order: reported above
        for (fam, mode, diffs), h in sorted(groups.items(), key=lambda kv: (len(kv[1]), kv[0]))[:3]:
            detail = {"signature": "schema-order:%s:%s" % (fam, mode), "theorem": "C17_rebuild_orders_define_expected_schemas",
                      "history": [list(x) for x in h], "file": tr.STEP_PREFIX[(fam, mode)], "differing_paths": list(diffs)}
            hit = self.search_after_history(h, tier)
            if hit:
                detail["failing_input"] = hit
            out.append(("schema-order", "after the rebuilds %s in one process the models define a %s schema that differs "
                        "from the published file at %s (alone in a fresh process they define the published one)"
                        % (" -> ".join("%s/%s" % x for x in h), tr.STEP_PREFIX[(fam, mode)], "; ".join(diffs[:4])), detail))
        return out

    def search_after_history(self, h, tier):
        """A document on which the decoder after the history h (seq_worker) and the file expected after h
        (python-jsonschema) disagree: root-level probes first, then unmutated documents and extra members."""
        fam, mode = h[-1]
        key, jskey = ("seq", tuple(h)), expected_js_key(tuple(h))
        known, _ = fw.load_known(self.id)
        builder, files = self.bases(tier)
        bases = builder + [f for f in files if len(json.dumps(f[2])) < 9000] + testing_docs(builder + files)
        cands = [c for c in self.corpus(None) if c["fam"] == fam]
        for name, entry, doc in sorted(bases, key=lambda b: len(json.dumps(b[2]))):
            if entry == "TestingHugr" and fam != "testing":
                continue
            cands.append(mk_case(fam, name, entry, doc))
            objs = [p_ for p_, v in find_all(doc, lambda x: isinstance(x, dict))][:12]
            cands += [mk_case(fam, name, entry, setp(doc, p_ + ("zz_extra",), 1), "extra", False, p_) for p_ in objs]

        def disagrees(c):
            p_ok, s_ok = W.ask(key, c["entry"], c["doc"])["ok"], W.ask(jskey, c["entry"], c["doc"])
            if p_ok == s_ok:
                return None
            sig = "%s:%s:%s" % (c["mut"], pattern_of(c["entry"], c["path"]), "pydantic-accepts" if p_ok else "schema-accepts")
            return None if sig in known else (p_ok, s_ok)

        for c in cands[:600]:
            v = disagrees(c)
            if v is None:
                continue
            cur, progress, steps = c, True, 0
            while progress and steps < 200:
                progress = False
                for smaller, q in self.shrink_candidates(cur, with_path=True):
                    steps += 1
                    if disagrees(smaller) == v and not (isinstance(q[-1], str) and
                            "missing:%s:pydantic-accepts" % pattern_of(smaller["entry"], q) in known):
                        cur, progress = smaller, True
                        break
                    if steps >= 200:
                        break
            return {"case": cur, "history": [list(x) for x in h], "expected_schema_accepts": v[1], "pydantic_accepts": v[0],
                    "configuration": mode}
        return None

    def search_disagreement(self, fam, diffs, tier, info):
        """Documents on which a published file (python-jsonschema) and the models of the checkout disagree, outside
        the named one-way classes and the known findings; objects that instantiate a differing definition first,
        small documents first; the hit is shrunk.  Returns {mode: description}."""
        defs = {d.split("/")[2] for d in diffs if d.startswith("$/$defs/") and len(d.split("/")) > 2}
        shapes = []
        for pre in tr.PREFIXES:
            for src in ("published", "generated"):
                for dn in defs:
                    ds = info[src][pre]["$defs"].get(dn)
                    if isinstance(ds, dict) and isinstance(ds.get("properties"), dict):
                        consts = {k: v["const"] for k, v in ds["properties"].items() if isinstance(v, dict) and "const" in v}
                        shapes.append((consts, set(ds["properties"])))

        def instantiates(o):
            if not isinstance(o, dict):
                return False
            for consts, props in shapes:
                if consts and all(o.get(k) == v for k, v in consts.items()):
                    return True
                if not consts and len(set(o) & props) >= max(1, min(2, len(props))) and len(set(o) - props) <= 1:
                    return True
            return False

        builder, files = self.bases(tier)
        bases = builder + [f for f in files if len(json.dumps(f[2])) < 9000] + testing_docs(builder + files)
        cands = []
        for name, entry, doc in bases:
            if entry == "TestingHugr" and fam != "testing":
                continue
            size = len(json.dumps(doc))
            cands.append((1, size, len(cands), mk_case(fam, name, entry, doc)))
            for cls, ow, path, th in all_mutations(doc):
                if ow:
                    continue
                near = instantiates(getp(doc, path[:-1])) or instantiates(getp(doc, path))
                cands.append((0 if near else 2, size, len(cands), (name, entry, cls, ow, path, th)))
        cands.sort(key=lambda x: x[:3])
        known, _ = fw.load_known(self.id)
        found = {}

        def disagrees(c, mode):
            o = verdicts(c["fam"], c["entry"], c["doc"])
            if o["js_" + mode] != o["pyd_" + mode] and self.signature(c, o, None) not in known:
                return o
            return None

        for _, _, _, c in cands[:1200]:
            if isinstance(c, tuple):
                name, entry, cls, ow, path, th = c
                c = mk_case(fam, name, entry, th(), cls, ow, path)
            for mode in ("strict", "lax"):
                if mode in found:
                    continue
                o = disagrees(c, mode)
                if o is None:
                    continue
                cur, steps = c, 0
                progress = True
                while progress and steps < 300:
                    progress = False
                    for smaller, q in self.shrink_candidates(cur, with_path=True):
                        steps += 1
                        o2 = disagrees(smaller, mode)
                        if o2 is not None and isinstance(q[-1], str) and \
                                self.signature(dict(smaller, mut="missing", path=list(q)), o2, None) in known:
                            continue
                        if o2 is not None and (o2["js_" + mode], o2["pyd_" + mode]) == (o["js_" + mode], o["pyd_" + mode]):
                            cur, o, progress = smaller, o2, True
                            break
                        if steps >= 300:
                            break
                found[mode] = {"case": cur, "published_schema_accepts": o["js_" + mode], "pydantic_accepts": o["pyd_" + mode],
                               "configuration": mode, "pydantic_errors": o["errors"][mode]}
            if len(found) == 2:
                break
        return found


PROP = C17()
