"""C12 — the model export is well scoped and faithful to the HUGR
(model: coq/model/Export.v, spec: coq/spec/ExportS.v, proofs: coq/proofs/ExportP.v)."""
import json
import os
import random
import re

import fw
import progs
from fw import gZ, gN, glist, gopt, gpair, gapp, gbool, gnat


class HarnessError(Exception):
    pass


# ----------------------------------------------------------------------------- HUGR -> hierarchy view

def kind_of(op):
    from hugr import ops
    table = [(ops.Module, "KModule"), (ops.FuncDefn, "KFuncDefn"), (ops.FuncDecl, "KFuncDecl"),
             (ops.AliasDecl, "KAliasDecl"), (ops.AliasDefn, "KAliasDefn"), (ops.Const, "KConst"),
             (ops.Input, "KInput"), (ops.Output, "KOutput"), (ops.DFG, "KDFG"), (ops.CFG, "KCFG"),
             (ops.DataflowBlock, "KBlock"), (ops.ExitBlock, "KExit"), (ops.Conditional, "KCond"),
             (ops.Case, "KCase"), (ops.TailLoop, "KLoop"), (ops.Call, "KCall"), (ops.LoadFunc, "KLoadFunc"),
             (ops.LoadConst, "KLoadConst"), (ops.CallIndirect, "KCallInd"), (ops.Tag, "KTag"),
             (ops.Custom, "KExt"), (ops.AsExtOp, "KExt")]
    for cls, k in table:
        if isinstance(op, cls):
            return k
    return "KUnknown"


def block_signature(op):
    """the signature term of a basic block: control ports (export.rs export_block_signature)"""
    import hugr.model as model
    ins = [model.Apply("core.ctrl", [model.List([t.to_model() for t in op.inputs])])]
    other = [t.to_model() for t in op.other_outputs]
    outs = [model.Apply("core.ctrl", [model.List([*[t.to_model() for t in row], *other])])
            for row in op.sum_ty.variant_rows]
    return model.Apply("core.fn", [model.List(ins), model.List(outs)])


def node_facts(op, kind):
    """(value inputs, value outputs, static port offset, signature term or None), read from the operation"""
    from hugr import ops
    if kind == "KBlock":
        return 1, len(op.sum_ty.variant_rows), -1, (lambda: block_signature(op))
    if kind == "KExit":
        return 1, 0, -1, None
    if kind == "KCall":
        s = op.instantiation
        return len(s.input), len(s.output), len(s.input), s.to_model
    if kind == "KLoadFunc":
        return 0, 1, 0, op.instantiation.to_model
    if kind in ("KInput", "KOutput", "KDFG", "KCFG", "KCond", "KLoop", "KLoadConst", "KCallInd", "KTag", "KExt"):
        s = op.outer_signature()
        return len(s.input), len(s.output), (0 if kind == "KLoadConst" else -1), s.to_model
    return 0, 0, -1, None


def term_norm(t):
    """A term of hugr.model as a value that forgets what the property does not speak about: which Sequence type
    holds the parts / arguments (list or tuple), the order in which a dataclass declares its fields, and the sugar
    of a literal list spliced into a list ([a, [b, c]...] is [a, b, c]; the same for tuples)."""
    import dataclasses
    import enum
    import hugr.model as model
    if isinstance(t, (model.List, model.Tuple)):
        parts = []

        def add(ps):
            for q in ps:
                if isinstance(q, model.Splice) and type(q.seq) is type(t):
                    add(q.seq.parts)
                else:
                    parts.append(term_norm(q))
        add(t.parts)
        return (type(t).__name__, tuple(parts))
    if dataclasses.is_dataclass(t) and not isinstance(t, type):
        return (type(t).__name__,) + tuple(sorted((f.name, term_norm(getattr(t, f.name)))
                                                  for f in dataclasses.fields(t)))
    if isinstance(t, (list, tuple)):
        return tuple(term_norm(x) for x in t)
    if isinstance(t, enum.Enum):
        return ("enum", type(t).__name__, t.name)
    if t is None or isinstance(t, (str, int, float, bytes)):
        return (type(t).__name__, repr(t))
    raise HarnessError("term: unexpected " + type(t).__name__)


def term_payload(t):
    return "term:" + repr(term_norm(t))


def term_repr(f):
    """payload of a term the public to_model() methods build; an exception is a payload of its own"""
    try:
        return term_payload(f())
    except HarnessError:
        raise
    except Exception as e:
        return "raise:" + type(e).__name__


def json_payload(text):
    """the metadata value a JSON text denotes: the PARSED value, rendered canonically (objects are unordered maps,
    whitespace / escapes / separators of the text are not part of the value; 1 and 1.0 stay different numbers).
    Anything that is not a JSON text stays a payload of its own and equals no value."""
    if not isinstance(text, str):
        return "notjson:" + type(text).__name__ + ":" + repr(text)
    try:
        v = json.loads(text)
    except ValueError:
        return "notjson:str:" + text
    return "json:" + json.dumps(v, sort_keys=True, separators=(",", ":"), ensure_ascii=True)


def meta_of_hugr(md):
    """node metadata as sorted (name, value) payload pairs: a dict, no order promised"""
    out = []
    for a, b in md.items():
        try:
            text = json.dumps(b)
        except (TypeError, ValueError) as e:          # not JSON: outside the property's domain, never generated
            raise HarnessError("metadata value is not JSON: " + type(e).__name__)
        out.append(("s:" + str(a), json_payload(text)))
    return sorted(out)


def hugr_view(h, I):
    """what the exporter reads, through the public queries.  I interns strings."""
    from hugr import ops

    def info(n):
        op = h[n].op
        k = kind_of(op)
        try:
            nin, nout, static, sig = node_facts(op, k)
        except Exception as e:
            raise HarnessError("node_facts %s: %s" % (k, type(e).__name__))
        name = 0
        if k in ("KFuncDefn", "KFuncDecl"):
            name = I("name:" + op.f_name)
        elif k in ("KAliasDecl", "KAliasDefn"):
            name = I("name:" + op.alias)
        val = 0
        if k == "KConst":
            val = 1 + I(term_repr(op.val.to_model))
        if k in ("KInput", "KOutput"):
            sig = None
        return {"idx": n.idx, "kind": k, "nin": nin, "nout": nout, "static": static, "name": name,
                "sig": 0 if sig is None else 1 + I(term_repr(sig)), "val": val,
                "meta": [[I(a), I(b)] for a, b in meta_of_hugr(h[n].metadata)]}

    def tree(n):
        return {"info": info(n), "ch": [tree(c) for c in h.children(n)]}
    links = [[s.node.idx, s.offset, t.node.idx, t.offset] for s, t in h.links()]
    return {"tree": tree(h.root), "links": links}


# ----------------------------------------------------------------------------- exported module -> abstract tree

def lit_value(t):
    import hugr.model as model
    if not isinstance(t, model.Literal):
        raise HarnessError("literal expected: " + repr(t)[:80])
    return t.value


def model_tree(m, I, numbering=None, ignored=None, symlog=None):
    """the dataclass tree Hugr.to_model() returned, reduced to what the property speaks about.
    Fails closed on classes it does not know and on malformed entries of the three metadata symbols the property
    speaks about; metadata terms with any other symbol are not the property's business (counted in `ignored`,
    diagnostic only).  numbering (diagnostic only): interned link name -> the number it spells."""
    KNOWN_META = ("core.order_hint.key", "compat.meta_json", "core.order_hint.order")
    import hugr.model as model
    if not isinstance(m, model.Module):
        raise HarnessError("not a Module")
    defined = set()

    def scan(r):
        for c in r.children:
            if isinstance(c.operation, (model.DefineFunc, model.DeclareFunc)):
                defined.add(c.operation.symbol.name)
            for rr in c.regions:
                scan(rr)
    scan(m.root)

    def name(x):
        if not isinstance(x, str):
            raise HarnessError("link name is not a string")
        k = I("link:" + x)
        if numbering is not None and x.isascii() and x.isdigit() and len(x) < 9:
            numbering[k] = int(x)
        return k

    def sym(x):
        if symlog is not None:
            symlog.append(x)
        return I("sym:" + x)

    def node(n):
        if not isinstance(n, model.Node):
            raise HarnessError("not a Node: " + type(n).__name__)
        op = n.operation
        if isinstance(op, model.Dfg):
            o = ["ODfg"]
        elif isinstance(op, model.Cfg):
            o = ["OCfg"]
        elif isinstance(op, model.Block):
            o = ["OBlock"]
        elif isinstance(op, model.Conditional):
            o = ["OCond"]
        elif isinstance(op, model.TailLoop):
            o = ["OLoop"]
        elif isinstance(op, model.DefineFunc):
            o = ["ODefFunc", sym(op.symbol.name)]
        elif isinstance(op, model.DeclareFunc):
            o = ["ODeclFunc", sym(op.symbol.name)]
        elif isinstance(op, model.DefineAlias):
            o = ["ODefAlias", sym(op.symbol.name)]
        elif isinstance(op, model.DeclareAlias):
            o = ["ODeclAlias", sym(op.symbol.name)]
        elif isinstance(op, model.CustomOp):
            t = op.operation
            if not isinstance(t, model.Apply):
                raise HarnessError("custom operation is not an Apply")
            if t.symbol == "core.call" and len(t.args) == 3 and isinstance(t.args[2], model.Apply):
                o = ["OCall", sym(t.args[2].symbol)]
            elif t.symbol == "core.load_const" and len(t.args) == 2:
                v = t.args[1]
                if isinstance(v, model.Apply) and v.symbol in defined:
                    o = ["OLoadFunc", sym(v.symbol)]
                else:
                    o = ["OLoadConst", 1 + I(term_payload(v))]
            else:
                o = ["OCustom"]
        else:
            o = ["OInvalid"]
        keys, meta = [], []
        for t in n.meta:
            if isinstance(t, model.Apply) and t.symbol == "core.order_hint.key" and len(t.args) == 1:
                keys.append(int(lit_value(t.args[0])))
            elif isinstance(t, model.Apply) and t.symbol == "compat.meta_json" and len(t.args) == 2:
                meta.append(("s:" + str(lit_value(t.args[0])), json_payload(lit_value(t.args[1]))))
            elif isinstance(t, model.Apply) and t.symbol in KNOWN_META:
                raise HarnessError("malformed node metadata: " + repr(t)[:80])
            elif ignored is not None:
                ignored.append(getattr(t, "symbol", type(t).__name__))
        # the entries of a node's metadata are a bag: compared sorted, as on the HUGR's side
        meta = [[I(a), I(b)] for a, b in sorted(meta)]
        # a node that defines / declares a symbol has no dataflow signature of its own to compare
        nosig = isinstance(op, (model.DefineFunc, model.DeclareFunc, model.DefineAlias, model.DeclareAlias))
        return {"op": o, "sig": 0 if n.signature is None or nosig else 1 + I(term_payload(n.signature)),
                "ins": [name(x) for x in n.inputs], "outs": [name(x) for x in n.outputs],
                "regs": [region(r) for r in n.regions], "keys": keys, "meta": meta}

    def region(r):
        if not isinstance(r, model.Region):
            raise HarnessError("not a Region")
        kind = {model.RegionKind.DATA_FLOW: "RData", model.RegionKind.CONTROL_FLOW: "RControl",
                model.RegionKind.MODULE: "RModule"}[r.kind]
        hints = []
        for t in r.meta:
            if isinstance(t, model.Apply) and t.symbol == "core.order_hint.order" and len(t.args) == 2:
                hints.append([int(lit_value(t.args[0])), int(lit_value(t.args[1]))])
            elif isinstance(t, model.Apply) and t.symbol in KNOWN_META:
                raise HarnessError("malformed region metadata: " + repr(t)[:80])
            elif ignored is not None:
                ignored.append(getattr(t, "symbol", type(t).__name__))
        return {"kind": kind, "srcs": [name(x) for x in r.sources], "tgts": [name(x) for x in r.targets],
                "ch": [node(c) for c in r.children], "hints": hints}
    return region(m.root)


# ----------------------------------------------------------------------------- literals

def g_info(i):
    return "(mkN %d %s %d %d %s %d %d %d %s)" % (
        i["idx"], i["kind"], i["nin"], i["nout"], "(%d)" % i["static"], i["name"], i["sig"], i["val"],
        glist("(%s, %s)" % (gZ(a), gZ(b)) for a, b in i["meta"]))


def g_tree(t):
    return "(HNode %s %s)" % (g_info(t["info"]), glist(g_tree(c) for c in t["ch"]))


def g_view(v):
    return "(mkH %s %s)" % (g_tree(v["tree"]),
                            glist("(mkL %d (%d) %d (%d))" % tuple(l) for l in v["links"]))


def g_op(o):
    if len(o) == 1:
        return o[0]
    if o[0] == "OLoadConst":
        return "(OLoadConst %s)" % gZ(o[1])
    return "(%s %s)" % (o[0], gN(o[1]))


def g_names(l):
    return glist(gN(x) for x in l)


def g_zz(l):
    return glist("(%s, %s)" % (gZ(a), gZ(b)) for a, b in l)


def g_node(n):
    return "(ENode %s %s %s %s %s %s %s)" % (
        g_op(n["op"]), gZ(n["sig"]), g_names(n["ins"]), g_names(n["outs"]),
        glist(g_region(r) for r in n["regs"]), glist(gZ(k) for k in n["keys"]), g_zz(n["meta"]))


def g_region(r):
    return "(ERegion %s %s %s %s %s)" % (r["kind"], g_names(r["srcs"]), g_names(r["tgts"]),
                                        glist(g_node(c) for c in r["ch"]), g_zz(r["hints"]))


# ----------------------------------------------------------------------------- hand-written programs

def named_program(name):
    from hugr import ops, tys, val
    from hugr.build import Dfg, Module, Cfg
    from hugr.std.int import DivMod, INT_T
    from hugr.std.logic import Not
    m = Module()
    if name == "call_twice":          # D24, D25: static port listed, symbol mangled with the call's index
        f = m.declare_function("f", tys.PolyFuncType([], tys.FunctionType([tys.Bool], [tys.Bool])))
        g = m.define_main([tys.Bool])
        (b,) = g.inputs()
        c1 = g.call(f, b)
        c2 = g.call(f, c1[0])
        g.set_outputs(c2)
    elif name == "load_twice":        # D24: constant loaded twice, function loaded
        c = m.add_const(val.TRUE)
        f = m.declare_function("f", tys.PolyFuncType([], tys.FunctionType([], [])))
        g = m.define_main([])
        l1, l2 = g.load(c), g.load(c)
        lf = g.load_function(f)
        g.set_outputs(l1, l2, lf)
    elif name == "order_hint":        # D26: region order hints dropped
        g = m.define_main([tys.Bool])
        (b,) = g.inputs()
        n1 = g.add_op(Not, b)
        n2 = g.add_op(Not, b)
        n3 = g.add_op(Not, b)
        g.add_state_order(n1, n2)
        g.add_state_order(n1, n3)
        g.add_state_order(g.input_node, n1)
        g.set_outputs(n1, n2, n3)
    elif name == "cfg_entry":         # D27, D28: CFG source / entry block input
        g = m.define_main([tys.Bool])
        (b,) = g.inputs()
        with g.add_cfg(b) as cfg:
            with cfg.add_entry() as e:
                e.set_single_succ_outputs(*e.inputs())
            cfg.branch_exit(e[0])
        g.set_outputs(cfg)
    elif name == "cfg_loop":          # a block branching back to the entry block
        g = m.define_main([tys.Bool])
        (b,) = g.inputs()
        with g.add_cfg(b) as cfg:
            with cfg.add_entry() as e:
                (x,) = e.inputs()
                e.set_block_outputs(x, x)
            cfg.branch(e[0], e.parent_node)
            cfg.branch_exit(e[1])
        g.set_outputs(cfg)
    elif name == "fn_value":          # a constant holding a function
        d = Dfg(tys.Bool)
        (b,) = d.inputs()
        d.set_outputs(d.add_op(Not, b))
        g = m.define_main([])
        l = g.load(val.Function(d.hugr))
        g.set_outputs(l)
    elif name == "poly_call":         # polymorphic function called at two instances, metadata
        f = m.declare_function("id", tys.PolyFuncType(
            [tys.TypeTypeParam(tys.TypeBound.Copyable)],
            tys.FunctionType([tys.Variable(0, tys.TypeBound.Copyable)], [tys.Variable(0, tys.TypeBound.Copyable)])))
        g = m.define_main([tys.Bool, INT_T])
        b, i = g.inputs()
        c1 = g.call(f, b, instantiation=tys.FunctionType([tys.Bool], [tys.Bool]), type_args=[tys.TypeTypeArg(tys.Bool)])
        c2 = g.call(f, i, instantiation=tys.FunctionType([INT_T], [INT_T]), type_args=[tys.TypeTypeArg(INT_T)])
        dm = g.add_op(DivMod, c2, c2, metadata={"k": [1, {"x": None}], "ü": "a<b"})
        g.set_outputs(c1, dm[0])
    elif name == "alias":             # alias declaration and definition
        m.add_alias_decl("A", tys.TypeBound.Copyable)
        m.add_alias_defn("B", tys.Bool)
        g = m.define_main([])
        g.set_outputs()
    elif name == "unused_outputs":    # D7 remnant: unused trailing output is still a port
        g = m.define_main([INT_T, INT_T])
        a, b = g.inputs()
        dm = g.add_op(DivMod, a, b)
        g.set_outputs(dm[0])
    elif name == "cfg_no_entry":      # totality boundary (C12_export_total_iff): a CFG without a basic block
        g = m.define_main([tys.Bool])
        (b,) = g.inputs()
        cfg = g.hugr.add_node(ops.CFG([tys.Bool], [tys.Bool]), g.parent_node, num_outs=1)
        g.hugr.add_node(ops.ExitBlock([tys.Bool]), cfg)
        g.hugr.add_link(b.out_port(), cfg.inp(0))
        g.set_outputs(cfg.out(0))
    elif name == "half_order":        # clause-6 guard boundary (order_ports_b): order port linked to a value port
        g = m.define_main([tys.Bool])
        (b,) = g.inputs()
        n1 = g.add_op(Not, b)
        n2 = g.hugr.add_node(Not, g.parent_node, num_outs=1)
        g.hugr.add_link(n1.out(-1), n2.inp(0))
        g.set_outputs(n1, n2.out(0))
    elif name == "order_fan":         # order edges fanning in and out, to Output and from Input, in a nested DFG
        g = m.define_main([tys.Bool])
        (b,) = g.inputs()
        with g.add_nested(b) as d:
            (x,) = d.inputs()
            a1 = d.add_op(Not, x)
            a2 = d.add_op(Not, x)
            a3 = d.add_op(Not, x)
            d.add_state_order(a1, d.output_node)
            d.add_state_order(a1, a3)
            d.add_state_order(a2, a3)
            d.add_state_order(d.input_node, a2)
            d.add_state_order(a3, d.output_node)
            d.set_outputs(a1, a2, a3)
        n = g.add_op(Not, b)
        g.add_state_order(d, n)
        g.set_outputs(d[0], n)
    elif name == "order_back":        # order edges from a later node to an earlier one, and fan-in
        g = m.define_main([tys.Bool])
        (b,) = g.inputs()
        n1 = g.add_op(Not, b)
        n2 = g.add_op(Not, b)
        n3 = g.add_op(Not, b)
        g.add_state_order(n3, n1)
        g.add_state_order(n2, n1)
        g.add_state_order(n3, n2)
        g.set_outputs(n1, n2, n3)
    elif name == "order_twice":       # the same state-order edge added twice: one hint says it all (hints are a set)
        g = m.define_main([tys.Bool])
        (b,) = g.inputs()
        n1 = g.add_op(Not, b)
        n2 = g.add_op(Not, b)
        g.add_state_order(n1, n2)
        g.add_state_order(n1, n2)
        g.set_outputs(n1, n2)
    elif name == "meta_json":         # metadata values whose JSON text has insignificant whitespace / escapes / key order
        g = m.define_main([tys.Bool])
        (b,) = g.inputs()
        n1 = g.add_op(Not, b, metadata={"b": {"z": [1, 2.5, "p q"], "a": {"k": None}}, "a": [], "c": "ü", "d": 0})
        n2 = g.add_op(Not, n1, metadata={"e": False, "f": "", "g": {}})
        g.set_outputs(n2)
    elif name == "main_called":       # seeded C12-g: the function named `main` is itself applied (called and loaded)
        mn = m.define_function("main", [tys.Bool], [tys.Bool])
        r = m.define_function("retry", [tys.Bool], [tys.Bool])
        mn.set_outputs(*mn.inputs())
        c = r.call(mn.parent_node, *r.inputs())
        r.load_function(mn.parent_node)
        r.set_outputs(c[0])
    elif name == "main_recursive":    # `main` calls itself from a nested region and loads itself
        mn = m.define_function("main", [tys.Bool], [tys.Bool])
        (b,) = mn.inputs()
        with mn.add_nested(b) as d:
            c = d.call(mn.parent_node, *d.inputs())
            d.set_outputs(c[0])
        mn.load_function(mn.parent_node)
        mn.set_outputs(d[0])
    elif name == "names_special":     # same name twice, empty name, names spelt like the mangled form of another one
        sig = tys.PolyFuncType([], tys.FunctionType([tys.Bool], [tys.Bool]))
        f1 = m.define_function("f", [tys.Bool], [tys.Bool])
        f2 = m.define_function("f", [tys.Bool], [tys.Bool])
        e = m.define_function("", [tys.Bool], [tys.Bool])
        k1 = m.declare_function("_f_%d" % f1.parent_node.idx, sig)
        k2 = m.declare_function("_%d_f" % f2.parent_node.idx, sig)
        d1 = m.declare_function("main", sig)
        mn = m.define_function("main", [tys.Bool], [tys.Bool])
        f1.set_outputs(f1.call(f2.parent_node, *f1.inputs())[0])
        f2.set_outputs(f2.call(e.parent_node, *f2.inputs())[0])
        e.set_outputs(e.call(e.parent_node, *e.inputs())[0])
        (b,) = mn.inputs()
        for fn in (f1.parent_node, f2.parent_node, e.parent_node, k1, k2, d1, mn.parent_node):
            b = mn.call(fn, b)[0]
            mn.load_function(fn)
        mn.set_outputs(b)
    elif name == "meta_ways":         # seeded C12-j: metadata set in every public way, dicts rebound after the node exists
        g = m.define_main([tys.Bool])
        (b,) = g.inputs()
        n1 = g.add_op(Not, b, metadata={"how": "at creation"})
        n2 = g.add_op(Not, n1)
        n3 = g.add_op(Not, n2)
        n4 = g.add_op(Not, n3, metadata={"how": "at creation", "old": 1})
        n5 = g.add_op(Not, n4)
        h = m.hugr
        n2.metadata["how"] = "through the handle"
        h[n3].metadata["how"] = "node data updated in place"
        h[n4].metadata = {"how": "rebound", "line": 42}
        h[n5].metadata = {"how": "rebound, was empty"}
        h[g.parent_node].metadata = {"how": "function rebound before its last children exist"}
        with g.add_nested(n5) as d:
            h[d.parent_node].metadata = {"how": "container rebound before its children exist"}
            d.metadata["late"] = "written through the builder after the rebinding: the HUGR's entry decides"
            (x,) = d.inputs()
            k = d.add_op(Not, x, metadata={"gone": True})
            h[k].metadata = {}
            d.set_outputs(k)
        g.set_outputs(d[0])
        m.metadata["root"] = "module builder"
    elif name == "dfg_root":          # not a module: export of the root as a module region raises
        d = Dfg(tys.Bool)
        d.set_outputs(*d.inputs())
        return d.hugr
    else:
        raise ValueError(name)
    return m.hugr


NAMED = ["call_twice", "load_twice", "order_hint", "cfg_entry", "cfg_loop", "fn_value", "poly_call", "alias",
         "unused_outputs", "order_fan", "order_back", "order_twice", "meta_json", "main_called", "main_recursive",
         "names_special", "meta_ways"]
# programs outside the guard of the theorems (not claimed valid): model and implementation must still agree
BOUNDARY = ["dfg_root", "cfg_no_entry", "half_order"]
GUARDS = ("g_valid", "g_order", "g_ports", "g_stars", "g_cfg", "g_hints", "g_total", "g_all", "g_noerr", "g_numexact",
          "g_outside_agree", "g_strict")


# ----------------------------------------------------------------------------- extra state-order edges

ORDERABLE = ("KDFG", "KCFG", "KCond", "KLoop", "KCall", "KLoadFunc", "KLoadConst", "KCallInd", "KTag", "KExt")


def add_unrelated_order_edges(h, rng, tries=3):
    """harness/progs.py only adds state-order edges that point forward in node order.  The builder allows any
    acyclic one (Dfg.add_state_order): this adds, in random dataflow regions, order edges between siblings that
    no path of value/order edges relates, preferably from the later node to the earlier one.  Returns their number."""
    from hugr import ops
    containers = [n for n in h if isinstance(h[n].op, (ops.DFG, ops.FuncDefn, ops.TailLoop, ops.Case, ops.DataflowBlock))]
    rng.shuffle(containers)
    added = 0
    for cont in containers:
        if added >= tries:
            break
        kids = [c for c in h.children(cont) if kind_of(h[c].op) in ORDERABLE]
        if len(kids) < 2:
            continue
        inside = {}
        for c in kids:                       # every node below a sibling counts as that sibling
            stack = [c]
            while stack:
                x = stack.pop()
                inside[x] = c
                stack.extend(h.children(x))
        succ = {c: set() for c in kids}
        for s_, t_ in h.links():
            a, b = inside.get(s_.node), inside.get(t_.node)
            if a is not None and b is not None and a != b:
                succ[a].add(b)

        def reach(a, b):
            seen, stack = set(), [a]
            while stack:
                x = stack.pop()
                if x == b:
                    return True
                if x not in seen:
                    seen.add(x)
                    stack.extend(succ[x])
            return False
        pairs = [(a, b) for a in kids for b in kids if a.idx > b.idx]
        rng.shuffle(pairs)
        for a, b in pairs[:6]:
            if reach(a, b) or reach(b, a):
                continue
            if rng.random() < 0.25:
                a, b = b, a
            h.add_order_link(a, b)
            succ[a].add(b)
            added += 1
            break
    return added


# ----------------------------------------------------------------------------- call graphs with special names
#
# harness/progs.py names the functions of a module def<i> / decl<i> / poly<i> / main, never two alike, and never
# lets anything call or load `main`.  The exporter derives the symbol of a function at two sites (the definition /
# declaration, and every Call / LoadFunc that applies it); the property promises that the two agree for EVERY
# function, whatever it is called and whoever applies it.  This stream makes the call graph and the names the
# subject: any function (also `main`, also a declaration) may be called / loaded by any function (itself included,
# also from a nested region), and the names come from a pool of special ones.

SPECIAL_NAMES = ["main", "main", "main", "", "f", "f", "g", "_f_3", "_main_1", "_1_main", "main_1", "_main", "main_",
                 "Main", "a.b", "core.call", "core.load_const", "f_1", "1", "0", "_", "__", "_0", "f g", " ", "ü",
                 "_f", "f_", "entry", "x" * 40]
CG_TYPES = ("U", "B", "BB", "P")          # [] -> [], [Bool] -> [Bool], [Bool, Bool] -> [Bool], forall T. [T] -> [T]


def gen_callgraph(rng):
    """an explicit, shrinkable description: functions (name, declared or defined, type) and, per defined function,
    statements [kind, callee index / nested statements, argument selector]"""
    nf = rng.randint(1, 5)
    funcs = []
    for i in range(nf):
        r = rng.random()
        if i and r < 0.15:
            j = rng.randrange(i)                       # the name another function's symbol is (or might be) spelt with
            name = ["mangled", j, rng.choice(["_%s_%d", "_%d_%s", "%s_%d", "_%s_%d_"])]
        elif i and r < 0.3:
            name = funcs[rng.randrange(i)]["name"]     # two functions with the same name
        else:
            name = rng.choice(SPECIAL_NAMES)
        funcs.append({"name": name, "decl": rng.random() < 0.25, "ty": rng.choice(["U", "B", "B", "BB", "P"])})
    if rng.random() < 0.7 and not any(f["name"] == "main" for f in funcs):
        funcs[rng.randrange(nf)]["name"] = "main"
    if all(f["decl"] for f in funcs):
        funcs[rng.randrange(nf)]["decl"] = False

    def stmts(depth):
        out = []
        for _ in range(rng.randint(0, 4)):
            r = rng.random()
            if r < 0.45:
                out.append(["call", rng.randrange(nf), rng.randrange(8)])
            elif r < 0.75:
                out.append(["load", rng.randrange(nf)])
            elif r < 0.85 and depth < 2:
                out.append(["nest", stmts(depth + 1)])
            else:
                out.append(["not", rng.randrange(8)])
        return out
    for i, f in enumerate(funcs):
        if not f["decl"]:
            f["body"] = stmts(0)
            if rng.random() < 0.5:                      # make sure the special shapes are frequent: self-application
                f["body"].append([rng.choice(["call", "load"]), i, 0][: 3])
    # somebody applies main
    mains = [i for i, f in enumerate(funcs) if f["name"] == "main"]
    defs = [f for f in funcs if not f["decl"]]
    if mains and rng.random() < 0.8:
        rng.choice(defs)["body"].append(rng.choice([["call", rng.choice(mains), 1], ["load", rng.choice(mains)]]))
    return {"funcs": funcs}


def build_callgraph(cg):
    import copy
    from hugr import tys, val
    from hugr.build import Module
    from hugr.std.logic import Not
    m = Module()
    T = tys.Variable(0, tys.TypeBound.Copyable)
    rows = {"U": ([], []), "B": ([tys.Bool], [tys.Bool]), "BB": ([tys.Bool, tys.Bool], [tys.Bool]), "P": ([T], [T])}
    nodes, builders, names = [], [], []
    for f in cg["funcs"]:
        name = f["name"]
        if not isinstance(name, str):
            _, j, fmt = name
            j = j % len(nodes) if nodes else 0
            args = (names[j], nodes[j].idx) if nodes else ("", 0)
            name = fmt % (args if fmt.index("s") < fmt.index("d") else args[::-1])
        ins, outs = rows[f["ty"]]
        params = [tys.TypeTypeParam(tys.TypeBound.Copyable)] if f["ty"] == "P" else []
        if f["decl"]:
            n, b = m.declare_function(name, tys.PolyFuncType(params, tys.FunctionType(list(ins), list(outs)))), None
        else:
            b = m.define_function(name, list(ins), list(outs), params or None)
            n = b.parent_node
        nodes.append(n)
        builders.append(b)
        names.append(name)

    def run(b, body, pool, here):
        """pool: {"B": wires of type Bool, "T": wires of the type variable (inside a polymorphic definition)}"""
        def pick(tag, sel):
            if tag == "B" and not pool["B"]:
                pool["B"].append(b.load(val.TRUE))
            return pool[tag][sel % len(pool[tag])]
        last = None
        for st in body:
            k = st[0]
            if k == "meta":
                _, way, tgt, ki, vi = st
                key, value = META_KEYS[ki % len(META_KEYS)], META_VALS[vi % len(META_VALS)]
                if way == "builder":          # ToNode.metadata of the builder / of the node the builder returned
                    (b if tgt == "parent" or last is None else last).metadata[key] = copy.deepcopy(value)
                else:
                    set_metadata(b.hugr, b.parent_node if tgt == "parent" or last is None else last, way, key, value)
                continue
            if k in ("call", "load"):
                j = st[1] % len(nodes)
                ty = cg["funcs"][j]["ty"]
                kw = {}
                if ty == "P":
                    # a polymorphic callee: at the type variable inside a polymorphic definition, else at Bool
                    at = T if here == "P" else tys.Bool
                    kw = {"instantiation": tys.FunctionType([at], [at]), "type_args": [tys.TypeTypeArg(at)]}
                    tag = "T" if here == "P" else "B"
                else:
                    tag = "B"
                if k == "load":
                    last = b.load_function(nodes[j], **kw)
                    continue
                sel = st[2] if len(st) > 2 else 0
                args = [pick(tag, sel + q) for q in range(len(rows[ty][0]))]
                c = b.call(nodes[j], *args, **kw)
                last = c
                if rows[ty][1]:
                    pool[tag].append(c[0])
            elif k == "not":
                md = None
                if len(st) > 2:
                    md = {META_KEYS[st[2][0] % len(META_KEYS)]: copy.deepcopy(META_VALS[st[2][1] % len(META_VALS)])}
                last = b.add_op(Not, pick("B", st[1] if len(st) > 1 else 0), metadata=md)
                pool["B"].append(last)
            elif k == "nest":
                wires = pool["B"] + pool["T"]
                with b.add_nested(*wires) as d:
                    inner = list(d.inputs())
                    p2 = {"B": inner[: len(pool["B"])], "T": inner[len(pool["B"]):]}
                    run(d, st[1], p2, here)
                    res = (p2["B"][-1:] if p2["B"] else [])
                    d.set_outputs(*res)
                last = d.parent_node
                if res:
                    pool["B"].append(d[0])
    for f, b in zip(cg["funcs"], builders):
        if b is None:
            continue
        ins = list(b.inputs())
        pool = {"B": [], "T": ins} if f["ty"] == "P" else {"B": ins, "T": []}
        run(b, f.get("body", []), pool, f["ty"])
        if f["ty"] == "U":
            b.set_outputs()
        else:
            b.set_outputs(pool["T" if f["ty"] == "P" else "B"][-1])
    return m.hugr


def shrink_callgraph(cg):
    """smaller call graphs: one statement less (at any depth), one function less (its applications removed)"""
    import copy

    def drop_stmt(body):
        for i in range(len(body)):
            yield body[:i] + body[i + 1:]
            if body[i][0] == "nest":
                for sub in drop_stmt(body[i][1]):
                    yield body[:i] + [["nest", sub]] + body[i + 1:]
    fs = cg["funcs"]
    for i in range(len(fs)):
        if len(fs) < 2 or (not fs[i]["decl"] and all(f["decl"] for k, f in enumerate(fs) if k != i)):
            continue

        def fix(body):
            out = []
            for st in body:
                if st[0] in ("call", "load"):
                    if st[1] % len(fs) == i:
                        continue
                    j = st[1] % len(fs)
                    out.append([st[0], j - (j > i)] + list(st[2:]))
                elif st[0] == "nest":
                    out.append(["nest", fix(st[1])])
                else:
                    out.append(st)
            return out
        new = []
        for k, f in enumerate(fs):
            if k == i:
                continue
            g = copy.deepcopy(f)
            if not isinstance(g["name"], str) and g["name"][1] > i:
                g["name"][1] -= 1                   # (the builder takes the index modulo the functions before it)
            if "body" in g:
                g["body"] = fix(g["body"])
            new.append(g)
        yield {"funcs": new}
    for i, f in enumerate(fs):
        for body in drop_stmt(f.get("body", [])):
            g = copy.deepcopy(fs)
            g[i]["body"] = body
            yield {"funcs": g}


def name_features(h):
    """what the module's call graph / names exercise (for the distribution report only)"""
    from hugr import ops
    fns = {n: h[n].op.f_name for n in h if isinstance(h[n].op, (ops.FuncDefn, ops.FuncDecl))}
    out = {"applied_main": 0, "self_applied": 0, "dup_names": 0, "plain_names": 0, "applied": 0}
    names = list(fns.values())
    out["dup_names"] = len(names) - len(set(names))
    out["plain_names"] = sum(1 for x in names if re.fullmatch(r"(def|decl|poly|rowpoly)\d+|main|f|id|lf\d*", x) is not None)
    out["special_names"] = len(names) - out["plain_names"]
    mangled = {fmt % (a, b) for n, x in fns.items() for fmt, a, b in (("_%s_%d", x, n.idx), ("_%d_%s", n.idx, x))}
    out["names_like_mangled"] = sum(1 for x in names if x in mangled)
    for n in h:
        if isinstance(h[n].op, (ops.Call, ops.LoadFunc)):
            for _, srcs in h.incoming_links(n):
                for s_ in srcs:
                    if s_.node in fns:
                        out["applied"] += 1
                        out["applied_main"] += fns[s_.node] == "main"
                        x = n
                        while x != h.root and x != s_.node:
                            x = h[x].parent
                        out["self_applied"] += x == s_.node
    return out


def special_names_pass(h, rng):
    """rename the functions of a finished module (hugr.ops.FuncDefn / FuncDecl .f_name is a public field; calls and
    loads refer to their function by a static edge, not by name): special names, duplicates, `main` more than once"""
    from hugr import ops
    fns = [n for n in h if isinstance(h[n].op, (ops.FuncDefn, ops.FuncDecl))]
    seen = []
    for n in fns:
        r = rng.random()
        if r < 0.5:
            continue
        if seen and r < 0.65:
            h[n].op.f_name = rng.choice(seen)
        elif seen and r < 0.75:
            o = rng.choice(fns)
            h[n].op.f_name = rng.choice(["_%s_%d", "%s_%d"]) % (h[o].op.f_name, o.idx)
        else:
            h[n].op.f_name = rng.choice(SPECIAL_NAMES)
        seen.append(h[n].op.f_name)


def add_static_uses(h, rng, tries=3):
    """harness/progs.py never applies `main` and never lets a function apply itself.  This adds, in random dataflow
    regions, loads of random functions of the module (monomorphic ones: the instantiation is the signature) and
    calls of functions without inputs whose outputs may be left unused (copyable).  Returns their number."""
    from hugr import ops, tys
    fns = [n for n in h.children(h.root) if isinstance(h[n].op, (ops.FuncDefn, ops.FuncDecl))]
    mono = []
    for n in fns:
        try:
            sig = h[n].op.signature
        except Exception:
            continue
        if not sig.params:
            mono.append((n, sig))
    conts = [n for n in h if isinstance(h[n].op, (ops.DFG, ops.FuncDefn, ops.TailLoop, ops.Case, ops.DataflowBlock))]
    if not mono or not conts:
        return 0
    mains = [x for x in mono if h[x[0]].op.f_name == "main"]
    added = 0
    for _ in range(rng.randint(1, tries)):
        f, sig = rng.choice(mains) if mains and rng.random() < 0.6 else rng.choice(mono)
        c = rng.choice(conts)
        body = sig.body
        if (not body.input and rng.random() < 0.5
                and all(t.type_bound() == tys.TypeBound.Copyable for t in body.output)):
            op = ops.Call(sig)
            n = h.add_node(op, c, num_outs=len(body.output))
        else:
            op = ops.LoadFunc(sig)
            n = h.add_node(op, c, num_outs=1)
        h.add_link(f.out(0), n.inp(0))
        added += 1
    return added


# ----------------------------------------------------------------------------- metadata set in every public way
#
# harness/progs.py attaches metadata at creation only (`metadata=`), where the dict of the NodeData entry and the dict
# cached on the Node handles (Node._metadata: the handle the builder returns, the one in the parent's children list)
# are one object.  The property promises that the metadata OF THE HUGR's node (Hugr[node].metadata: what to_json
# writes, what the renderer shows) is carried over, however it got there.  These are the public ways of writing it;
# after a rebinding the handles created before it keep the old dict, so a write through them does not reach the HUGR
# (and must not reach the export either): the HUGR's entry at export time is the expectation, whatever the history.

META_KEYS = ["k", "how", "", "ü", "a.b", "compat.meta_json", "core.order_hint.key", "line", "x" * 30, "name", "k2", " "]
META_VALS = [None, True, False, 0, 1, -7, 2.5, 1.0, "", "s", "ü", "a<b", "p q", [], {}, [1, [2, {"x": None}]],
             {"b": 1, "a": [True, "z"]}, {"k": {"k": {}}}, "line\n\"q\"", 10 ** 20]
META_WAYS = ("handle", "iter", "data", "update", "rebind", "rebind", "rebind_keep", "rebind_keep", "rebind_empty",
             "delete")


def set_metadata(h, n, way, key, value):
    """one public way of writing the metadata of node n of h"""
    import copy
    value = copy.deepcopy(value)
    nd = h[n]
    if way == "handle":               # the handle the builder returned = the one in the parent's children list
        p = nd.parent
        hd = h.root if p is None else next(c for c in h.children(p) if c.idx == n.idx)
        hd.metadata[key] = value
    elif way == "iter":               # a handle obtained by iterating over the HUGR
        next(x for x in h if x.idx == n.idx).metadata[key] = value
    elif way == "data":
        nd.metadata[key] = value
    elif way == "update":
        nd.metadata.update({key: value, key + "'": [value]})
    elif way == "rebind":
        nd.metadata = {key: value}
    elif way == "rebind_keep":
        nd.metadata = {**nd.metadata, key: value}
    elif way == "rebind_empty":
        nd.metadata = {}
    elif way == "delete":
        if nd.metadata:
            del nd.metadata[next(iter(nd.metadata))]
        else:
            nd.metadata[key] = value
    else:
        raise ValueError(way)


def metadata_pass(h, rng, tries=6):
    """writes metadata of random nodes of a finished HUGR in random public ways.  Returns {way: count}."""
    nodes = list(h)
    exported = [n for n in nodes if kind_of(h[n].op) not in ("KInput", "KOutput", "KConst", "KModule")]
    ways = {}
    touched = []
    for _ in range(rng.randint(1, tries)):
        if touched and rng.random() < 0.3:
            n = rng.choice(touched)                   # the same node again: write after rebinding, rebinding twice
        elif exported and rng.random() < 0.85:
            n = rng.choice(exported)
        else:
            n = rng.choice(nodes)
        touched.append(n)
        way = rng.choice(META_WAYS)
        set_metadata(h, n, way, rng.choice(META_KEYS), rng.choice(META_VALS))
        ways[way] = ways.get(way, 0) + 1
    return ways


CG_META_WAYS = ("builder", "builder", "data", "update", "rebind", "rebind", "rebind_keep", "rebind_empty", "delete",
                "iter")


def add_meta_stmts(cg, rng):
    """inserts, at random places of the bodies of a call graph (in place), statements ["meta", way, target, key index,
    value index] (target: the node the previous statement of the body added, or the enclosing function / nested DFG
    itself - so before and after its children exist) and gives some `not` statements metadata at creation"""
    def go(body):
        for st in body:
            if st[0] == "nest":
                go(st[1])
            elif st[0] == "not" and rng.random() < 0.3:
                while len(st) < 2:
                    st.append(0)
                st[2:] = [[rng.randrange(len(META_KEYS)), rng.randrange(len(META_VALS))]]
        for _ in range(rng.randint(0, 3)):
            body.insert(rng.randint(0, len(body)), ["meta", rng.choice(CG_META_WAYS), rng.choice(["last", "last", "parent"]),
                                                    rng.randrange(len(META_KEYS)), rng.randrange(len(META_VALS))])
    for f in cg["funcs"]:
        if "body" in f:
            go(f["body"])
    return cg


# ----------------------------------------------------------------------------- python.rs / hugr.model -> coq/gen/ModelAttrs.v

class TranslateError(Exception):
    pass


STRUCT_IMPLS = ("Param", "Symbol", "Node", "Region", "Module", "Package")
ENUM_IMPLS = ("Term", "Operation")


def scan_python_rs(path):
    """-> (reads: {class: [attribute...]}, built: [class...]).  Fails closed on anything unexpected."""
    src = open(path).read().split("\n")
    reads, built = {}, []
    cur, mode, arm = None, None, None
    for n, ln in enumerate(src, 1):
        m = re.match(r"^impl<'py> pyo3::(FromPyObject<'py>|IntoPyObject<'py>) for &?(\w+) \{$", ln)
        if m:
            mode, cur, arm = ("from" if m.group(1).startswith("From") else "into"), m.group(2), None
            if mode == "from":
                if cur in STRUCT_IMPLS:
                    reads.setdefault(cur, [])
                elif cur not in ENUM_IMPLS and cur != "SeqPart":
                    raise TranslateError("%d: FromPyObject for unknown type %s" % (n, cur))
            continue
        if re.match(r"^impl\b", ln):
            mode, cur, arm = None, None, None
            continue
        if mode == "from":
            a = re.match(r'^\s*"(\w+)" => (\{|Self::\w+,)\s*$', ln)
            if a:
                if cur not in ENUM_IMPLS:
                    raise TranslateError("%d: class arm outside Term/Operation" % n)
                arm = a.group(1)
                if arm in reads:
                    raise TranslateError("%d: duplicate arm %s" % (n, arm))
                reads[arm] = []
                if a.group(2) != "{":
                    arm = None
                continue
            if cur == "SeqPart":
                q = re.match(r'^\s*if name\.to_str\(\)\? == "(\w+)" \{$', ln)
                if q:
                    arm = q.group(1)
                    reads[arm] = []
                    continue
            if re.match(r"^\s*_ => \{$", ln) or re.match(r"^\s*\} else \{$", ln):
                arm = None
            g = re.findall(r'\.getattr\("(\w+)"\)', ln)
            if g:
                if len(g) != 1 or not re.search(r'^\s*let [\w#]+(: [\w<>_]+)? = \w+\.getattr\("\w+"\)\?\.extract\(\)\?;$', ln):
                    raise TranslateError("%d: unexpected attribute access: %s" % (n, ln.strip()))
                target = cur if cur in STRUCT_IMPLS else arm
                if target is None:
                    raise TranslateError("%d: attribute read outside a class: %s" % (n, ln.strip()))
                reads[target].append(g[0])
            elif "getattr" in ln:
                raise TranslateError("%d: unparsed getattr: %s" % (n, ln.strip()))
        elif mode == "into":
            g = re.findall(r'py_module\.getattr\("(\w+)"\)', ln)
            for c in g:
                if c not in built:
                    built.append(c)
            if "getattr" in ln and not g:
                raise TranslateError("%d: unparsed getattr: %s" % (n, ln.strip()))
        elif "getattr" in ln:
            raise TranslateError("%d: getattr outside an impl: %s" % (n, ln.strip()))
    if not reads or not built:
        raise TranslateError("nothing scanned")
    return reads, built


def model_fields():
    """dataclasses of hugr.model with their field names, in definition order"""
    import dataclasses
    import inspect
    import hugr.model as model
    out = []
    import enum
    for name, cls in vars(model).items():
        if not (inspect.isclass(cls) and cls.__module__ == model.__name__) or name.startswith("_"):
            continue                                  # private helpers are not model classes
        if dataclasses.is_dataclass(cls):
            out.append((name, [f.name for f in dataclasses.fields(cls)]))
        elif issubclass(cls, enum.Enum) or getattr(cls, "_is_protocol", False):
            continue                                  # RegionKind; the Term / Op protocols
        else:
            # a model class need not be a dataclass to expose attributes: annotations, properties, slots
            attrs = []
            for k in reversed(cls.__mro__):
                if k.__module__ != model.__name__:
                    continue
                for a in list(getattr(k, "__annotations__", {})) + list(getattr(k, "__slots__", ())) + [
                        a for a, v in vars(k).items() if isinstance(v, property)]:
                    if a not in attrs and not a.startswith("_"):
                        attrs.append(a)
            out.append((name, attrs))
    if not out:
        raise TranslateError("no dataclasses found in hugr.model")
    return out


def gstring(x):
    if not re.fullmatch(r"[A-Za-z0-9_#]*", x):
        raise TranslateError("unexpected identifier " + repr(x))
    return '"%s"' % x


def model_attrs_v(reads, built, fields):
    def tab(items):
        return "[\n  " + ";\n  ".join("(%s, %s)" % (gstring(c), glist(gstring(a) for a in attrs)) for c, attrs in items) + "\n]"
    return ("(* GENERATED by harness/props/c12.py on every run from hugr-model/src/v0/ast/python.rs and the\n"
            "   dataclasses of hugr.model.  Do not edit. *)\n"
            "From Coq Require Import List String.\nImport ListNotations.\nOpen Scope string_scope.\n\n"
            "(* attribute names the Rust binding reads, per Python class (FromPyObject impls) *)\n"
            "Definition rs_reads : list (string * list string) := %s.\n\n"
            "(* classes the Rust binding constructs (IntoPyObject impls) *)\n"
            "Definition rs_built : list string := %s.\n\n"
            "(* dataclass fields of hugr.model *)\n"
            "Definition py_fields : list (string * list string) := %s.\n"
            % (tab(sorted(reads.items())), glist(gstring(c) for c in built), tab(fields)))


# ----------------------------------------------------------------------------- the property

class C12(fw.Prop):
    id = "C12"
    props_file = "props/C12.v"
    run_file = "run/C12Run.v"
    run_module = "run.C12Run"
    shard = 12
    rule = ("module-rooted HUGRs built by generated well-formed builder programs (harness/progs.py, root=module: "
            "declared/defined/polymorphic functions called and loaded several times, module-level and local "
            "constants incl. function values, order edges (forward ones from the generator; in half of the cases the harness "
            "adds acyclic ones between unrelated siblings, mostly pointing backward), nested DFG/Conditional/TailLoop/"
            "CFG, metadata; in 40 % extra loads / calls of functions of the module incl. main and the enclosing "
            "function, in 35 % functions renamed to special / duplicate / mangled-looking names) plus explicit call-graph "
            "programs (1-5 declared / defined / polymorphic functions with special names, any function incl. main and "
            "itself called and loaded, also from nested regions; further ones with metadata statements between the "
            "others: on the node just added or on the enclosing function / nested DFG, through handle, builder, "
            "Hugr[node].metadata in place or rebound) plus, on 40 % of the generated modules, 1-6 metadata writes in "
            "every public way (handles, in place, rebinding Hugr[node].metadata) after the program was built, plus "
            "hand-written ones; Hugr.to_model() (and Package.to_model()) observed as the dataclass tree.  "
            "non-trivial = the HUGR has a static edge (call or load), an order edge between siblings and a "
            "nested container")
    trusted = ["harness/props/c12.py: walker of the hugr.model dataclass tree (fails closed on unknown metadata / "
               "classes); type, value and signature terms are compared as opaque payloads (repr of the term "
               "the public to_model() methods return)",
               "hugr.model string/bytes printing (native module) is outside the model"]
    assumptions = ["validity guard of the theorems (ExportS.valid_b, valid_order_b, order_ports_b, stars_b, "
                   "cfg_entries_b) evaluated per case; a generated module that does not meet it is reported as a "
                   "correspondence failure; coverage.input_distribution.guards counts, per guard, the cases that meet it"]

    def regenerate(self, ctx):
        reads, built = scan_python_rs(os.path.join(fw.REPO, "hugr-model", "src", "v0", "ast", "python.rs"))
        text = model_attrs_v(reads, built, model_fields())
        fw.write_if_changed(os.path.join(fw.COQ, "gen", "ModelAttrs.v"), text)
        ctx.stats["binding_classes"] = len(reads)
        return ["gen/ModelAttrs.v"]

    # -- cases
    def corpus(self, ctx):
        return [{"prog": n} for n in NAMED] + [{"prog": n, "valid": False} for n in BOUNDARY] + [
            {"prog": "call_twice", "package": True}]

    def generate(self, rng, tier, ctx):
        n = 260 if tier == "quick" else 3000
        cases = []
        for i in range(n):
            r = rng.random()
            c = {"seed": rng.randrange(1 << 30), "root": "module"}
            if r < 0.06:
                c["root"] = rng.choice(["dfg", "func", "cond", "cfg", "loop"])     # edge stream: not a module
                c["valid"] = False
            elif r < 0.12:
                c["package"] = True
            if c["root"] == "module" and rng.random() < 0.5:
                c["xorder"] = True           # extra order edges between unrelated siblings, also pointing backward
            if c["root"] == "module":
                # who applies whom, and what the functions are called (both decided from the case seed alone, so the
                # stream of programs is the one it was): main / the enclosing function applied, special names
                r2 = random.Random(c["seed"] ^ 0xC12)
                if r2.random() < 0.4:
                    c["xstatic"] = True
                if r2.random() < 0.35:
                    c["rename"] = True
                if r2.random() < 0.4:
                    c["xmeta"] = True        # metadata written in every public way after the program was built
            cases.append(c)
        # call graphs with special names (explicit programs; see gen_callgraph)
        for i in range(40 if tier == "quick" else 400):
            c = {"cg": gen_callgraph(rng)}
            if rng.random() < 0.1:
                c["package"] = True
            cases.append(c)
        # the same kind of call graphs with metadata statements (own generator: the stream above is the one it was)
        r3 = random.Random(rng.randrange(1 << 30) ^ 0x3E7A)
        for i in range(20 if tier == "quick" else 300):
            cases.append({"cg": add_meta_stmts(gen_callgraph(r3), r3)})
        return cases

    def build(self, case):
        self._meta_ways = {}
        if "prog" in case:
            return named_program(case["prog"]), case["prog"]
        if "cg" in case:
            def count(body):
                for st in body:
                    if st[0] == "meta":
                        self._meta_ways[st[1]] = self._meta_ways.get(st[1], 0) + 1
                    elif st[0] == "nest":
                        count(st[1])
            for f in case["cg"]["funcs"]:
                count(f.get("body", []))
            return build_callgraph(case["cg"]), "callgraph"
        kw = {}
        if "size" in case:
            kw["size"] = case["size"]
        if "depth" in case:
            kw["max_depth"] = case["depth"]
        p = progs.gen_program(random.Random(case["seed"]), case.get("root"), **kw)
        try:
            h = progs.run(p).hugr
            if case.get("xorder"):
                add_unrelated_order_edges(h, random.Random(case["seed"] ^ 0x5EED))
            if case.get("xstatic"):
                add_static_uses(h, random.Random(case["seed"] ^ 0x57A7))
            if case.get("rename"):
                special_names_pass(h, random.Random(case["seed"] ^ 0x4A3E))
            if case.get("xmeta"):
                self._meta_ways = metadata_pass(h, random.Random(case["seed"] ^ 0x3E7A))
            return h, p
        except TypeError:
            # generator artefact (a region that could not be completed): replaced by a fixed program
            return named_program("call_twice"), "call_twice(fallback)"

    def observe(self, case, ctx):
        self._ctx = ctx
        I = fw.Interner()
        try:
            h, p = self.build(case)
        except Exception as e:
            return {"error": "build:" + type(e).__name__, "prog": None}
        try:
            view = hugr_view(h, I)
            feats = name_features(h)
            feats["meta_ways"] = dict(getattr(self, "_meta_ways", {}))
        except HarnessError as e:
            return {"error": "view:" + str(e), "prog": p}
        try:
            if case.get("package"):
                from hugr.package import Package
                pk = Package([h]).to_model()
                m = pk.modules[0] if len(pk.modules) == 1 else None
            else:
                m = h.to_model()
            numbering, ignored, symlog = {}, [], []
            tree = model_tree(m, I, numbering, ignored, symlog)
            err = None
            # diagnostic only (the spelling of symbols is not prescribed): are the function symbols spelt as
            # model/ExportMangle.v: mangle spells them, "_<name>_<node index>"?
            from hugr import ops as _ops
            want = {"_%s_%d" % (h[n].op.f_name, n.idx) for n in h if isinstance(h[n].op, (_ops.FuncDefn, _ops.FuncDecl))}
            want |= {h[n].op.alias for n in h if isinstance(h[n].op, (_ops.AliasDecl, _ops.AliasDefn))}
            feats["symbols_as_modelled"] = set(symlog) == want
        except HarnessError as e:
            tree, err, numbering, ignored = None, "harness:" + str(e), {}, []
        except Exception as e:
            tree, err, numbering, ignored = None, type(e).__name__, {}, []
        return {"view": view, "tree": tree, "raised": err, "prog": p, "numbering": sorted(numbering.items()),
                "ignored_meta": sorted(set(ignored)), "names": feats}

    def literal(self, case, obs, ctx):
        if "error" in obs:
            # the HUGR could not be obtained: an empty non-module view with a failed export, claimed valid
            return "(CExport (mkH (HNode (mkN 0 KUnknown 0 0 (-1) 0 0 0 []) []) []) None true [])"
        return "(CExport %s %s %s %s)" % (g_view(obs["view"]),
                                          "None" if obs["tree"] is None else "(Some %s)" % g_region(obs["tree"]),
                                          gbool(case.get("valid", True)),
                                          glist("(%s, %s)" % (gN(a), gN(b)) for a, b in obs.get("numbering", [])))

    # -- classification
    def stats(self, obs):
        v = obs["view"]
        nodes, depth = [], [0]

        def walk(t, d):
            nodes.append(t["info"])
            depth[0] = max(depth[0], d)
            for c in t["ch"]:
                walk(c, d + 1)
        walk(v["tree"], 0)
        kinds = {}
        for i in nodes:
            kinds[i["kind"]] = kinds.get(i["kind"], 0) + 1
        par = {}

        def parents(t):
            for c in t["ch"]:
                par[c["info"]["idx"]] = t["info"]["idx"]
                parents(c)
        parents(v["tree"])
        order = [l for l in v["links"] if l[1] == -1]
        kind = {i["idx"]: i["kind"] for i in nodes}
        sib_order = [l for l in order if kind.get(l[0]) != "KInput" and kind.get(l[2]) != "KOutput"]
        return {"nodes": len(nodes), "depth": depth[0], "kinds": kinds, "order": len(order),
                "sib_order": len(sib_order), "back_order": sum(1 for l in sib_order if l[0] > l[2]),
                "links": len(v["links"])}

    def nontrivial(self, case, obs):
        if "error" in obs:
            return True
        s = self.stats(obs)
        k = s["kinds"]
        return (k.get("KCall", 0) + k.get("KLoadFunc", 0) + k.get("KLoadConst", 0) > 0 and s["sib_order"] > 0
                and s["depth"] >= 3 and k.get("KModule", 0) == 1)

    def describe(self, case, obs):
        o = {"raised": obs.get("raised"), "error": obs.get("error")}
        if "view" in obs:
            s = self.stats(obs)
            o.update({"nodes": s["nodes"], "links": s["links"], "order_edges": s["order"]})
            if obs.get("tree") is not None:
                o["module_children"] = len(obs["tree"]["ch"])
        return {"input": case, "program": obs.get("prog"), "observed": o}

    def signature(self, case, obs, ctx):
        if "error" in obs:
            return "export:" + obs["error"]
        if obs["tree"] is None:
            return "export:raises:" + str(obs["raised"]).split(":")[0]
        try:
            lit = self.literal(case, obs, ctx)
            res = fw.eval_cases(ctx.work, self.run_module, [lit], shard=1,
                                checks=("k1", "k2", "k3", "k4", "k5", "k6", "k7"), tag="sig%d" % random.randrange(1 << 30))
            names = {"k1": "regions", "k2": "ports", "k3": "link-names", "k4": "hyperedge", "k5": "symbols",
                     "k6": "order-hints", "k7": "metadata"}
            bad = [names[k] for k in sorted(res) if res[k]]
            return "export:clause:" + ",".join(bad) if bad else "export:differs"
        except Exception:
            return "unclassified"

    def shrink(self, case):
        # programs are regenerated from a seed: smaller generator settings (statements per region, nesting
        # depth) for the same and for neighbouring seeds; the driver keeps the first variant that still fails
        if "cg" in case:
            for cg in shrink_callgraph(case["cg"]):
                yield {**case, "cg": cg}
            return
        if "seed" not in case:
            return
        for flag in ("xorder", "rename", "xstatic", "package", "xmeta"):
            if case.get(flag):
                yield {k: v for k, v in case.items() if k != flag}
        size, depth = case.get("size", 6), case.get("depth", 3)
        for sz, dp in ((1, 1), (2, 1), (2, 2), (3, 2), (4, 2), (4, 3)):
            if (sz, dp) < (size, depth) and sz <= size and dp <= depth:
                for k in range(6):
                    yield {**case, "seed": case["seed"] + k, "size": sz, "depth": dp}

    def neighbours(self, case, rng):
        if "seed" in case:
            for k in range(40):
                yield {**case, "seed": case["seed"] + 1 + k}
        elif "cg" in case:
            for k in range(40):
                yield {**case, "cg": gen_callgraph(rng)}

    def distribution(self, cases, observations):
        d = {"nodes": [], "kinds": {}, "order_edges": 0, "sibling_order_edges": 0, "raised": {}, "packages": 0,
             "non_module_roots": 0, "stmt_kinds": {}, "callgraph_cases": 0,
             "names": {"cases_applying_main": 0, "cases_with_self_application": 0, "cases_with_duplicate_names": 0,
                       "cases_with_special_names": 0, "cases_with_names_like_mangled": 0, "applications": 0,
                       "applications_of_main": 0},
             "metadata": {"cases_with_metadata_written_after_creation": 0, "cases_with_rebound_metadata": 0,
                          "writes_by_way": {}, "exported_nodes_with_metadata": 0}}
        for c, o in zip(cases, observations):
            d["packages"] += bool(c.get("package"))
            d["callgraph_cases"] += "cg" in c
            if "view" not in o:
                continue
            nf, dn = o.get("names") or {}, d["names"]
            dn["cases_applying_main"] += nf.get("applied_main", 0) > 0
            dn["cases_with_self_application"] += nf.get("self_applied", 0) > 0
            dn["cases_with_duplicate_names"] += nf.get("dup_names", 0) > 0
            dn["cases_with_special_names"] += nf.get("special_names", 0) > 0
            dn["cases_with_names_like_mangled"] += nf.get("names_like_mangled", 0) > 0
            dn["applications"] += nf.get("applied", 0)
            dn["applications_of_main"] += nf.get("applied_main", 0)
            mw, dm = nf.get("meta_ways") or {}, d["metadata"]
            dm["cases_with_metadata_written_after_creation"] += bool(mw)
            dm["cases_with_rebound_metadata"] += any(w.startswith("rebind") for w in mw)
            for w, k in mw.items():
                dm["writes_by_way"][w] = dm["writes_by_way"].get(w, 0) + k
            if o.get("tree") is not None:
                def with_meta(r):
                    return sum(bool(n["meta"]) + sum(with_meta(x) for x in n["regs"]) for n in r["ch"])
                dm["exported_nodes_with_metadata"] += with_meta(o["tree"])
            if "symbols_as_modelled" in nf:
                sm = d.setdefault("symbols_spelt_as_modelled", [0, 0])
                sm[0] += bool(nf["symbols_as_modelled"])
                sm[1] += 1
            s = self.stats(o)
            d["nodes"].append(s["nodes"])
            for k, v in s["kinds"].items():
                d["kinds"][k] = d["kinds"].get(k, 0) + v
            d["order_edges"] += s["order"]
            d["sibling_order_edges"] += s["sib_order"]
            d["backward_sibling_order_edges"] = d.get("backward_sibling_order_edges", 0) + s["back_order"]
            d["non_module_roots"] += s["kinds"].get("KModule", 0) == 0
            if o.get("raised"):
                d["raised"][o["raised"]] = d["raised"].get(o["raised"], 0) + 1
            if o.get("prog") and not isinstance(o["prog"], str):
                for k, v in progs.kinds_of(o["prog"]).items():
                    d["stmt_kinds"][k] = d["stmt_kinds"].get(k, 0) + v
        ns = sorted(d["nodes"])
        d["nodes"] = {"min": ns[0], "median": ns[len(ns) // 2], "max": ns[-1]} if ns else {}
        d["guards"] = self.guard_counts(cases, observations)
        return d

    def guard_counts(self, cases, observations):
        """How many of this run's HUGRs meet the guard of which theorem: the guards of spec/ExportS.v evaluated in
        Coq on every case (g_hints = guard of C12_order_hints_complete_and_keyed, g_total = guard of
        C12_export_total, g_all = the monitor's guard, g_noerr = the model's export does not raise)."""
        ctx = getattr(self, "_ctx", None)
        if ctx is None or not cases:
            return {}
        try:
            lits = [self.literal(c, o, ctx) for c, o in zip(cases, observations)]
            res = fw.eval_cases(ctx.work, self.run_module, lits, shard=4 * self.shard, checks=GUARDS, tag="guards")
        except Exception as e:                                   # reported, never silently dropped
            return {"error": type(e).__name__ + ": " + str(e)[-300:]}
        claimed = {i for i, c in enumerate(cases) if c.get("valid", True)}
        out = {"cases": len(cases), "claimed_valid": len(claimed)}
        for g in GUARDS:
            bad = set(res[g])
            out[g[2:]] = {"all": len(cases) - len(bad), "of_claimed_valid": len(claimed - bad)}
        with_cfg = [i for i, o in enumerate(observations) if "view" in o and self.stats(o)["kinds"].get("KCFG", 0)]
        out["cases_with_cfg"] = len(with_cfg)
        out["cases_with_sibling_order_edge"] = sum(1 for o in observations if "view" in o and self.stats(o)["sib_order"] > 0)
        ctx.stats["first_use_numbers_exact"] = "%d/%d" % (out["numexact"]["of_claimed_valid"], len(claimed))
        # model drift, never a verdict: the unprescribed choices of the model (which nodes carry a key, one hint
        # per order link) and its behaviour outside the guard, compared with the implementation's
        ctx.stats["model_drift_strict_equal"] = "%d/%d" % (out["strict"]["of_claimed_valid"], len(claimed))
        ctx.stats["model_drift_outside_guard_agree"] = "%d/%d" % (
            out["outside_agree"]["all"] - out["all"]["all"], len(cases) - out["all"]["all"])
        ctx.stats["metadata_symbols_ignored"] = sorted({x for o in observations for x in o.get("ignored_meta", [])})
        ctx.stats["guard_total_met"] = "%d/%d" % (out["total"]["of_claimed_valid"], len(claimed))
        ctx.stats["guard_hints_met"] = "%d/%d" % (out["hints"]["of_claimed_valid"], len(claimed))
        return out


PROP = C12()
