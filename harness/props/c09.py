"""C09 — package envelopes (model: coq/model/Envelope.v)."""
import fw
from fw import gN, glist, gopt, gpair, gapp, gbool, gnat

LEVEL_OFFSET = 200000      # zstd levels can be negative; the model only needs "some level"


def gbytes(b):
    return glist(gN(x) for x in b)


def gout(o):
    return {"ok_same": "(OOk true)", "ok_diff": "(OOk false)", "ValueError": "OValueError",
            "ZstdError": "OZstdError", "DecodeError": "ODecodeError"}.get(o, "OOther")


NAMES = ["main", "f", "café", "λ_fn", "straße", "emoji_\U0001F600", "中文", "a b", ""]


def build_package(spec):
    """spec: {"modules": [[func names]], "exts": [[name, [type names], [op names], descr]]}"""
    from hugr import tys, ext
    from hugr.build.function import Module
    from hugr.package import Package
    mods = []
    for funcs in spec["modules"]:
        m = Module()
        for i, name in enumerate(funcs):
            f = m.define_function(name, [tys.Bool] * (i % 3))
            f.set_outputs(*f.inputs())
        mods.append(m.hugr)
    exts = []
    for name, tnames, onames, descr in spec["exts"]:
        e = ext.Extension(name, ext.Version(0, 1, len(tnames)))
        for t in tnames:
            e.add_type_def(ext.TypeDef(t, descr, [tys.TypeTypeParam(tys.TypeBound.Any)], ext.FromParamsBound([0])))
        for o in onames:
            e.add_op_def(ext.OpDef(o, ext.OpDefSig(tys.FunctionType([tys.Bool], [tys.Qubit])), descr, {"k": descr}))
        exts.append(e)
    return Package(mods, exts)


def docs(pkg):
    return ([m._to_serial().model_dump_json() for m in pkg.modules],
            [e._to_serial().model_dump_json() for e in pkg.extensions])


def rand_spec(rng):
    return {"modules": [[rng.choice(NAMES) for _ in range(rng.randint(0, 3))] for _ in range(rng.randint(0, 3))],
            "exts": [["ext%d.%s" % (i, rng.choice(["a", "bé"])), [rng.choice(["T", "Uü"]) for _ in range(rng.randint(0, 2))][:1],
                      [rng.choice(["op", "Ωp"]) for _ in range(rng.randint(0, 2))][:1], rng.choice(NAMES)]
                     for i in range(rng.randint(0, 2))]}


def classify(f, pkg_docs):
    import pyzstd
    try:
        p = f()
    except ValueError as e:
        import pydantic
        if isinstance(e, pydantic.ValidationError):
            return "DecodeError"
        if isinstance(e, UnicodeDecodeError):
            return "DecodeError"
        return "ValueError"
    except pyzstd.ZstdError:
        return "ZstdError"
    except Exception as e:
        return "Other:" + type(e).__name__
    try:
        return "ok_same" if docs(p) == pkg_docs else "ok_diff"
    except Exception as e:
        return "Other:" + type(e).__name__


class C09(fw.Prop):
    id = "C09"
    props_file = "props/C09.v"
    run_file = "run/C09Run.v"
    run_module = "run.C09Run"
    shard = 60
    rule = ("packages with 0..3 modules and 0..2 extensions (non-ASCII names/descriptions incl. Latin-1 and "
            "non-BMP), zstd levels None/0/1/3/19/22/-5/-50, to_bytes/to_str/from_bytes/from_str; mutated "
            "envelopes (truncations, magic/format/flag byte changes, flag bit flipped, payload swapped); "
            "EXHAUSTIVE run of EnvelopeHeader.from_bytes over all 2^16 (format, flags) pairs and every "
            "prefix of an envelope.  non-trivial = compressed, non-ASCII, empty package, or malformed input")
    trusted = ["zstd (pyzstd) and pydantic's JSON text codec are oracles: inverse laws are Section hypotheses of "
               "C09_envelope_roundtrip; their answers on each case (decompress succeeds, parsed documents equal "
               "the original's) are observed by the harness and fed to the model",
               "MODULE / MODULE_WITH_EXTS cannot be encoded offline (native hugr._hugr absent); decoding them "
               "is modelled (ValueError)"]

    def generate(self, rng, tier, ctx):
        cases = [{"kind": "sweep"}]
        n = 40 if tier == "quick" else 400
        levels = [None, 0, 1, 3, 19, 22, -5, -50]
        specs = [{"modules": [], "exts": []}, {"modules": [[]], "exts": []}, {"modules": [], "exts": [["e", [], [], ""]]},
                 {"modules": [["café", "emoji_\U0001F600"]], "exts": [["x.é", ["T"], ["Ωp"], "straße"]]}]
        specs += [rand_spec(rng) for _ in range(n)]
        for i, sp in enumerate(specs):
            for lvl in (levels if i < 4 else rng.sample(levels, 2)):
                cases.append({"kind": "make", "spec": sp, "zstd": lvl})
                cases.append({"kind": "read", "spec": sp, "zstd": lvl, "mut": ["none"]})
                cases.append({"kind": "readstr", "spec": sp, "zstd": lvl})
                for _ in range(2 if tier == "quick" else 4):
                    m = rng.choice([["trunc", rng.randint(0, 12)], ["byte", rng.randint(0, 7), rng.randint(0, 255)],
                                    ["byte", 8, rng.choice([0, 1, 2, 3, 62, 63, 64, 255, rng.randint(0, 255)])],
                                    ["byte", 9, rng.randint(0, 255)], ["flipz"], ["garbage", rng.randint(0, 30)]])
                    cases.append({"kind": "read", "spec": sp, "zstd": lvl, "mut": m})
            for f in ("JSON", "MODULE", "MODULE_WITH_EXTS"):
                cases.append({"kind": "str", "spec": sp, "fmt": f, "zstd": rng.choice(levels)})
            if i < 6 or rng.random() < 0.1:
                cases.append({"kind": "trunc", "spec": sp, "zstd": rng.choice(levels)})
        return cases

    def observe(self, case, ctx):
        import pyzstd
        from hugr.envelope import EnvelopeConfig, EnvelopeFormat, EnvelopeHeader, MAGIC_NUMBERS
        from hugr.package import Package
        import hugr._serialization.extension as ext_s
        k = case["kind"]
        if k == "sweep":
            acc, nve, nother = [], 0, 0
            for fb in range(256):
                for fl in range(256):
                    try:
                        h = EnvelopeHeader.from_bytes(MAGIC_NUMBERS + bytes([fb, fl]))
                        acc.append([fb, fl, h.format.value, bool(h.zstd)])
                    except ValueError:
                        nve += 1
                    except Exception:
                        nother += 1
            return {"accepted": acc, "nve": nve, "nother": nother}
        pkg = build_package(case["spec"])
        d = docs(pkg)
        cfg = EnvelopeConfig(format=EnvelopeFormat.JSON, zstd=case.get("zstd"))
        if k == "make":
            payload = pkg._to_serial().model_dump_json().encode("utf-8")
            comp = pyzstd.compress(payload, cfg.zstd) if cfg.zstd is not None else b""
            env = pkg.to_bytes(cfg)
            return {"payload": list(payload), "compressed": list(comp), "envelope": list(env)}
        if k == "str":
            cfg = EnvelopeConfig(format=EnvelopeFormat[case["fmt"]], zstd=case["zstd"])
            utf8 = True
            if case["fmt"] == "JSON":
                try:
                    pkg.to_bytes(cfg).decode("utf-8")
                except UnicodeDecodeError:
                    utf8 = False
            def f():
                s = pkg.to_str(cfg)
                assert s == pkg.to_bytes(cfg).decode("utf-8")
                return pkg
            return {"utf8": utf8, "obs": classify(f, d)}
        if k == "readstr":
            if cfg.zstd is not None:
                return {"skip": True}
            s = pkg.to_str(cfg)
            return {"obs": classify(lambda: Package.from_str(s), d), "input": list(s.encode("utf-8"))}
        if k == "trunc":
            env = pkg.to_bytes(cfg)[:40]
            lens, nve = [], 0
            for n in range(len(env) + 1):
                try:
                    EnvelopeHeader.from_bytes(env[:n])
                    lens.append(n)
                except ValueError:
                    nve += 1
            return {"envelope": list(env), "lens": lens, "nve": nve}
        if k == "read":
            env = bytearray(pkg.to_bytes(cfg))
            m = case["mut"]
            if m[0] == "trunc":
                env = env[:m[1]]
            elif m[0] == "byte":
                env[m[1]] = m[2]
            elif m[0] == "flipz":
                env[9] ^= 1
            elif m[0] == "garbage":
                env = bytearray(ctx_bytes(m[1]))
            env = bytes(env)
            body = env[10:]
            try:
                dec = pyzstd.decompress(body)
            except Exception:
                dec = None

            def parse(b):
                if b is None:
                    return None
                try:
                    p = ext_s.Package.model_validate_json(b).deserialize()
                    return docs(p) == d
                except Exception:
                    return None
            return {"input": list(env), "dec_ok": dec is not None, "pp": parse(body), "pd": parse(dec),
                    "obs": classify(lambda: Package.from_bytes(env), d)}
        raise AssertionError(k)

    def literal(self, case, obs, ctx):
        k = case["kind"]
        gz = lambda z: gopt(None if z is None else gN(z + LEVEL_OFFSET))
        gob = lambda x: gopt(None if x is None else gbool(x))
        if k == "sweep":
            return gapp("CSweep", glist(gpair(gN(a), gN(b), gpair(gN(c), gbool(z))) for a, b, c, z in obs["accepted"]),
                        gN(obs["nve"]), gN(obs["nother"]))
        if k == "make":
            return gapp("CMake", gz(case["zstd"]), gbytes(obs["payload"]), gbytes(obs["compressed"]), gbytes(obs["envelope"]))
        if k == "str":
            return gapp("CStr", case["fmt"], gz(case["zstd"]), gbool(obs["utf8"]), gout(obs["obs"]))
        if k == "trunc":
            return gapp("CTrunc", gbytes(obs["envelope"]), glist(gnat(n) for n in obs["lens"]), gnat(obs["nve"]))
        if k == "readstr":
            if obs.get("skip"):
                return gapp("CStr", "JSON", "None", "true", "(OOk true)")
            return gapp("CRead", "true", gbytes(obs["input"]), "false", "(Some true)", "None", gout(obs["obs"]))
        if k == "read":
            return gapp("CRead", gbool(case["mut"][0] == "none"), gbytes(obs["input"]), gbool(obs["dec_ok"]),
                        gob(obs["pp"]), gob(obs["pd"]), gout(obs["obs"]))

    def nontrivial(self, case, obs):
        if case["kind"] in ("sweep", "trunc"):
            return True
        if case.get("zstd") is not None or case.get("mut", ["none"])[0] != "none":
            return True
        s = case["spec"]
        txt = repr(s)
        return (not s["modules"] and not s["exts"]) or any(ord(c) > 127 for c in txt) or "\\u" in txt or "\\x" in txt

    def describe(self, case, obs):
        o = obs
        if isinstance(obs, dict):
            o = {k: (v if not isinstance(v, list) or len(v) < 40 else v[:40] + ["...(%d)" % len(v)]) for k, v in obs.items()}
        return {"input": case, "observed": o}

    def signature(self, case, obs, ctx):
        return "envelope:" + case["kind"] + ":" + str(case.get("mut", [""])[0])

    def distribution(self, cases, observations):
        d = {}
        for c, o in zip(cases, observations):
            key = c["kind"] + (":" + c["mut"][0] if "mut" in c else "")
            d.setdefault(key, {})
            ob = o.get("obs", "-") if isinstance(o, dict) else "-"
            d[key][ob] = d[key].get(ob, 0) + 1
        return d


def ctx_bytes(n):
    import random
    r = random.Random(n)
    return bytes(r.randrange(256) for _ in range(n))


PROP = C09()
