"""C09 — package envelopes (model: coq/model/Envelope.v)."""
import copy
import os

import fw
from fw import gN, glist, gopt, gpair, gapp, gbool, gnat
from translators import envelope_rs

LEVEL_OFFSET = 200000      # zstd levels can be negative; the model only needs "some level"


def gbytes(b):
    return glist(gN(x) for x in b)


def gout(o):
    return {"ok_same": "(OOk true)", "ok_diff": "(OOk false)", "ValueError": "OValueError",
            "ZstdError": "OZstdError", "DecodeError": "ODecodeError"}.get(o, "OOther")


NAMES = ["main", "f", "café", "λ_fn", "straße", "emoji_\U0001F600", "中文", "a b", ""]


PROG_KW = {"size": 3, "max_depth": 2}      # small builder programs (harness/progs.py) as modules / lowerings


def prog_hugr(seed):
    import random
    import progs
    return progs.run(progs.gen_program(random.Random(seed), "module", **PROG_KW)).hugr


def build_module(m):
    """m: [func names] (a module with those functions) | {"prog": seed} (a random builder program)"""
    from hugr import tys
    from hugr.build.function import Module
    if isinstance(m, dict):
        return prog_hugr(m["prog"])
    mod = Module()
    for i, name in enumerate(m):
        f = mod.define_function(name, [tys.Bool] * (i % 3))
        f.set_outputs(*f.inputs())
    return mod.hugr


def build_ext(x):
    """x: [name, [type names], [op names], descr] (round 1: one shape of type / operation definition), or a
    dict (round 3, a RICH extension): name, version [major, minor, patch, pre-release, build], reqs and a list
    of commands in the form of harness/props/c10.py (type definitions with explicit / from-params bounds and
    any parameters, operation definitions with signature only / binary only / both, descriptions, misc,
    values), an operation command optionally with "lower": [[extension names, module]] (lowering functions)."""
    from hugr import tys, ext
    if isinstance(x, dict):
        from props import c10
        e = c10.C10._new_ext(x)
        for c in x["cmds"]:
            o = c10.C10._new_obj(c)
            for names, m in c.get("lower", []) if c["c"] == "op" else []:
                o.lower_funcs.append(ext.FixedHugr(list(names), build_module(m)))
            c10.C10._add(e, c, o)
        return e
    name, tnames, onames, descr = x
    e = ext.Extension(name, ext.Version(0, 1, len(tnames)))
    for t in tnames:
        e.add_type_def(ext.TypeDef(t, descr, [tys.TypeTypeParam(tys.TypeBound.Any)], ext.FromParamsBound([0])))
    for o in onames:
        e.add_op_def(ext.OpDef(o, ext.OpDefSig(tys.FunctionType([tys.Bool], [tys.Qubit])), descr, {"k": descr}))
    return e


def build_package(spec):
    """spec: {"modules": [module (see build_module)], "exts": [extension (see build_ext)]}"""
    from hugr.package import Package
    return Package([build_module(m) for m in spec["modules"]], [build_ext(x) for x in spec["exts"]])


class ImplRaised(Exception):
    """An encoding step (or building the package) raised inside hugr-py: becomes an observation, never a crash."""
    def __init__(self, stage, exc):
        Exception.__init__(self, stage, type(exc).__name__)
        self.stage, self.cls = stage, type(exc).__name__


def impl(stage, f):
    try:
        return f()
    except Exception as e:             # every exception class is an observation
        raise ImplRaised(stage, e)


class NotAvailable(Exception):
    """Nothing the property speaks about can be observed for this case in this implementation (the package could
    not be built through the builder API, a default configuration that cannot be encoded offline ...): the case
    is skipped (CSkip), visibly in the evidence's input distribution, never a verdict."""


def outside(stage, f):
    """Runs a step that is NOT an envelope operation (building / changing the package with the builder API):
    a failure there is not this property's business."""
    try:
        return f()
    except Exception as e:
        raise NotAvailable("%s raised %s" % (stage, type(e).__name__))


MAGIC = b"HUGRiHJv"                    # the documented magic number (coq/model/Envelope.v: MAGIC)


def json_config(z):
    from hugr.envelope import EnvelopeConfig, EnvelopeFormat
    return EnvelopeConfig(format=EnvelopeFormat.JSON, zstd=z)


def default_config(how):
    """The configuration Package.to_bytes() / to_str() use when none is given, read from the public presets
    EnvelopeConfig.BINARY / TEXT: (format name, zstd) or None when it cannot be read.  The property prescribes no
    default; this is only used to decide whether a default call that RAISED was a JSON configuration (then it
    is judged like any other) or something that cannot be encoded here (then: not available)."""
    try:
        from hugr.envelope import EnvelopeConfig
        c = EnvelopeConfig.TEXT if how == "str" else EnvelopeConfig.BINARY
        return (c.format.name, c.zstd)
    except Exception:
        return None


def default_judged(how):
    """Is a default call that raised judged as a failure?  Only when the preset is known to be a JSON
    configuration (for text: an uncompressed one — no text encoding of a compressed envelope exists)."""
    dc = default_config(how)
    return dc is not None and dc[0] == "JSON" and (how != "str" or dc[1] is None)


class native_stand_in:
    """The formats MODULE / MODULE_WITH_EXTS are written by the native module hugr._hugr, which cannot be built
    here.  While `to_str` is observed for such a format a stand-in for its binary package encoder is installed
    (only if the real one is absent; removed afterwards), so that an implementation that OFFERS text encoding for
    a format that is not ASCII-printable returns a string instead of failing on the missing module.  If the
    stand-in cannot be installed (module layout changed) nothing happens: the call then fails on the way and is
    counted as "no text encoding", which can only make the check more lenient, never alarm."""
    def __init__(self, wanted):
        self.wanted, self.mod = wanted, None

    def __enter__(self):
        if self.wanted:
            try:
                import importlib
                mod = importlib.import_module("hugr._hugr")
                if not hasattr(mod, "package_to_bytes"):
                    mod.package_to_bytes = lambda package: b"stand-in for the capnp bytes"
                    self.mod = mod
            except Exception:
                self.mod = None
        return self

    def __exit__(self, *a):
        if self.mod is not None:
            try:
                del self.mod.package_to_bytes
            except Exception:
                pass
        return False


def set_zstd(cfg, z):
    """One configuration object changed IN PLACE between two uses.  An implementation whose configurations
    refuse assignment (frozen dataclass, read-only property ...) does not have this kind of change: a changed
    configuration is then a new object (what dataclasses.replace / the constructor give)."""
    try:
        cfg.zstd = z
        if cfg.zstd == z:
            return cfg
    except Exception:
        pass
    return json_config(z)


def fresh_module(tag):
    from hugr import tys
    from hugr.build.function import Module
    m = Module()
    f = m.define_function("added_%s" % tag, [tys.Bool])
    f.set_outputs(*f.inputs())
    return m.hugr


def fresh_ext(tag):
    from hugr import ext
    return ext.Extension("added.x%s" % tag, ext.Version(1, 0, 0))


def apply_mut(pkg, mut, k):
    """One change of a package object through public API (k = position in the history, for fresh names).
    Total: an index is taken modulo the current length, a change that needs a module/extension when there
    is none appends one instead (so shrunk histories stay meaningful)."""
    from hugr import tys, ops, ext
    kind, idx = mut[0], (mut[1] if len(mut) > 1 else 0)
    mods, exts = pkg.modules, pkg.extensions
    if kind in ("meta", "addnode") and not mods:
        kind = "appmod"
    if kind in ("exttype", "extop") and not exts:
        kind = "appext"
    if kind == "meta":                 # metadata of a module root (non-ASCII value)
        h = mods[idx % len(mods)]
        h[h.root].metadata["note%d" % k] = "résumé_%d_\U0001F600" % k
    elif kind == "addnode":            # a module keeps being built after the package was made
        h = mods[idx % len(mods)]
        h.add_node(ops.FuncDecl("decl%d_é" % k, tys.PolyFuncType([], tys.FunctionType([tys.Bool], [tys.Qubit]))),
                   parent=h.root)
    elif kind == "appmod":
        mods.append(fresh_module(k))
    elif kind == "insmod":
        mods.insert(0, fresh_module(k))
    elif kind == "popmod":
        if mods:
            mods.pop(idx % len(mods))
        else:
            mods.append(fresh_module(k))
    elif kind == "revmods":            # order is part of the promise; a no-op on < 2 distinct modules
        if len(mods) < 2:
            mods.append(fresh_module(k))
        mods.reverse()
    elif kind == "appext":
        exts.append(fresh_ext(k))
    elif kind == "insext":
        exts.insert(0, fresh_ext(k))
    elif kind == "popext":
        if exts:
            exts.pop(idx % len(exts))
        else:
            exts.append(fresh_ext(k))
    elif kind == "exttype":            # an extension held by the package gets another type definition
        e = exts[idx % len(exts)]
        e.add_type_def(ext.TypeDef("Added%d" % k, "straße", [], ext.ExplicitBound(tys.TypeBound.Copyable)))
    elif kind == "extop":              # ... another operation definition: static signature AND binary flag
        e = exts[idx % len(exts)]
        e.add_op_def(ext.OpDef("AddedOp%d" % k, ext.OpDefSig(tys.FunctionType.endo([tys.Bool]), binary=True),
                               "größe", {"k%d" % k: [1.5, None, "ü"]}))
    else:
        raise AssertionError(mut)


MUT_KINDS = ["meta", "addnode", "appmod", "insmod", "popmod", "revmods", "appext", "insext", "popext", "exttype",
             "extop"]


def run_history(spec, steps, encode=True):
    """Builds the package of `spec` and performs `steps` on that ONE object.  steps: ["mut", kind, idx] |
    ["enc", how, cfgmode, zstd] with how in bytes/str/json, cfgmode in new/shared/default (shared: one
    EnvelopeConfig object whose zstd field is assigned before each use; default: no config argument).
    With encode=False the encodings are skipped (a fresh, never-encoded object with the same contents).
    Returns (package, result of the last encoding or None)."""
    import warnings
    pkg = outside("build", lambda: build_package(spec))
    shared = json_config(None)
    out = None
    for k, st in enumerate(steps):
        if st[0] == "mut":
            outside("mutate", lambda: apply_mut(pkg, st[1:], k))
            continue
        if not encode:
            continue
        _, how, mode, z = st
        if mode == "shared":
            shared = set_zstd(shared, z)
            cfg = (shared,)
        elif mode == "default":
            cfg = ()
        else:
            cfg = (json_config(z),)
        if how == "json":               # deprecated to_json: not an envelope, only primes whatever is cached
            try:
                with warnings.catch_warnings():
                    warnings.simplefilter("ignore")
                    pkg.to_json()
            except Exception:           # not part of the property (it may be removed): no verdict
                pass
            continue
        out = None
        try:
            out = impl("to_" + how, lambda: (pkg.to_bytes if how == "bytes" else pkg.to_str)(*cfg))
        except ImplRaised:
            # a default configuration that is not (known to be) a JSON one cannot be encoded offline (native
            # module absent): that step is not available; an explicit JSON configuration that raises is judged
            if mode != "default" or default_judged(how):
                raise
    return pkg, out


def step_zstd(st, env=None):
    """The compression of the configuration an encoding step used.  With an explicit configuration: its zstd
    field.  With NO configuration argument the property prescribes no default (EnvelopeConfig.BINARY / TEXT may
    be any configuration): the envelope itself says which was used — bit 0 of its flags byte — and header and
    payload are judged against that (level 0 stands for "some level")."""
    if st[2] == "default":
        if env is not None and len(env) >= 10 and env[9] & 1:
            return 0
        return None
    return None if st[1] != "bytes" else st[3]


def norm_steps(steps):
    """Histories end in an envelope encoding; to_str only uncompressed (compressed bytes are not text)."""
    steps = [list(s) for s in steps]
    for s in steps:
        if s[0] == "enc" and s[1] != "bytes":
            s[3] = None
    while steps and not (steps[-1][0] == "enc" and steps[-1][1] in ("bytes", "str")):
        steps.pop()
    return steps


def rand_history(rng, levels):
    steps = []
    for _ in range(rng.randint(2, 6)):
        if rng.random() < 0.5:
            steps.append(["mut", rng.choice(MUT_KINDS), rng.randint(0, 3)])
        else:
            steps.append(["enc", rng.choice(["bytes", "bytes", "str", "json"]),
                          rng.choice(["new", "shared", "default"]), rng.choice(levels)])
    steps.append(["enc", rng.choice(["bytes", "bytes", "str"]), rng.choice(["new", "shared", "default"]),
                  rng.choice(levels)])
    return norm_steps(steps)


def shrink_ext(x):
    """smaller variants of one extension description"""
    if not isinstance(x, dict):
        n, t, o, d = x
        for e2 in ([n, [], o, d] if t else None, [n, t, [], d] if o else None, [n, t, o, "f"] if d != "f" else None):
            if e2:
                yield e2
        return
    cmds = x["cmds"]
    for j in range(len(cmds)):
        yield dict(x, cmds=cmds[:j] + cmds[j + 1:])
    if x["reqs"]:
        yield dict(x, reqs=[])
    if x["version"][3] is not None or x["version"][4] is not None:
        yield dict(x, version=x["version"][:3] + [None, None])
    for j, c in enumerate(cmds):
        alts = []
        if c.get("lower"):
            alts.append(dict(c, lower=[]))
            alts += [dict(c, lower=c["lower"][:i] + [[[], []]] + c["lower"][i + 1:])
                     for i, l in enumerate(c["lower"]) if l != [[], []]]
        if c.get("descr"):
            alts.append(dict(c, descr=""))
        if c.get("misc"):
            alts.append(dict(c, misc={}))
        if c.get("params"):
            alts.append(dict(c, params=[], bound=["E", "A"]))
        if c["c"] == "op" and c.get("sig") is not None:
            sg = c["sig"]
            if sg["params"] or sg["in"] or sg["out"] or sg["reqs"]:
                alts.append(dict(c, sig={"params": [], "in": [], "out": [], "reqs": []}, func=True))
            if c.get("binary"):
                alts.append(dict(c, sig=None))
                alts.append(dict(c, binary=False))
        if c["c"] == "value" and c["val"] != ["true"]:
            alts.append(dict(c, val=["true"]))
        for c2 in alts:
            yield dict(x, cmds=cmds[:j] + [c2] + cmds[j + 1:])


def shrink_spec(sp):
    for i in range(len(sp["modules"])):
        yield {"modules": sp["modules"][:i] + sp["modules"][i + 1:], "exts": sp["exts"]}
        m = sp["modules"][i]
        if isinstance(m, dict):            # a builder program: only replaced by the bare module
            yield {"modules": sp["modules"][:i] + [[]] + sp["modules"][i + 1:], "exts": sp["exts"]}
            continue
        for j in range(len(m)):
            yield {"modules": sp["modules"][:i] + [m[:j] + m[j + 1:]] + sp["modules"][i + 1:], "exts": sp["exts"]}
            if m[j] != "f":
                yield {"modules": sp["modules"][:i] + [m[:j] + ["f"] + m[j + 1:]] + sp["modules"][i + 1:],
                       "exts": sp["exts"]}
    for i in range(len(sp["exts"])):
        yield {"modules": sp["modules"], "exts": sp["exts"][:i] + sp["exts"][i + 1:]}
        for e2 in shrink_ext(sp["exts"][i]):
            yield {"modules": sp["modules"], "exts": sp["exts"][:i] + [e2] + sp["exts"][i + 1:]}


def canon_ext_doc(js):
    """The document of an extension as compared by this check.  Runtime requirements are SETS in hugr-py
    (Extension.runtime_reqs is a set; add_op_def / the decoder rebuild a signature's requirements through a
    set), written as JSON arrays in the set's iteration order, which depends on the string hash seed and on
    the insertion history: the two set-valued arrays (the extension's and each operation signature's
    runtime_reqs) are compared as sorted arrays.  Everything else, including the order of object keys and of
    all other arrays, exactly as written."""
    import json
    try:
        d = json.loads(js)
    except Exception:                      # not JSON: compared as written
        return js
    try:
        d["runtime_reqs"] = sorted(d["runtime_reqs"])
        for o in d["operations"].values():
            if o.get("signature") is not None:
                b = o["signature"]["body"]
                b["runtime_reqs"] = sorted(b["runtime_reqs"])
    except Exception:                      # not the expected shape: no array is treated as a set
        d = json.loads(js)
    return canon_doc(d)


def canon_doc(d):
    """A JSON document as compared by this check: the VALUE (objects up to the order of their keys, arrays in
    order, numbers and strings as written), not the text — whitespace, separators and key order are not part of
    a document."""
    import json
    return json.dumps(d, ensure_ascii=False, sort_keys=True)


def canon_mod_doc(js):
    import json
    try:
        return canon_doc(json.loads(js))
    except Exception:
        return js


def docs(pkg):
    """The documents the modules and extensions of a package serialise to, in order, through the PUBLIC
    serialisers Hugr.to_json / Extension.to_json."""
    return ([canon_mod_doc(m.to_json()) for m in pkg.modules],
            [canon_ext_doc(e.to_json()) for e in pkg.extensions])


def ref_payload(pkg):
    """DIAGNOSTICS only: the payload text of the reference serialiser (private API; None when unavailable)."""
    try:
        return pkg._to_serial().model_dump_json().encode("utf-8")
    except Exception:
        return None


def rand_spec(rng):
    return {"modules": [[rng.choice(NAMES) for _ in range(rng.randint(0, 3))] for _ in range(rng.randint(0, 3))],
            "exts": [["ext%d.%s" % (i, rng.choice(["a", "bé"])), [rng.choice(["T", "Uü"]) for _ in range(rng.randint(0, 2))][:1],
                      [rng.choice(["op", "Ωp"]) for _ in range(rng.randint(0, 2))][:1], rng.choice(NAMES)]
                     for i in range(rng.randint(0, 2))]}


def prog_ok(seed, max_nodes):
    """harness/progs.py occasionally emits a program its interpreter cannot run; large ones are left to C02"""
    try:
        return len(prog_hugr(seed)) <= max_nodes
    except Exception:
        return False


def rand_prog(rng, max_nodes):
    for _ in range(20):
        seed = rng.randrange(10 ** 6)
        if prog_ok(seed, max_nodes):
            return {"prog": seed}
    return []


OP_BOTH = {"c": "op", "name": "Both", "descr": "signature and binary", "misc": {}, "binary": True, "func": True,
           "sig": {"params": [], "in": [["bool"]], "out": [["bool"]], "reqs": []}}


def rand_rich_ext(rng):
    """A rich extension: the contents generator of C10 (harness/props/c10.py: type definitions with explicit and
    from-params bounds over any parameters, operation definitions with polymorphic signature only / binary only /
    both, non-ASCII descriptions, misc JSON, values, requirement sets, pre-release and build versions), to
    which lowering functions are added, plus (half of the time) one operation of each signature shape so that
    every run has them."""
    from props import c10
    x = c10.rand_hist(rng)
    x = {"name": x["name"], "version": x["version"], "reqs": x["reqs"], "cmds": x["cmds"][:6]}
    if rng.random() < 0.5:
        names = rng.sample(c10.DEF_NAMES, 3)
        both = copy.deepcopy(OP_BOTH)
        shapes = [dict(both, name=names[0], descr=c10.rand_descr(rng)),
                  {"c": "op", "name": names[1], "descr": c10.rand_descr(rng), "misc": {}, "binary": True, "func": False,
                   "sig": None},
                  dict(copy.deepcopy(OP_BOTH), name=names[2], binary=False, func=rng.random() < 0.5)]
        for c in shapes:
            x["cmds"].insert(rng.randint(0, len(x["cmds"])), c)
    for c in x["cmds"]:
        if c["c"] == "op" and rng.random() < 0.3:
            c["lower"] = [[rng.sample(c10.EXT_NAMES, rng.randint(0, 2)),
                           rand_prog(rng, 8) if rng.random() < 0.5 else
                           [rng.choice(NAMES) for _ in range(rng.randint(0, 2))]]
                          for _ in range(rng.randint(1, 2))]
    return x


def rand_rich_spec(rng):
    mods = []
    for _ in range(rng.randint(0, 2)):
        mods.append(rand_prog(rng, 12) if rng.random() < 0.5 else [rng.choice(NAMES) for _ in range(rng.randint(0, 2))])
    exts = [rand_rich_ext(rng) for _ in range(rng.choice([1, 1, 2, 3]))]
    if rng.random() < 0.3:                 # mixed with the round-1 shape
        exts.insert(rng.randint(0, len(exts)), ["ext.bé", ["T"], ["Ωp"], rng.choice(NAMES)])
    return {"modules": mods, "exts": exts}


def is_rich(spec):
    return any(isinstance(x, dict) for x in spec["exts"]) or any(isinstance(m, dict) for m in spec["modules"])


def op_shapes(spec):
    """the signature shapes of the operation definitions a spec's rich extensions END UP holding (a later
    command of the same name replaces the earlier definition)"""
    out = []
    for x in spec["exts"]:
        if isinstance(x, dict):
            held = {}
            for c in x["cmds"]:
                if c["c"] == "op":
                    held[c["name"]] = ("sig+binary" if c["binary"] else "sig-only") if c["sig"] is not None else "binary-only"
                    if c.get("lower"):
                        held[c["name"]] += "+lower"
            out += list(held.values())
    return out


def drift(env, payload, z):
    """DIAGNOSTICS only, never part of a verdict: does the payload text in the envelope equal the harness' own
    reference serialisation (`_to_serial().model_dump_json()`), and does a compressed payload equal what
    pyzstd.compress(reference, level) produces here?  zstd and the JSON codec are oracles of the property: any
    zstd frame of any text that reads back as the same documents is a compressed payload (frames with a
    content checksum, another library version, other separators or key order … are all the same to it)."""
    import pyzstd
    body = bytes(env[10:])
    out = {}
    if payload is None:
        return out
    try:
        out["ref_text"] = (body if z is None else pyzstd.decompress(body)) == payload
    except Exception:
        out["ref_text"] = False
    if z is not None:
        try:
            out["ref_frame"] = body == pyzstd.compress(payload, z)
        except Exception:
            out["ref_frame"] = False
    return out


def classify(f, pkg_docs):
    """Outcome of a decoding: ok_same / ok_diff (documents compared), or the exception: "ValueError" for ANY
    instance of ValueError (the property promises the class ValueError; subclasses such as UnicodeDecodeError or
    pydantic's ValidationError are instances of it), "ZstdError", "Other:<class>" otherwise.  Apart from
    ValueError on input the header decoder must reject, exception classes are not part of any verdict."""
    import pyzstd
    try:
        p = f()
    except ValueError:
        return "ValueError"
    except pyzstd.ZstdError:
        return "ZstdError"
    except Exception as e:
        return "Other:" + type(e).__name__
    try:
        return "ok_same" if docs(p) == pkg_docs else "ok_diff"
    except Exception as e:
        return "Other:" + type(e).__name__


class C09(fw.Prop):
    id = "C09"
    props_file = "props/C09.v"
    run_file = "run/C09Run.v"
    run_module = "run.C09Run"
    shard = 60
    rule = ("packages with 0..3 modules and 0..2 extensions (non-ASCII names/descriptions incl. Latin-1 and "
            "non-BMP), zstd levels None/0/1/3/19/22/-5/-50, to_bytes/to_str/from_bytes/from_str; mutated "
            "envelopes (truncations, magic/format/flag byte changes, flag bit flipped, payload swapped); "
            "EXHAUSTIVE run of EnvelopeHeader.from_bytes over all 2^16 (format, flags) pairs and every "
            "prefix of an envelope (every exception class recorded); every truncation 0..14 of valid envelopes through "
            "Package.from_bytes (plain, compressed) and Package.from_str; histories on ONE package object / ONE "
            "config object (to_bytes/to_str/to_json, then metadata / node / module-list / extension-list / "
            "extension changes or a changed config, then encode again) whose last envelope is compared with a "
            "fresh never-encoded object of the same contents (header; payload judged by the oracles: decompresses iff "
            "compression was asked and reads back as the same documents — never byte-compared with a reference "
            "compressor / serialiser); packages with RICH extensions (contents generator "
            "of C10: type definitions with explicit / from-params bounds over any parameters, operation "
            "definitions with signature only / binary only / both, descriptions, misc JSON, values, requirement "
            "sets, pre-release and build versions; plus lowering functions) and builder-program modules through "
            "make / read (uncompressed and compressed) / readstr / damaged envelope / history; documents compared "
            "as JSON values with the two set-valued requirement arrays sorted; a call without configuration is judged "
            "against the configuration its envelope announces; to_str of the binary formats with a stand-in for the "
            "absent native encoder.  non-trivial = compressed, non-ASCII, empty "
            "package, malformed input, a history, or a rich package.  Outside the case stream (extra, judged by "
            "run.C09RustRun.rok in Coq): the constants scanned from header.rs and imported from hugr.envelope "
            "against the model's (8 checks = the constants theorems); EnvelopeHeader.from_bytes on the documented "
            "magic number + all 2^16 (format, flags) pairs, on every prefix of every header the documented writer "
            "writes and on headers with a changed magic byte, against the Rust reader transcribed over the scanned "
            "constants; EnvelopeHeader.to_bytes of every member x zstd against the documented writer")
    trusted = ["zstd (pyzstd) and pydantic's JSON text codec are oracles: inverse laws are Section hypotheses of "
               "C09_envelope_roundtrip; their answers on each case (decompress succeeds, parsed documents equal "
               "the original's) are observed by the harness and fed to the model",
               "MODULE / MODULE_WITH_EXTS cannot be encoded offline (native hugr._hugr absent); decoding them "
               "is modelled (ValueError)",
               "documented header as regenerated data: harness/translators/envelope_rs.py (fail-closed scanner of "
               "hugr-core/src/envelope/header.rs; placeholders on which the theorems fail when the file has another "
               "shape) and the hand transcription of EnvelopeHeader::read / ::write / from_repr over the scanned "
               "constants in coq/model/EnvelopeRustM.v (the Rust side cannot be built or run here); the table "
               "of names Model/MODULE, ModelWithExtensions/MODULE_WITH_EXTS, PackageJson/JSON is hand-written"]

    # -- regenerated data: the documented header (header.rs) and the module-level constants of hugr.envelope
    hdr = None

    def regenerate(self, ctx):
        paths, self.hdr = envelope_rs.regenerate(fw.REPO, fw.COQ)
        return [os.path.relpath(p, fw.VERIF) for p in paths]

    def extra(self, ctx, tier):
        return header_data_checks(self, ctx)

    def corpus(self, ctx):
        """Minimised triggers, run first on every run."""
        one = {"modules": [["f"]], "exts": []}
        bare = {"modules": [[]], "exts": []}
        empty = {"modules": [], "exts": []}
        cs = []
        # a header cut to 8 / 9 bytes (right magic, no flags / no format byte) is a ValueError, for every decoder
        cs.append({"kind": "trunc", "spec": bare, "zstd": None})
        for n in (8, 9):
            cs.append({"kind": "read", "spec": bare, "zstd": None, "mut": ["trunc", n]})
            cs.append({"kind": "readstr", "spec": bare, "zstd": None, "mut": ["trunc", n]})
        # an object that was encoded before and changed since encodes its CURRENT contents
        cs.append({"kind": "seq", "spec": one, "steps": [["enc", "bytes", "new", None], ["mut", "addnode", 0],
                                                         ["enc", "bytes", "new", None]]})
        cs.append({"kind": "seq", "spec": one, "steps": [["enc", "json", "new", None], ["mut", "appmod", 0],
                                                         ["enc", "str", "default", None]]})
        cs.append({"kind": "seq", "spec": empty, "steps": [["enc", "bytes", "shared", None], ["mut", "appext", 0],
                                                           ["enc", "bytes", "shared", 0]]})
        # (harmless-change round) no default configuration is prescribed: a call without configuration is judged
        # against what its envelope announces; a shared configuration object changed in place (or replaced, where
        # the implementation refuses assignment); text encoding is not offered for the binary formats (C09-e)
        cs.append({"kind": "seq", "spec": one, "steps": [["enc", "bytes", "default", None]]})
        cs.append({"kind": "seq", "spec": one, "steps": [["enc", "bytes", "shared", 0], ["enc", "bytes", "shared", None]]})
        cs.append({"kind": "str", "spec": empty, "fmt": "MODULE", "zstd": None})
        cs.append({"kind": "str", "spec": one, "fmt": "MODULE_WITH_EXTS", "zstd": None})
        cs.append({"kind": "str", "spec": one, "fmt": "JSON", "zstd": 0})
        # payloads zstd cannot shrink; Latin-1 / non-BMP text
        cs.append({"kind": "read", "spec": empty, "zstd": 0, "mut": ["none"]})
        cs.append({"kind": "read", "spec": {"modules": [["café"]], "exts": []}, "zstd": None, "mut": ["none"]})
        # (round 3) rich extensions.  An operation definition with BOTH a static signature and binary=True keeps
        # its flag through the decoder (seeded C09-f) ...
        both = {"modules": [], "exts": [{"name": "x", "version": [0, 1, 0, None, None], "reqs": [],
                                         "cmds": [copy.deepcopy(OP_BOTH)]}]}
        cs.append({"kind": "read", "spec": both, "zstd": None, "mut": ["none"]})
        cs.append({"kind": "readstr", "spec": both, "zstd": None})
        # ... and one extension with one of everything else a decoder could lose: pre-release + build version,
        # requirement set, explicit Copyable bound, from-params bound with repeated / unordered indices,
        # binary-only op, polymorphic signature with requirements, misc, non-ASCII description, lowering
        # functions (with extension names), a value
        full = {"name": "ext_é", "version": [1, 2, 3, "rc.2", "exp.sha.5114f85"], "reqs": ["q", "a.b.c"], "cmds": [
            {"c": "type", "name": "T", "descr": "dèscription ∀", "params": [], "bound": ["E", "C"]},
            {"c": "type", "name": "U", "descr": "", "params": [["type", "C"], ["nat", 7], ["list", ["type", "A"]]],
             "bound": ["F", [2, 0, 0]]},
            {"c": "op", "name": "Bin", "descr": "日本語", "misc": {}, "sig": None, "binary": True, "func": False},
            {"c": "op", "name": "Poly", "descr": "größe", "misc": {"k0": [1.5, None, {"é": "ü∀"}], "z1": 2 ** 70},
             "binary": False, "func": False,
             "sig": {"params": [["type", "A"], ["str"]], "in": [["var", 0, "A"], ["qubit"]],
                     "out": [["tuple", [["bool"], ["int", 5]]]], "reqs": ["foo.bar", "Zed"]},
             "lower": [[["ext_é", "a.b.c"], ["café"]], [[], []]]},
            {"c": "value", "name": "v", "val": ["tuple", [["true"], ["int", 7, 5], ["string", "日本語"]]]}]}
        cs.append({"kind": "read", "spec": {"modules": [["f"]], "exts": [full]}, "zstd": 0, "mut": ["none"]})
        cs.append({"kind": "seq", "spec": {"modules": [], "exts": [full]},
                   "steps": [["enc", "bytes", "new", None], ["mut", "extop", 0], ["enc", "str", "new", None]]})
        return cs

    def generate(self, rng, tier, ctx):
        cases = [{"kind": "sweep"}]
        n = 40 if tier == "quick" else 400
        levels = [None, 0, 1, 3, 19, 22, -5, -50]
        specs = [{"modules": [], "exts": []}, {"modules": [[]], "exts": []}, {"modules": [], "exts": [["e", [], [], ""]]},
                 {"modules": [["café", "emoji_\U0001F600"]], "exts": [["x.é", ["T"], ["Ωp"], "straße"]]}]
        specs += [rand_spec(rng) for _ in range(n)]
        for i, sp in enumerate(specs):
            for lvl in (levels if i < 4 else rng.sample(levels, 2)):
                cases.append({"kind": "make", "spec": sp, "zstd": lvl})
                cases.append({"kind": "read", "spec": sp, "zstd": lvl, "mut": ["none"]})
                cases.append({"kind": "readstr", "spec": sp, "zstd": lvl})
                for _ in range(2 if tier == "quick" else 4):
                    m = rng.choice([["trunc", rng.randint(0, 12)], ["byte", rng.randint(0, 7), rng.randint(0, 255)],
                                    ["byte", 8, rng.choice([0, 1, 2, 3, 62, 63, 64, 255, rng.randint(0, 255)])],
                                    ["byte", 9, rng.randint(0, 255)], ["flipz"], ["garbage", rng.randint(0, 30)]])
                    cases.append({"kind": "read", "spec": sp, "zstd": lvl, "mut": m})
            for f in ("JSON", "MODULE", "MODULE_WITH_EXTS"):
                lvl = rng.choice(levels)
                if f != "JSON" and i % 2 == 0:     # uncompressed: what an offered text encoding would return
                    lvl = None
                cases.append({"kind": "str", "spec": sp, "fmt": f, "zstd": lvl})
            if i < 6 or rng.random() < 0.1:
                cases.append({"kind": "trunc", "spec": sp, "zstd": rng.choice(levels)})
        # (round 2) every truncation 0 .. header + 4 of valid envelopes, through every decoder: Package.from_bytes
        # (plain and compressed), Package.from_str; plus truncations of envelopes whose format byte is another
        # known one (the decoder must still look at the length first)
        for sp in specs[:4] + specs[-2:]:
            for lvl in (None, 0):
                for cut in range(0, 15):
                    cases.append({"kind": "read", "spec": sp, "zstd": lvl, "mut": ["trunc", cut]})
            for cut in range(0, 15):
                cases.append({"kind": "readstr", "spec": sp, "zstd": None, "mut": ["trunc", cut]})
        for fb in (1, 2, 0):
            for cut in range(8, 12):
                cases.append({"kind": "read", "spec": specs[1], "zstd": None, "mut": ["fmtcut", fb, cut]})
        # (round 2) histories on one package object / one config object: encode, change, encode again
        nh = 60 if tier == "quick" else 600
        hspecs = specs[:4] + specs[4:][: max(8, nh // 6)]
        for kind in MUT_KINDS:                       # the minimal shape for every kind of change, each encoder
            for how, mode, z in (("bytes", "new", None), ("bytes", "shared", 0), ("str", "default", None)):
                cases.append({"kind": "seq", "spec": rng.choice(hspecs), "steps": norm_steps(
                    [["enc", rng.choice(["bytes", "str", "json"]), mode, None], ["mut", kind, rng.randint(0, 3)],
                     ["enc", how, mode, z]])})
        for _ in range(nh):
            cases.append({"kind": "seq", "spec": rng.choice(hspecs), "steps": rand_history(rng, levels)})
        # (round 3) packages with RICH extensions (and builder-program modules), appended last so that the streams
        # above are unchanged: encoded, decoded from bytes (uncompressed and one level) and from text, a damaged
        # envelope, and (every fourth) the encoder alone / a history on the one object
        nr = 30 if tier == "quick" else 240
        for i in range(nr):
            sp = rand_rich_spec(rng)
            lvl = rng.choice(levels[1:])
            cases.append({"kind": "read", "spec": sp, "zstd": None, "mut": ["none"]})
            cases.append({"kind": "read", "spec": sp, "zstd": lvl, "mut": ["none"]})
            cases.append({"kind": "read", "spec": sp, "zstd": lvl, "mut": rng.choice(
                [["flipz"], ["byte", 8, rng.choice([1, 2, 62])], ["trunc", rng.randint(0, 12)]])})
            if i % 2 == 0:
                cases.append({"kind": "readstr", "spec": sp, "zstd": None})
            if i % 4 == 1:
                cases.append({"kind": "make", "spec": sp, "zstd": rng.choice([None, lvl])})
            if i % 4 == 3:
                cases.append({"kind": "seq", "spec": sp, "steps": rand_history(rng, levels)})
        return cases

    # -- observation ------------------------------------------------------------------------------------
    def observe(self, case, ctx):
        try:
            return self.observe_inner(case, ctx)
        except ImplRaised as e:
            return {"raised": e.cls, "stage": e.stage}
        except NotAvailable as e:
            return {"skip": True, "why": str(e)}

    @staticmethod
    def oracle_obs(env, d):
        """The oracles' answers for the byte string `env`: does pyzstd decompress what follows the header; does
        the JSON codec read those bytes as they are (pp) / decompressed (pd) as a package with documents `d`.
        The codec is reached through the public decoder: the bytes behind a header written by the harness
        (magic, JSON, flags 0x40: "uncompressed JSON payload follows")."""
        import pyzstd
        from hugr.package import Package
        body = bytes(env[10:])
        try:
            dec = pyzstd.decompress(body)
        except Exception:
            dec = None

        def parse(b):
            if b is None:
                return None
            try:
                p = Package.from_bytes(MAGIC + bytes([63, 0x40]) + b)
                return docs(p) == d
            except Exception:
                return None
        return {"dec_ok": dec is not None, "pp": parse(body), "pd": parse(dec)}

    @classmethod
    def read_obs(cls, env, d, decode):
        """Oracle answers for the byte string `env` and the outcome class of decoding it."""
        r = cls.oracle_obs(env, d)
        r.update({"input": list(env), "obs": classify(decode, d)})
        return r

    def observe_inner(self, case, ctx):
        from hugr.envelope import EnvelopeConfig, EnvelopeFormat, EnvelopeHeader
        from hugr.package import Package
        k = case["kind"]
        if k == "sweep":
            acc, nve, others = [], 0, []
            for fb in range(256):
                for fl in range(256):
                    try:
                        h = EnvelopeHeader.from_bytes(MAGIC + bytes([fb, fl]))
                        acc.append([fb, fl, h.format.value, bool(h.zstd)])
                    except ValueError:
                        nve += 1
                    except Exception as e:
                        others.append([fb, fl, type(e).__name__])
            # diagnostic, no verdict: the model accepts every (known format, any flags) pair
            return {"accepted": acc, "nve": nve, "others": others,
                    "drift": {"sweep_768": len(acc) == 768 and not others}}
        if k == "seq":
            steps = case["steps"]
            last = steps[-1]
            assert last[0] == "enc" and last[1] in ("bytes", "str"), steps
            pkg, out = run_history(case["spec"], steps)
            if out is None:                 # the last encoding (no config argument) is not available here
                raise NotAvailable("default configuration %r cannot be encoded" % (default_config(last[1]),))
            # the reference: a fresh object with the same contents that was never encoded
            twin, _ = run_history(case["spec"], steps, encode=False)
            d = impl("twin", lambda: docs(twin))
            if last[1] == "str":
                env = out.encode("utf-8")
                r = self.read_obs(env, d, lambda: Package.from_str(out))
            else:
                env = bytes(out)
                r = self.read_obs(env, d, lambda: Package.from_bytes(env))
            z = step_zstd(last, env)
            dr = drift(env, ref_payload(twin), z)
            if last[2] == "default":        # diagnostic: the preset read from EnvelopeConfig agrees with the header
                dc = default_config(last[1])
                dr["default_preset"] = dc is not None and dc[0] == "JSON" and (dc[1] is not None) == (z is not None)
            r.update({"envelope": list(env), "zstd_used": z, "drift": dr})
            return r
        pkg = outside("build", lambda: build_package(case["spec"]))
        d = impl("docs", lambda: docs(pkg))
        cfg = json_config(case.get("zstd"))
        if k == "make":
            env = impl("to_bytes", lambda: pkg.to_bytes(cfg))
            r = self.oracle_obs(env, d)
            r.update({"envelope": list(env), "drift": drift(env, ref_payload(pkg), case.get("zstd"))})
            return r
        if k == "str":
            cfg = EnvelopeConfig(format=EnvelopeFormat[case["fmt"]], zstd=case["zstd"])
            # stage 1: to_str.  Raising = no text encoding (class recorded, prescribed nowhere).  The formats
            # that are not ASCII-printable need the native module, absent here: a stand-in for its binary
            # encoder is installed for the call, so that "refused" and "crashed on the way" can be told apart
            try:
                with native_stand_in(case["fmt"] != "JSON"):
                    s = pkg.to_str(cfg)
            except ValueError:
                return {"obs": "ValueError"}
            except Exception as e:
                return {"obs": "Other:" + type(e).__name__}
            if not isinstance(s, str):
                return {"obs": "Other:not-a-string"}
            # stage 2: a string came back: it is an encoding, and decodes to the same documents
            o = classify(lambda: Package.from_str(s), d)
            dr = {}
            try:
                dr["str_is_bytes"] = s == pkg.to_bytes(cfg).decode("utf-8")
            except Exception:
                pass
            return {"obs": "ok_same" if o == "ok_same" else "ok_diff", "decoded": o, "drift": dr}
        if k == "readstr":
            if cfg.zstd is not None:
                return {"skip": True}
            s = impl("to_str", lambda: pkg.to_str(cfg))
            m = case.get("mut", ["none"])
            if m[0] == "trunc":
                s = s[:m[1]]
            return self.read_obs(s.encode("utf-8"), d, lambda: Package.from_str(s))
        if k == "trunc":
            env = impl("to_bytes", lambda: pkg.to_bytes(cfg))[:40]
            lens, others, nve = [], [], 0
            for n in range(len(env) + 1):
                try:
                    EnvelopeHeader.from_bytes(env[:n])
                    lens.append(n)
                except ValueError:
                    nve += 1
                except Exception as e:           # any other class is an observation, not a crash
                    others.append([n, type(e).__name__])
            return {"envelope": list(env), "lens": lens, "others": others, "nve": nve}
        if k == "read":
            env = bytearray(impl("to_bytes", lambda: pkg.to_bytes(cfg)))
            m = case["mut"]
            if m[0] == "trunc":
                env = env[:m[1]]
            elif m[0] == "byte":
                env[m[1]] = m[2]
            elif m[0] == "fmtcut":
                env[8] = m[1]
                env = env[:m[2]]
            elif m[0] == "flipz":
                env[9] ^= 1
            elif m[0] == "garbage":
                env = bytearray(ctx_bytes(m[1]))
            env = bytes(env)
            return self.read_obs(env, d, lambda: Package.from_bytes(env))
        raise AssertionError(k)

    def literal(self, case, obs, ctx):
        k = case["kind"]
        gz = lambda z: gopt(None if z is None else gN(z + LEVEL_OFFSET))
        gob = lambda x: gopt(None if x is None else gbool(x))
        if "raised" in obs:
            return gapp("CRaised", gout("Other:" + obs["raised"]))
        if obs.get("skip"):
            return "CSkip"
        if k == "sweep":
            # at most 3 * 256 = 768 pairs have a known format byte: a longer list of accepted pairs (or of pairs
            # with another exception class) already contains an unknown format byte.  Such a list is cut to its
            # first 800 entries (a literal of 65536 entries takes coqc > 15 min); the cut list still fails the
            # monitor (the counts no longer add up to 65536), a list that passes is never cut
            cut = 800
            return gapp("CSweep", glist(gpair(gN(a), gN(b), gpair(gN(c), gbool(z))) for a, b, c, z in obs["accepted"][:cut]),
                        glist(gpair(gN(a), gN(b)) for a, b, _ in obs["others"][:cut]), gN(obs["nve"]))
        if k == "make":
            return gapp("CMake", gz(case["zstd"]), gbytes(obs["envelope"]), gbool(obs["dec_ok"]), gob(obs["pp"]), gob(obs["pd"]))
        if k == "str":
            return gapp("CStr", case["fmt"], gz(case["zstd"]), gout(obs["obs"]))
        if k == "trunc":
            return gapp("CTrunc", gbytes(obs["envelope"]), glist(gnat(n) for n in obs["lens"]),
                        glist(gnat(n) for n, _ in obs["others"]), gnat(obs["nve"]))
        if k == "readstr":
            return gapp("CRead", gbool(case.get("mut", ["none"])[0] == "none"), gbytes(obs["input"]),
                        gbool(obs["dec_ok"]), gob(obs["pp"]), gob(obs["pd"]), gout(obs["obs"]))
        if k == "read":
            return gapp("CRead", gbool(case["mut"][0] == "none"), gbytes(obs["input"]), gbool(obs["dec_ok"]),
                        gob(obs["pp"]), gob(obs["pd"]), gout(obs["obs"]))
        if k == "seq":
            # the configuration of the LAST encoding is the one judged (a default one: as the envelope says);
            # earlier default encodings have no influence on the model's last envelope
            last_i = len(case["steps"]) - 1
            hist = glist("HMut" if st[0] == "mut" else
                         gapp("HEnc", gbool(st[1] == "str"),
                              gz(obs["zstd_used"] if i == last_i else step_zstd(st)))
                         for i, st in enumerate(case["steps"]) if st[0] == "mut" or st[1] in ("bytes", "str"))
            return gapp("CSeq", hist, gbytes(obs["envelope"]),
                        gbool(obs["dec_ok"]), gob(obs["pp"]), gob(obs["pd"]), gout(obs["obs"]))

    def nontrivial(self, case, obs):
        if isinstance(obs, dict) and obs.get("skip"):
            return False
        if case["kind"] in ("sweep", "trunc", "seq"):
            return True
        if case.get("zstd") is not None or case.get("mut", ["none"])[0] != "none":
            return True
        s = case["spec"]
        txt = repr(s)
        return is_rich(s) or (not s["modules"] and not s["exts"]) or any(ord(c) > 127 for c in txt) or "\\u" in txt or "\\x" in txt

    def describe(self, case, obs):
        o = obs
        if isinstance(obs, dict):
            o = {k: (v if not isinstance(v, list) or len(v) < 40 else v[:40] + ["...(%d)" % len(v)]) for k, v in obs.items()}
        return {"input": case, "observed": o}

    def signature(self, case, obs, ctx):
        if isinstance(obs, dict) and "raised" in obs:
            return "envelope:" + case["kind"] + ":raised"
        if case["kind"] == "seq":
            return "envelope:seq:" + case["steps"][-1][1]
        return "envelope:" + case["kind"] + ":" + str(case.get("mut", [""])[0])

    def shrink(self, case):
        k = case["kind"]
        if k == "seq":
            st = case["steps"]
            for i in range(len(st) - 1):
                yield dict(case, steps=st[:i] + st[i + 1:])
            for i, x in enumerate(st):
                if x[0] == "enc" and (x[2] != "new" or x[3] is not None):
                    yield dict(case, steps=norm_steps(st[:i] + [[x[0], x[1], "new", None]] + st[i + 1:]))
                if x[0] == "mut" and x[2] != 0:
                    yield dict(case, steps=st[:i] + [[x[0], x[1], 0]] + st[i + 1:])
        if "spec" in case:
            for sp in shrink_spec(case["spec"]):
                yield dict(case, spec=sp)
        if k in ("make", "read", "readstr", "trunc") and case.get("zstd") not in (None, 0):
            yield dict(case, zstd=0)

    def distribution(self, cases, observations):
        d = {}
        for c, o in zip(cases, observations):
            key = c["kind"] + (":" + c["mut"][0] if "mut" in c else "")
            if c["kind"] == "seq":
                key = "seq:%d-steps:last=%s" % (len(c["steps"]), c["steps"][-1][1])
            if "spec" in c and is_rich(c["spec"]):
                key += "+rich"
                if c["kind"] in ("read", "readstr") and c.get("mut", ["none"])[0] == "none":
                    sh = d.setdefault("opdefs decoded from valid envelopes (rich)", {})
                    for x in op_shapes(c["spec"]):
                        sh[x] = sh.get(x, 0) + 1
            for dk, dv in (o.get("drift", {}) if isinstance(o, dict) else {}).items():
                df = d.setdefault("diagnostic only, no verdict: " +
                                  {"ref_text": "payload text equals the reference serialisation",
                                   "ref_frame": "zstd frame equals the reference compressor's bytes",
                                   "sweep_768": "header decoder accepts exactly the 768 (known format, any flags) pairs",
                                   "str_is_bytes": "to_str equals to_bytes decoded as UTF-8",
                                   "default_preset": "envelope of a call without configuration agrees with the "
                                                     "preset EnvelopeConfig.BINARY / TEXT"}[dk], {})
                df[str(dv)] = df.get(str(dv), 0) + 1
            if isinstance(o, dict) and o.get("skip"):
                sk = d.setdefault("skipped (not available in this implementation), no verdict", {})
                why = o.get("why", "text encoding of a compressed configuration (covered by the str stream)")
                sk[why] = sk.get(why, 0) + 1
            d.setdefault(key, {})
            ob = o.get("obs", o.get("raised", "-")) if isinstance(o, dict) else "-"
            d[key][ob] = d[key].get(ob, 0) + 1
        return d


# ---------------------------------------------------------------------------------------------------------
# (deepening) the documented header as regenerated data.  The verdicts come from Coq: `rok` of
# coq/run/C09RustRun.v evaluates (RData) the boolean content of each constants theorem of props/C09.v on the
# regenerated constants and (RRow / RHdr / RWrite) compares what hugr-py's EnvelopeHeader really does with the
# Rust reader / writer transcribed in Gallina over the scanned constants.  Python only describes a failure
# (which constant differs) and proposes byte strings, which Coq confirms.

# position in C09RustRun.data_checks -> (theorem of props/C09.v, what it compares)
DATA_CHECKS = [
    ("C09_rust_magic", "magic number: header.rs MAGIC_NUMBERS vs the model's MAGIC"),
    ("C09_rust_formats", "known formats and format bytes: enum EnvelopeFormat of header.rs vs the model's fmt_value"),
    ("C09_rust_ascii_printable", "ASCII-printable formats: fn ascii_printable of header.rs vs the model's"),
    ("C09_rust_flag_layout", "flags byte: base byte of EnvelopeHeader::write / zstd mask of ::read vs 0b01000000 / bit 0"),
    ("C09_rust_header_length", "field lengths read by EnvelopeHeader::read (and the stated length) vs 8 + 1 + 1 = 10"),
    ("C09_python_magic_is_rust", "magic number: hugr.envelope.MAGIC_NUMBERS vs header.rs"),
    ("C09_python_formats_are_rust", "EnvelopeFormat members of hugr.envelope vs enum EnvelopeFormat of header.rs"),
    ("C09_python_printable_are_rust", "ascii_printable() of the members of hugr.envelope.EnvelopeFormat vs header.rs"),
]
# the hand-written constants of coq/model/Envelope.v and the name table of coq/model/EnvelopeRustM.v, repeated
# here ONLY to say which constant differs in a replay file (Coq decides whether one does)
MODEL = {"magic": list(b"HUGRiHJv"), "flags_base": 64, "zstd_mask": 1, "lengths": [8, 1, 1], "header_len": 10,
         "formats": [("MODULE", "Model", 1, False), ("MODULE_WITH_EXTS", "ModelWithExtensions", 2, False),
                     ("JSON", "PackageJson", 63, True)]}


def describe_constants(k, info):
    """The differing constant(s) behind a failing data check, for the replay file."""
    r, p = info["rust"], info["python"]
    rf, pf = dict(r["formats"]), dict(p["formats"])
    out = []
    if k == 0:
        out.append({"constant": "MAGIC_NUMBERS", "header.rs": r["magic"], "model": MODEL["magic"]})
    elif k == 1:
        for pn, rn, v, _ in MODEL["formats"]:
            if rf.get(rn) != v:
                out.append({"constant": "EnvelopeFormat::" + rn, "header.rs": rf.get(rn), "model": v})
        for rn in rf:
            if rn not in [x[1] for x in MODEL["formats"]]:
                out.append({"constant": "EnvelopeFormat::" + rn, "header.rs": rf[rn], "model": None})
    elif k == 2:
        out.append({"constant": "ascii_printable", "header.rs": sorted(r["ascii_printable"]),
                    "model": sorted(x[1] for x in MODEL["formats"] if x[3])})
    elif k == 3:
        out.append({"constant": "flags base / zstd mask", "header.rs": [r["flags_base"], r["zstd_mask"]],
                    "model": [MODEL["flags_base"], MODEL["zstd_mask"]]})
    elif k == 4:
        out.append({"constant": "read lengths (magic, format, flags) / stated header length",
                    "header.rs": [r["magic_len"], r["format_len"], r["flags_len"], r["header_len_stated"]],
                    "model": MODEL["lengths"] + [MODEL["header_len"]]})
    elif k == 5:
        out.append({"constant": "MAGIC_NUMBERS", "envelope.py": p["magic"], "header.rs": r["magic"]})
    elif k == 6:
        for pn, rn, _, _ in MODEL["formats"]:
            if pf.get(pn) != rf.get(rn) or pn not in pf:
                out.append({"constant": "EnvelopeFormat.%s / EnvelopeFormat::%s" % (pn, rn),
                            "envelope.py": pf.get(pn), "header.rs": rf.get(rn)})
        for pn in pf:
            if pn not in [x[0] for x in MODEL["formats"]]:
                out.append({"constant": "EnvelopeFormat." + pn, "envelope.py": pf[pn], "header.rs": None})
        for rn in rf:
            if rn not in [x[1] for x in MODEL["formats"]]:
                out.append({"constant": "EnvelopeFormat::" + rn, "envelope.py": None, "header.rs": rf[rn]})
    elif k == 7:
        names = {x[0]: x[1] for x in MODEL["formats"]}
        out.append({"constant": "ascii_printable", "envelope.py": sorted(p["ascii_printable"]),
                    "header.rs": sorted(r["ascii_printable"]),
                    "names": {a: names.get(a) for a in p["ascii_printable"]}})
    return out


def py_header_obs(data):
    """EnvelopeHeader.from_bytes of hugr-py on one byte string: (format value, zstd) | None (ValueError);
    second component: the class name of any other exception"""
    from hugr.envelope import EnvelopeHeader
    try:
        h = EnvelopeHeader.from_bytes(bytes(data))
        return (h.format.value, bool(h.zstd)), None
    except ValueError:
        return None, None
    except Exception as e:
        return None, type(e).__name__


def g_rhdr(data, obs, other):
    return gapp("RHdr", gbytes(data), gopt(None if obs is None else gpair(gN(obs[0]), gbool(obs[1]))),
                gbool(other is not None))


def header_data_checks(P, ctx):
    info = P.hdr
    if info is None:
        return []
    rust = info["rust"]
    failed = [("hugr-core/src/envelope/header.rs", rust.get("error")), ("hugr.envelope", info["python"].get("error"))]
    failed = [(w, e) for w, e in failed if e]
    if failed:
        # fail closed: placeholders were written, the constants theorems do not hold on them
        return [("header-scan", "the translator of the documented header failed closed on %s: %s; the constants theorems "
                 "(C09_rust_* / C09_python_*) of coq/props/C09.v are not proved on this run" % (w, e),
                 {"signature": "envelope:data:scan", "source": w, "error": e}) for w, e in failed]
    ok, log = fw.coq_build(["run/C09RustRun.vo"])
    if not ok:
        return [("header-data", "coq/run/C09RustRun.v does not build on the regenerated constants",
                 {"signature": "envelope:data:build", "log": log[-1500:]})]
    from hugr.envelope import EnvelopeHeader, EnvelopeFormat
    rmagic = bytes(rust["magic"])
    lits, meta = [], []
    for k in range(len(DATA_CHECKS)):
        lits.append(gapp("RData", gnat(k)))
        meta.append(("data", k))
    # hugr-py's decoder on the documented magic number followed by every (format, flags) pair, row by row
    rows = {}
    for fb in range(256):
        acc, nve, nother = [], 0, 0
        for fl in range(256):
            o, other = py_header_obs(rmagic + bytes([fb, fl]))
            if other is not None:
                nother += 1
            elif o is None:
                nve += 1
            else:
                acc.append((fl, o))
        rows[fb] = acc
        lits.append(gapp("RRow", gN(fb), glist(gpair(gN(fl), gpair(gN(v), gbool(z))) for fl, (v, z) in acc),
                         gN(nve), gN(nother)))
        meta.append(("row", fb))
    # single byte strings: every prefix of every header the documented writer writes (+ 2 payload bytes), the
    # same with one magic byte changed, and every header hugr-py writes
    singles = []
    for name, _ in rust["formats"]:
        for z in (False, True):
            w = envelope_rs.rust_write(rust, name, z) + b"{}"
            singles += [w[:n] for n in range(len(w) + 1)]
            for i in (0, len(rmagic) - 1):
                singles.append(w[:i] + bytes([w[i] ^ 1]) + w[i + 1:])
    py_written = {}
    for pn, member in EnvelopeFormat.__members__.items():
        for z in (False, True):
            try:
                wb = EnvelopeHeader(format=member, zstd=z).to_bytes()
            except Exception as e:
                wb = None
                lits.append(g_rhdr(b"", None, type(e).__name__))
                meta.append(("pywrite-raised", (pn, z, type(e).__name__)))
            if wb is not None:
                py_written[(pn, z)] = wb
                singles.append(bytes(wb) + b"[]")
    for d in singles:
        o, other = py_header_obs(d)
        lits.append(g_rhdr(d, o, other))
        meta.append(("hdr", (d, o, other)))
    # the header hugr-py writes for each format of the name table vs the documented writer
    for pn, rn, _, _ in MODEL["formats"]:
        for z in (False, True):
            if (pn, z) in py_written:
                lits.append(gapp("RWrite", pn, gbool(z), gbytes(py_written[(pn, z)])))
                meta.append(("write", (pn, rn, z, py_written[(pn, z)])))
    res = fw.eval_cases(ctx.work, "run.C09RustRun", lits, shard=400, checks=("rok",), tag="hdrdata", case_type="rcase")
    failing = [meta[i] for i in res["rok"]]
    ctx.stats["header_data"] = {
        "scanned": {k: v for k, v in rust.items()}, "python": info["python"],
        "coq_checks": {"constants theorems": len(DATA_CHECKS), "format-byte rows (256 flag bytes each)": 256,
                       "single byte strings": len(singles), "written headers": len(py_written),
                       "failing": len(failing)}}
    if not failing:
        return []

    def doc_reader(d):
        r = envelope_rs.rust_read(rust, bytes(d))
        return "accepts as %s, zstd=%s" % (r[1], r[2]) if r[0] == "ok" else "rejects: " + r[1]

    def py_reader(o, other):
        if other is not None:
            return "raises " + other
        return "ValueError" if o is None else "accepts as format byte %d, zstd=%s" % o

    # concrete byte strings on which hugr-py and the documented reader / writer differ (confirmed by Coq)
    witnesses = []
    cand = []
    for kind, x in failing:
        if kind == "row":
            acc = dict(rows[x])
            for fl in list(range(64, 66)) + list(range(256)):
                d = rmagic + bytes([x, fl])
                r = envelope_rs.rust_read(rust, d)
                want = None if r[0] == "err" else (dict(rust["formats"])[r[1]], r[2])
                if acc.get(fl) != want:
                    cand.append(d)
                    break
            else:
                cand.append(rmagic + bytes([x, 64]))
    if cand:
        cl = []
        for d in cand:
            o, other = py_header_obs(d)
            cl.append((d, o, other))
        cres = fw.eval_cases(ctx.work, "run.C09RustRun", [g_rhdr(*c) for c in cl], shard=400, checks=("rok",),
                             tag="hdrwit", case_type="rcase")
        for i in cres["rok"]:
            d, o, other = cl[i]
            witnesses.append({"bytes": list(d), "text": repr(bytes(d)), "hugr_py EnvelopeHeader.from_bytes": py_reader(o, other),
                              "documented reader (header.rs)": doc_reader(d), "confirmed_in_coq": "run.C09RustRun.rok = false"})
    for kind, x in failing:
        if kind == "hdr":
            d, o, other = x
            witnesses.append({"bytes": list(d), "text": repr(bytes(d)), "hugr_py EnvelopeHeader.from_bytes": py_reader(o, other),
                              "documented reader (header.rs)": doc_reader(d), "confirmed_in_coq": "run.C09RustRun.rok = false"})
        elif kind == "write":
            pn, rn, z, wb = x
            try:
                doc = list(envelope_rs.rust_write(rust, rn, z))
            except KeyError:
                doc = None
            witnesses.append({"header of": "EnvelopeHeader(EnvelopeFormat.%s, zstd=%s).to_bytes()" % (pn, z),
                              "hugr_py": list(wb), "documented writer (header.rs)": doc,
                              "confirmed_in_coq": "run.C09RustRun.rok = false"})
        elif kind == "pywrite-raised":
            witnesses.append({"header of": "EnvelopeHeader(EnvelopeFormat.%s, zstd=%s).to_bytes()" % x[:2], "hugr_py": "raises " + x[2]})
    seen_w, uniq = set(), []
    for w in witnesses:
        key = repr(sorted(w.items()))
        if key not in seen_w:
            seen_w.add(key)
            uniq.append(w)
    witnesses = sorted(uniq, key=lambda w: (0, len(w["bytes"])) if "bytes" in w else (1, 0))
    out = []
    data_failed = [x for kind, x in failing if kind == "data"]
    for k in data_failed:
        thm, what = DATA_CHECKS[k]
        consts = describe_constants(k, info)
        out.append(("header-constant", "theorem %s of coq/props/C09.v no longer holds on the regenerated constants (%s)"
                    % (thm, what),
                    {"signature": "envelope:data:" + thm, "theorem": thm,
                     "failing_input": {"differing_constants": consts, "differing_headers": witnesses[:3]}}))
    if not data_failed:
        out.append(("header-behaviour", "hugr-py's EnvelopeHeader and the documented reader / writer (header.rs, transcribed "
                    "over the scanned constants) differ although every constant agrees",
                    {"signature": "envelope:documented-reader", "theorem": "C09_rust_reader_accepts_iff / C09_rust_write_is_model",
                     "failing_input": {"differing_headers": witnesses[:5]} if witnesses else None,
                     "failing_checks": [repr(f)[:200] for f in failing[:10]]}))
    return out


def ctx_bytes(n):
    import random
    r = random.Random(n)
    return bytes(r.randrange(256) for _ in range(n))


PROP = C09()
