"""C19 — shot results to register bitstrings (model: coq/model/Shots.v, spec: coq/spec/ShotsS.v)."""
import copy
import re

import fw
from fw import gZ, gN, glist, gopt, gpair, gapp, gbool, gnat

NAMES = ["a", "b", "c_1", "zz9", "Reg", "_s", "a[0]x", "a[]", "x y", "q["]
SENTINEL = "Ok [([(-1)%Z], [])]"


def gtag(s):
    return glist(gZ(ord(c)) for c in s)


def gdata(d):
    if isinstance(d, bool):
        return gapp("DPrim", gapp("PBool", gbool(d)))
    if isinstance(d, int):
        return gapp("DPrim", gapp("PInt", gZ(d)))
    if isinstance(d, float):
        return gapp("DPrim", "PFloat")
    if isinstance(d, list):
        return gapp("DList", glist(gdata(x) for x in d))
    raise TypeError(d)


def gentries(es):
    return glist(gpair(gtag(t), gdata(d)) for t, d in es)


def rand_tag(rng):
    r = rng.random()
    if r < 0.55:
        return rng.choice(NAMES[:4]) + "[%d]" % rng.choice([0, 0, 1, 1, 2, 3, 5, 9])
    if r < 0.85:
        return rng.choice(NAMES)
    if r < 0.9:
        return rng.choice(NAMES[:4]) + "[0%d]" % rng.randint(0, 3)       # leading zero
    return "".join(chr(rng.randint(32, 126)) for _ in range(rng.randint(0, 6)))


def rand_prim(rng, bad):
    r = rng.random()
    if r < bad:
        return rng.choice([2, -1, 0.0, 1.0, 0.5, 7])
    if r < bad + 0.25:
        return rng.random() < 0.5
    return rng.randint(0, 1)


def rand_data(rng, bad, nest=0.0):
    r = rng.random()
    if r < 0.5:
        return rand_prim(rng, bad)
    out = []
    for _ in range(rng.randint(0, 4)):
        if rng.random() < nest:
            out.append([rand_prim(rng, bad) for _ in range(rng.randint(0, 3))] if rng.random() < 0.7
                       else [[rand_prim(rng, bad)], []])
        else:
            out.append(rand_prim(rng, bad))
    return out


def rand_shot(rng, bad, nest=0.0, regs=None):
    n = rng.choice([0, 1, 2, 3, 4, 5, 6, 8])
    es = []
    for _ in range(n):
        t = rand_tag(rng) if regs is None else rng.choice(regs)
        d = rand_data(rng, bad, nest)
        if re.match(r"^[a-z]\w*\[\d+\]$", t) and isinstance(d, list) and rng.random() < 0.9:
            d = rand_prim(rng, bad)
        es.append([t, d])
    return es


# ---- observe-change-observe on ONE QsysResult object (kind "seq") --------------------------------------------
# A case is {"kind": "seq", "raw": bool, "shots": [...], "steps": [step, ...]}; a step is a dict with "op":
#   queries   qbits(i)  qstrings(sn, sl)  qcounts(sn, sl)  qcollate     ["scr": scribble on the returned object]
#   mutators  append(i, e, via)  setentry(i, j, e)  setdata(i, j, d)  delentry(i, j, via)  insentry(i, j, e)
#             setentries(i, es, via)  insshot(i, es, via)  delshot(i, via)  swap(i, j)
# An index out of range makes the step a no-op (it is then left out of the Gallina literal as well).
QUERIES = ("qbits", "qstrings", "qcounts", "qcollate")
SEQ_REGS = ["a", "b", "a[0]", "a[2]", "b[1]", "c_1[0]", "c_1"]


def rand_query(rng, nshots):
    r = rng.random()
    if r < 0.2:
        q = {"op": "qbits", "i": rng.randrange(max(1, nshots))}
    elif r < 0.55:
        q = {"op": "qstrings", "sn": rng.random() < 0.5, "sl": rng.random() < 0.5}
    elif r < 0.85:
        q = {"op": "qcounts", "sn": rng.random() < 0.5, "sl": rng.random() < 0.5}
    else:
        q = {"op": "qcollate"}
    return q


def rand_entry(rng, regs, bad):
    t = rng.choice(regs)
    d = rand_data(rng, bad)
    if re.match(r"^[a-z]\w*\[\d+\]$", t) and isinstance(d, list) and rng.random() < 0.9:
        d = rand_prim(rng, bad)
    return [t, d]


def rand_mut(rng, st, regs, bad):
    """One mutator step valid for the simulated state `st` (list of entry lists), which it updates (the simulation
    only serves to choose indices in range; it is not part of what is checked)."""
    n = len(st)
    nonempty = [i for i in range(n) if st[i]]
    r = rng.random()
    if n and r < 0.3:
        i = rng.randrange(n)
        e = rand_entry(rng, regs, bad)
        st[i] = st[i] + [e]
        return {"op": "append", "i": i, "e": e, "via": rng.choice(["method", "method", "entries"])}
    if nonempty and r < 0.4:
        i = rng.choice(nonempty)
        j = rng.randrange(len(st[i]))
        e = rand_entry(rng, regs, bad)
        st[i] = st[i][:j] + [e] + st[i][j + 1:]
        return {"op": "setentry", "i": i, "j": j, "e": e}
    if nonempty and r < 0.5:
        i = rng.choice(nonempty)
        j = rng.randrange(len(st[i]))
        t, old = st[i][j]
        if isinstance(old, list):
            d = [rand_prim(rng, bad) for _ in range(rng.choice([len(old), len(old), len(old) + 1, max(0, len(old) - 1)]))]
        else:
            d = rand_prim(rng, bad)
        st[i] = st[i][:j] + [[t, d]] + st[i][j + 1:]
        return {"op": "setdata", "i": i, "j": j, "d": d}
    if nonempty and r < 0.6:
        i = rng.choice(nonempty)
        j = rng.randrange(len(st[i]))
        st[i] = st[i][:j] + st[i][j + 1:]
        return {"op": "delentry", "i": i, "j": j, "via": rng.choice(["del", "pop"])}
    if n and r < 0.67:
        i = rng.randrange(n)
        j = rng.randrange(len(st[i]) + 1)
        e = rand_entry(rng, regs, bad)
        st[i] = st[i][:j] + [e] + st[i][j:]
        return {"op": "insentry", "i": i, "j": j, "e": e}
    if n and r < 0.8:
        i = rng.randrange(n)
        es = rand_shot(rng, bad, regs=regs)
        st[i] = es
        return {"op": "setentries", "i": i, "es": es, "via": rng.choice(["attr", "slice", "newshot"])}
    if n >= 2 and r < 0.87:
        i, j = rng.sample(range(n), 2)
        st[i], st[j] = st[j], st[i]
        return {"op": "swap", "i": i, "j": j}
    if n and r < 0.92:
        i = rng.randrange(n)
        del st[i]
        return {"op": "delshot", "i": i, "via": rng.choice(["del", "attr"])}
    i = rng.randrange(n + 1)
    es = rand_shot(rng, bad, regs=regs)
    st.insert(i, es)
    return {"op": "insshot", "i": i, "es": es, "via": rng.choice(["insert", "attr"])}


def rand_seq(rng):
    regs = rng.sample(SEQ_REGS, rng.randint(1, 4))
    bad = 0.0 if rng.random() < 0.7 else 0.04
    base = rand_shot(rng, 0.0, regs=regs)
    shots = []
    for _ in range(rng.choice([1, 2, 2, 3, 3, 4])):
        if rng.random() < 0.7:      # same shape: the strict queries succeed before the change
            shots.append([[t, (rand_prim(rng, 0.0) if not isinstance(d, list) else [rand_prim(rng, 0.0) for _ in d])]
                          for t, d in base])
        else:
            shots.append(rand_shot(rng, bad, regs=regs))
    st = copy.deepcopy(shots)
    focus = rand_query(rng, len(st))         # asked again and again, so that a remembered answer would be reused
    steps = []
    for _ in range(rng.randint(3, 9)):
        if rng.random() < 0.5:
            q = dict(focus) if rng.random() < 0.7 else rand_query(rng, len(st))
            if rng.random() < 0.4:
                q["scr"] = True
            steps.append(q)
        else:
            steps.append(rand_mut(rng, st, regs, bad))
    steps.append(dict(focus))
    return {"kind": "seq", "raw": rng.random() < 0.15, "shots": shots, "steps": steps}


def _tup(e):
    return (e[0], copy.deepcopy(e[1]))


def _scribble(op, ret):
    """Edits the object a query returned (the caller owns it); later answers must not be affected."""
    try:
        if op == "qbits":
            ret["__junk"] = "2"
        elif op == "qstrings":
            for l in list(ret.values()):
                l.append("2")
            ret["__junk"] = ["2"]
        elif op == "qcounts":
            for c in list(ret.values()):
                c["2"] += 3
            ret["__junk"] = type(next(iter(ret.values()), {}))()
        elif op == "qcollate":
            ret[(("__junk", "2"),)] += 2
    except Exception:
        pass


def run_seq(case, guard):
    """Executes the steps on one QsysResult built from case["shots"]; returns one item per step:
    None (mutator applied), "skip" (index out of range: nothing done) or the canonicalised answer of the query."""
    from hugr.qsystem.result import QsysShot, QsysResult
    if case.get("raw"):
        res = QsysResult([[_tup(e) for e in s] for s in case["shots"]])
    else:
        res = QsysResult([QsysShot([_tup(e) for e in s]) for s in case["shots"]])
    out = []

    def ask(call, canon):
        box = []

        def f():
            box.append(call())
            return canon(box[0])
        return guard(f), box
    for st in case["steps"]:
        op = st["op"]
        R = res.results
        i = st.get("i")
        if op in ("qstrings", "qcounts", "qcollate"):
            if op == "qstrings":
                o, box = ask(lambda: res.register_bitstrings(strict_names=st["sn"], strict_lengths=st["sl"]),
                             lambda d: [[r, list(l)] for r, l in d.items()])
            elif op == "qcounts":
                o, box = ask(lambda: res.register_counts(strict_names=st["sn"], strict_lengths=st["sl"]),
                             lambda d: [[r, sorted(c.items())] for r, c in d.items()])
            else:
                o, box = ask(lambda: res.collated_counts(),
                             lambda d: [[[list(p) for p in tp], n] for tp, n in d.items()])
            if st.get("scr") and box:
                _scribble(op, box[0])
            out.append(o)
            continue
        if op == "insshot":
            if not 0 <= i <= len(R):
                out.append("skip")
                continue
            new = QsysShot([_tup(e) for e in st["es"]])
            if st.get("via") == "attr":
                res.results = R[:i] + [new] + R[i:]
            elif i == len(R):
                R.append(new)
            else:
                R.insert(i, new)
            out.append(None)
            continue
        if op == "swap":
            j = st["j"]
            if not (0 <= i < len(R) and 0 <= j < len(R)):
                out.append("skip")
                continue
            R[i], R[j] = R[j], R[i]
            out.append(None)
            continue
        if not 0 <= i < len(R):
            out.append("skip")
            continue
        shot = R[i]
        if op == "qbits":
            o, box = ask(lambda: shot.to_register_bits(), lambda d: [[r, s] for r, s in d.items()])
            if st.get("scr") and box:
                _scribble(op, box[0])
            out.append(o)
            continue
        E = shot.entries
        if op == "delshot":
            if st.get("via") == "attr":
                res.results = R[:i] + R[i + 1:]
            else:
                del R[i]
        elif op == "append":
            if st.get("via") == "entries":
                E.append(_tup(st["e"]))
            else:
                shot.append(st["e"][0], copy.deepcopy(st["e"][1]))
        elif op == "setentries":
            new = [_tup(e) for e in st["es"]]
            if st.get("via") == "slice":
                E[:] = new
            elif st.get("via") == "newshot":
                R[i] = QsysShot(new)
            else:
                shot.entries = new
        elif op == "insentry":
            if not 0 <= st["j"] <= len(E):
                out.append("skip")
                continue
            E.insert(st["j"], _tup(st["e"]))
        else:
            j = st["j"]
            if not 0 <= j < len(E):
                out.append("skip")
                continue
            if op == "setentry":
                E[j] = _tup(st["e"])
            elif op == "setdata":
                old = E[j][1]
                if isinstance(old, list) and isinstance(st["d"], list):
                    old[:] = copy.deepcopy(st["d"])          # the list value is edited in place
                else:
                    E[j] = (E[j][0], copy.deepcopy(st["d"]))
            elif op == "delentry":
                if st.get("via") == "pop":
                    E.pop(j)
                else:
                    del E[j]
            else:
                raise AssertionError(op)
        out.append(None)
    return out



class C19(fw.Prop):
    id = "C19"
    props_file = "props/C19.v"
    run_file = "run/C19Run.v"
    run_module = "run.C19Run"
    shard = 400
    rule = ("generated shots over a small set of register names (so that whole-register and indexed writes "
            "to the same register interleave), values = ints 0/1, bools, non-bits (2, -1, floats), flat and "
            "nested lists; tags include non-matching look-alikes (upper-case start, trailing text, empty "
            "index, leading zeros, random printable ASCII); multi-shot results x 4 strictness flag "
            "combinations; collated counts with nested lists; sequences on ONE QsysResult object: queries "
            "(to_register_bits of a shot, register_bitstrings / register_counts with any flags, collated_counts, "
            "optionally editing the returned object) interleaved with every public way of changing it (shot.append, "
            "editing / replacing shot.entries, editing a list value in place, inserting / replacing / deleting / "
            "swapping shots), one query repeated throughout.  non-trivial = a register receives >=2 writes "
            "of which one is indexed, or a value is rejected, or (multi) shots differ in registers/lengths, or (sequence) a query is repeated after a change")
    trusted = ["tag alphabet is printable ASCII (Python's \\w, \\d are Unicode aware and '$' also matches "
               "before a trailing newline: such tags are outside the model and the generator)",
               "Counter objects are observed through their items()"]
    assumptions = ["tags are printable-ASCII strings; values are int/bool/float or (nested) lists of them"]

    def generate(self, rng, tier, ctx):
        k = 1 if tier == "quick" else 12
        cases = []
        for _ in range(300 * k):
            cases.append({"kind": "parse", "tag": rand_tag(rng) if rng.random() < 0.7 else
                          rng.choice(["a[12]", "a[12]]", "a[[1]", "aB_9[007]", "[1]", "a[1", "a1[1]", "é[1]"[1:], "a[-1]", "a[1 ]"])})
        for _ in range(700 * k):
            cases.append({"kind": "bits", "entries": rand_shot(rng, 0.04 if rng.random() < 0.8 else 0.3)})
        for _ in range(400 * k):
            regs = rng.sample(["a", "b", "a[0]", "a[2]", "b[1]", "c_1[0]", "c_1"], rng.randint(1, 4))
            shots = []
            base = rand_shot(rng, 0.0, regs=regs)
            for _ in range(rng.randint(0, 5)):
                r = rng.random()
                if r < 0.5:
                    shots.append([[t, (rand_prim(rng, 0.0) if not isinstance(d, list) else
                                       [rand_prim(rng, 0.0) for _ in d])] for t, d in base])   # same shape
                elif r < 0.8:
                    shots.append(rand_shot(rng, 0.02, regs=regs))
                else:
                    shots.append(rand_shot(rng, 0.02))
            cases.append({"kind": "multi", "sn": rng.random() < 0.5, "sl": rng.random() < 0.5, "shots": shots})
        for _ in range(300 * k):
            regs = rng.sample(NAMES[:5] + ["a[0]"], rng.randint(1, 3))
            shots = [rand_shot(rng, 0.03, nest=0.4, regs=regs) for _ in range(rng.randint(0, 4))]
            cases.append({"kind": "collate", "shots": shots})
        # observe - change - observe on one object (appended last: the streams above are unchanged)
        for _ in range(400 * k):
            cases.append(rand_seq(rng))
        return cases

    def corpus(self, ctx):
        # minimised triggers of the defects repaired by the fix: commits (known_findings.txt)
        return [
            {"kind": "bits", "entries": [["a[0]", 1], ["a", [0, 0]], ["a[0]", 1]]},
            {"kind": "bits", "entries": [["a", 2], ["a", 1]]},
            {"kind": "bits", "entries": [["a", True], ["b", [False, True]], ["c_1[1]", True]]},
            {"kind": "multi", "sn": True, "sl": False, "shots": [[["a", 1]], [["a", 1], ["b", 0]]]},
            {"kind": "multi", "sn": True, "sl": False, "shots": [[], [["a", 1]]]},
            {"kind": "multi", "sn": False, "sl": True, "shots": [[["a", [1, 0]]], [["b", 1]], [["a", 1]]]},
            {"kind": "bits", "entries": [["e", []], ["e[2]", 1]]},
            {"kind": "collate", "shots": [[["a[0]", True], ["zz9", 1]], [["zz9", 1], ["a[0]", 1]]]},   # same pairs, other tag order: two Counter keys
            {"kind": "collate", "shots": [[["a", [[0, 1], [1]]], ["a", 1]]]},
            # one object asked twice with a shot changed in between (seeded C19-h: answers remembered per flags and
            # number of shots): stale strings / counts, and a strictness violation introduced by the change
            {"kind": "seq", "raw": False, "shots": [[["c", [1, 0]]], [["c", [0, 0]]]], "steps": [
                {"op": "qstrings", "sn": False, "sl": False},
                {"op": "append", "i": 1, "e": ["c", [1, 1]], "via": "method"},
                {"op": "qstrings", "sn": False, "sl": False}]},
            {"kind": "seq", "raw": False, "shots": [[["d[1]", 1]], [["d[1]", 0]]], "steps": [
                {"op": "qcounts", "sn": True, "sl": True},
                {"op": "append", "i": 1, "e": ["d[2]", 1], "via": "method"},
                {"op": "qcounts", "sn": True, "sl": True},
                {"op": "append", "i": 0, "e": ["e", 1], "via": "entries"},
                {"op": "setentries", "i": 1, "es": [["d[1]", 1]], "via": "attr"},
                {"op": "qstrings", "sn": True, "sl": True}]},
            {"kind": "seq", "raw": True, "shots": [[["a", [0, 1]], ["b", 2]], [["a", [1, 1]]]], "steps": [
                {"op": "qstrings", "sn": False, "sl": False, "scr": True},
                {"op": "qcollate", "scr": True},
                {"op": "delentry", "i": 0, "j": 1, "via": "del"},
                {"op": "qstrings", "sn": False, "sl": False, "scr": True},
                {"op": "setdata", "i": 0, "j": 0, "d": [1, 1, 1]},
                {"op": "swap", "i": 0, "j": 1},
                {"op": "qstrings", "sn": False, "sl": False},
                {"op": "qbits", "i": 1, "scr": True},
                {"op": "qbits", "i": 1},
                {"op": "qcollate"}]},
        ]

    def observe(self, case, ctx):
        from hugr.qsystem.result import QsysShot, QsysResult, REG_INDEX_PATTERN
        k = case["kind"]

        def guard(f):
            try:
                return ["ok", f()]
            except ValueError:
                return ["ValueError"]
            except Exception as e:
                return ["Other:" + type(e).__name__]
        if k == "parse":
            m = re.match(REG_INDEX_PATTERN, case["tag"])
            return None if m is None else [m.groups()[0], int(m.groups()[1])]
        if k == "bits":
            return guard(lambda: [[r, s] for r, s in QsysShot([tuple(e) for e in case["entries"]]).to_register_bits().items()])
        if k == "multi":
            res = QsysResult([QsysShot([tuple(e) for e in s]) for s in case["shots"]])
            a = guard(lambda: [[r, l] for r, l in res.register_bitstrings(strict_names=case["sn"], strict_lengths=case["sl"]).items()])
            b = guard(lambda: [[r, sorted(c.items())] for r, c in res.register_counts(strict_names=case["sn"], strict_lengths=case["sl"]).items()])
            return [a, b]
        if k == "collate":
            res = QsysResult([QsysShot([tuple(e) for e in s]) for s in case["shots"]])
            return guard(lambda: [[[list(p) for p in tp], n] for tp, n in res.collated_counts().items()])
        if k == "seq":
            return run_seq(case, guard)
        raise AssertionError(k)

    def literal(self, case, obs, ctx):
        k = case["kind"]
        gs = lambda s: glist(gZ(ord(c)) for c in s)

        def gres(o, f):
            if o[0] == "ok":
                return gapp("Ok", f(o[1]))
            return "ValueError" if o[0] == "ValueError" else None
        if k == "parse":
            return gapp("CParse", gtag(case["tag"]), gopt(None if obs is None else gpair(gtag(obs[0]), gN(obs[1]))))
        if k == "bits":
            r = gres(obs, lambda l: glist(gpair(gtag(t), gs(s)) for t, s in l)) or "(" + SENTINEL + ")"
            return gapp("CBits", gentries(case["entries"]), r)
        if k == "multi":
            a = gres(obs[0], lambda l: glist(gpair(gtag(t), glist(gs(s) for s in ss)) for t, ss in l)) or "(Ok [([(-1)%Z], [])])"
            b = gres(obs[1], lambda l: glist(gpair(gtag(t), glist(gpair(gs(s), gnat(n)) for s, n in cs)) for t, cs in l)) or "(Ok [([(-1)%Z], [])])"
            return gapp("CMulti", gbool(case["sn"]), gbool(case["sl"]), glist(gentries(s) for s in case["shots"]), a, b)
        if k == "collate":
            r = gres(obs, lambda l: glist(gpair(glist(gpair(gtag(t), gs(s)) for t, s in tp), gnat(n)) for tp, n in l)) \
                or "(Ok [([([(-1)%Z], [])], 1%nat)])"
            return gapp("CCollate", glist(gentries(s) for s in case["shots"]), r)
        if k == "seq":
            ge = lambda e: gpair(gtag(e[0]), gdata(e[1]))
            steps = []
            for st, o in zip(case["steps"], obs):
                op = st["op"]
                if o == "skip":
                    continue
                if op == "qbits":
                    r = gres(o, lambda l: glist(gpair(gtag(t), gs(s)) for t, s in l)) or "(" + SENTINEL + ")"
                    q = gapp("QBits", gnat(st["i"]), r)
                elif op == "qstrings":
                    r = gres(o, lambda l: glist(gpair(gtag(t), glist(gs(s) for s in ss)) for t, ss in l)) or "(" + SENTINEL + ")"
                    q = gapp("QStrings", gbool(st["sn"]), gbool(st["sl"]), r)
                elif op == "qcounts":
                    r = gres(o, lambda l: glist(gpair(gtag(t), glist(gpair(gs(s), gnat(n)) for s, n in cs)) for t, cs in l)) \
                        or "(" + SENTINEL + ")"
                    q = gapp("QCounts", gbool(st["sn"]), gbool(st["sl"]), r)
                elif op == "qcollate":
                    r = gres(o, lambda l: glist(gpair(glist(gpair(gtag(t), gs(s)) for t, s in tp), gnat(n)) for tp, n in l)) \
                        or "(Ok [([([(-1)%Z], [])], 1%nat)])"
                    q = gapp("QCollate", r)
                else:
                    q = None
                if q is not None:
                    steps.append(gapp("SQuery", q))
                    continue
                i = gnat(st["i"])
                if op == "append":
                    m = gapp("MAppend", i, ge(st["e"]))
                elif op == "setentry":
                    m = gapp("MSetEntry", i, gnat(st["j"]), ge(st["e"]))
                elif op == "setdata":
                    m = gapp("MSetData", i, gnat(st["j"]), gdata(st["d"]))
                elif op == "delentry":
                    m = gapp("MDelEntry", i, gnat(st["j"]))
                elif op == "insentry":
                    m = gapp("MInsEntry", i, gnat(st["j"]), ge(st["e"]))
                elif op == "setentries":
                    m = gapp("MSetEntries", i, gentries(st["es"]))
                elif op == "insshot":
                    m = gapp("MInsShot", i, gentries(st["es"]))
                elif op == "delshot":
                    m = gapp("MDelShot", i)
                elif op == "swap":
                    m = gapp("MSwap", i, gnat(st["j"]))
                else:
                    raise AssertionError(op)
                steps.append(gapp("SMut", m))
            return gapp("CSeq", glist(gentries(s) for s in case["shots"]), glist(steps))

    def nontrivial(self, case, obs):
        k = case["kind"]
        if k == "parse":
            return obs is not None or "[" in case["tag"]
        if k == "bits":
            if obs[0] != "ok":
                return True
            seen = {}
            for t, d in case["entries"]:
                m = re.match(r"^([a-z]\w*)\[(\d+)\]$", t)
                r = m.group(1) if m else t
                seen.setdefault(r, []).append(bool(m))
            return any(len(v) >= 2 and any(v) for v in seen.values())
        if k == "multi":
            return len(case["shots"]) >= 2
        if k == "seq":
            # some query is repeated (same question) after an effective change of the object
            asked, changed = set(), set()
            for st, o in zip(case["steps"], obs):
                if st["op"] in QUERIES:
                    key = (st["op"], st.get("i"), st.get("sn"), st.get("sl"))
                    if key in changed:
                        return True
                    asked.add(key)
                elif o != "skip":
                    changed |= asked
            return False
        return any(len(s) >= 2 for s in case["shots"])

    def signature(self, case, obs, ctx):
        k = case["kind"]
        if k == "bits":
            vals = [d for _, d in case["entries"]]
            flat = [x for d in vals for x in (d if isinstance(d, list) else [d])]
            if obs[0] == "ok" and any(c not in "01" for _, s in obs[1] for c in s):
                return "shots:nonbit-chars"
            if any(isinstance(x, bool) for x in flat):
                return "shots:bits:bool"
            return "shots:bits"
        if k == "multi":
            return "shots:multi:" + ("sn" if case["sn"] else "") + ("sl" if case["sl"] else "")
        return "shots:" + k

    def shrink(self, case):
        k = case["kind"]
        if k == "bits":
            es = case["entries"]
            for i in range(len(es)):
                yield {**case, "entries": es[:i] + es[i + 1:]}
        elif k == "seq":
            stp, sh = case["steps"], case["shots"]
            for i in range(len(stp)):
                yield {**case, "steps": stp[:i] + stp[i + 1:]}
            for i in range(len(stp)):
                if stp[i].get("scr"):
                    yield {**case, "steps": stp[:i] + [{a: b for a, b in stp[i].items() if a != "scr"}] + stp[i + 1:]}
            for i in range(len(sh)):
                for j in range(len(sh[i])):
                    yield {**case, "shots": sh[:i] + [sh[i][:j] + sh[i][j + 1:]] + sh[i + 1:]}
            if case.get("raw"):
                yield {**case, "raw": False}
        elif k in ("multi", "collate"):
            sh = case["shots"]
            for i in range(len(sh)):
                yield {**case, "shots": sh[:i] + sh[i + 1:]}
            for i in range(len(sh)):
                for j in range(len(sh[i])):
                    yield {**case, "shots": sh[:i] + [sh[i][:j] + sh[i][j + 1:]] + sh[i + 1:]}

    def distribution(self, cases, observations):
        d = {}
        for c, o in zip(cases, observations):
            k = c["kind"]
            d.setdefault(k, {"n": 0, "value_errors": 0})
            d[k]["n"] += 1
            if k == "seq":
                d[k].setdefault("queries", 0)
                d[k].setdefault("mutations", 0)
                for st, so in zip(c["steps"], o):
                    if st["op"] in QUERIES:
                        d[k]["queries"] += 1
                        if so == ["ValueError"]:
                            d[k]["value_errors"] += 1
                    elif so != "skip":
                        d[k]["mutations"] += 1
                        d[k].setdefault("by_mutator", {})
                        d[k]["by_mutator"][st["op"]] = d[k]["by_mutator"].get(st["op"], 0) + 1
                continue
            oo = o[0] if k == "multi" else o
            if isinstance(oo, list) and oo and oo[0] == "ValueError":
                d[k]["value_errors"] += 1
        return d


PROP = C19()
