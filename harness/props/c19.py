"""C19 — shot results to register bitstrings (model: coq/model/Shots.v, spec: coq/spec/ShotsS.v)."""
import re

import fw
from fw import gZ, gN, glist, gopt, gpair, gapp, gbool, gnat

NAMES = ["a", "b", "c_1", "zz9", "Reg", "_s", "a[0]x", "a[]", "x y", "q["]
SENTINEL = "Ok [([(-1)%Z], [])]"


def gtag(s):
    return glist(gZ(ord(c)) for c in s)


def gdata(d):
    if isinstance(d, bool):
        return gapp("DPrim", gapp("PBool", gbool(d)))
    if isinstance(d, int):
        return gapp("DPrim", gapp("PInt", gZ(d)))
    if isinstance(d, float):
        return gapp("DPrim", "PFloat")
    if isinstance(d, list):
        return gapp("DList", glist(gdata(x) for x in d))
    raise TypeError(d)


def gentries(es):
    return glist(gpair(gtag(t), gdata(d)) for t, d in es)


def rand_tag(rng):
    r = rng.random()
    if r < 0.55:
        return rng.choice(NAMES[:4]) + "[%d]" % rng.choice([0, 0, 1, 1, 2, 3, 5, 9])
    if r < 0.85:
        return rng.choice(NAMES)
    if r < 0.9:
        return rng.choice(NAMES[:4]) + "[0%d]" % rng.randint(0, 3)       # leading zero
    return "".join(chr(rng.randint(32, 126)) for _ in range(rng.randint(0, 6)))


def rand_prim(rng, bad):
    r = rng.random()
    if r < bad:
        return rng.choice([2, -1, 0.0, 1.0, 0.5, 7])
    if r < bad + 0.25:
        return rng.random() < 0.5
    return rng.randint(0, 1)


def rand_data(rng, bad, nest=0.0):
    r = rng.random()
    if r < 0.5:
        return rand_prim(rng, bad)
    out = []
    for _ in range(rng.randint(0, 4)):
        if rng.random() < nest:
            out.append([rand_prim(rng, bad) for _ in range(rng.randint(0, 3))] if rng.random() < 0.7
                       else [[rand_prim(rng, bad)], []])
        else:
            out.append(rand_prim(rng, bad))
    return out


def rand_shot(rng, bad, nest=0.0, regs=None):
    n = rng.choice([0, 1, 2, 3, 4, 5, 6, 8])
    es = []
    for _ in range(n):
        t = rand_tag(rng) if regs is None else rng.choice(regs)
        d = rand_data(rng, bad, nest)
        if re.match(r"^[a-z]\w*\[\d+\]$", t) and isinstance(d, list) and rng.random() < 0.9:
            d = rand_prim(rng, bad)
        es.append([t, d])
    return es


class C19(fw.Prop):
    id = "C19"
    props_file = "props/C19.v"
    run_file = "run/C19Run.v"
    run_module = "run.C19Run"
    shard = 400
    rule = ("generated shots over a small set of register names (so that whole-register and indexed writes "
            "to the same register interleave), values = ints 0/1, bools, non-bits (2, -1, floats), flat and "
            "nested lists; tags include non-matching look-alikes (upper-case start, trailing text, empty "
            "index, leading zeros, random printable ASCII); multi-shot results x 4 strictness flag "
            "combinations; collated counts with nested lists.  non-trivial = a register receives >=2 writes "
            "of which one is indexed, or a value is rejected, or (multi) shots differ in registers/lengths")
    trusted = ["tag alphabet is printable ASCII (Python's \\w, \\d are Unicode aware and '$' also matches "
               "before a trailing newline: such tags are outside the model and the generator)",
               "Counter objects are observed through their items()"]
    assumptions = ["tags are printable-ASCII strings; values are int/bool/float or (nested) lists of them"]

    def generate(self, rng, tier, ctx):
        k = 1 if tier == "quick" else 12
        cases = []
        for _ in range(300 * k):
            cases.append({"kind": "parse", "tag": rand_tag(rng) if rng.random() < 0.7 else
                          rng.choice(["a[12]", "a[12]]", "a[[1]", "aB_9[007]", "[1]", "a[1", "a1[1]", "é[1]"[1:], "a[-1]", "a[1 ]"])})
        for _ in range(700 * k):
            cases.append({"kind": "bits", "entries": rand_shot(rng, 0.04 if rng.random() < 0.8 else 0.3)})
        for _ in range(400 * k):
            regs = rng.sample(["a", "b", "a[0]", "a[2]", "b[1]", "c_1[0]", "c_1"], rng.randint(1, 4))
            shots = []
            base = rand_shot(rng, 0.0, regs=regs)
            for _ in range(rng.randint(0, 5)):
                r = rng.random()
                if r < 0.5:
                    shots.append([[t, (rand_prim(rng, 0.0) if not isinstance(d, list) else
                                       [rand_prim(rng, 0.0) for _ in d])] for t, d in base])   # same shape
                elif r < 0.8:
                    shots.append(rand_shot(rng, 0.02, regs=regs))
                else:
                    shots.append(rand_shot(rng, 0.02))
            cases.append({"kind": "multi", "sn": rng.random() < 0.5, "sl": rng.random() < 0.5, "shots": shots})
        for _ in range(300 * k):
            regs = rng.sample(NAMES[:5] + ["a[0]"], rng.randint(1, 3))
            shots = [rand_shot(rng, 0.03, nest=0.4, regs=regs) for _ in range(rng.randint(0, 4))]
            cases.append({"kind": "collate", "shots": shots})
        return cases

    def corpus(self, ctx):
        # minimised triggers of the defects repaired by the fix: commits (known_findings.txt)
        return [
            {"kind": "bits", "entries": [["a[0]", 1], ["a", [0, 0]], ["a[0]", 1]]},
            {"kind": "bits", "entries": [["a", 2], ["a", 1]]},
            {"kind": "bits", "entries": [["a", True], ["b", [False, True]], ["c_1[1]", True]]},
            {"kind": "multi", "sn": True, "sl": False, "shots": [[["a", 1]], [["a", 1], ["b", 0]]]},
            {"kind": "multi", "sn": True, "sl": False, "shots": [[], [["a", 1]]]},
            {"kind": "multi", "sn": False, "sl": True, "shots": [[["a", [1, 0]]], [["b", 1]], [["a", 1]]]},
            {"kind": "bits", "entries": [["e", []], ["e[2]", 1]]},
            {"kind": "collate", "shots": [[["a[0]", True], ["zz9", 1]], [["zz9", 1], ["a[0]", 1]]]},   # same pairs, other tag order: two Counter keys
            {"kind": "collate", "shots": [[["a", [[0, 1], [1]]], ["a", 1]]]},
        ]

    def observe(self, case, ctx):
        from hugr.qsystem.result import QsysShot, QsysResult, REG_INDEX_PATTERN
        k = case["kind"]

        def guard(f):
            try:
                return ["ok", f()]
            except ValueError:
                return ["ValueError"]
            except Exception as e:
                return ["Other:" + type(e).__name__]
        if k == "parse":
            m = re.match(REG_INDEX_PATTERN, case["tag"])
            return None if m is None else [m.groups()[0], int(m.groups()[1])]
        if k == "bits":
            return guard(lambda: [[r, s] for r, s in QsysShot([tuple(e) for e in case["entries"]]).to_register_bits().items()])
        if k == "multi":
            res = QsysResult([QsysShot([tuple(e) for e in s]) for s in case["shots"]])
            a = guard(lambda: [[r, l] for r, l in res.register_bitstrings(strict_names=case["sn"], strict_lengths=case["sl"]).items()])
            b = guard(lambda: [[r, sorted(c.items())] for r, c in res.register_counts(strict_names=case["sn"], strict_lengths=case["sl"]).items()])
            return [a, b]
        if k == "collate":
            res = QsysResult([QsysShot([tuple(e) for e in s]) for s in case["shots"]])
            return guard(lambda: [[[list(p) for p in tp], n] for tp, n in res.collated_counts().items()])
        raise AssertionError(k)

    def literal(self, case, obs, ctx):
        k = case["kind"]
        gs = lambda s: glist(gZ(ord(c)) for c in s)

        def gres(o, f):
            if o[0] == "ok":
                return gapp("Ok", f(o[1]))
            return "ValueError" if o[0] == "ValueError" else None
        if k == "parse":
            return gapp("CParse", gtag(case["tag"]), gopt(None if obs is None else gpair(gtag(obs[0]), gN(obs[1]))))
        if k == "bits":
            r = gres(obs, lambda l: glist(gpair(gtag(t), gs(s)) for t, s in l)) or "(" + SENTINEL + ")"
            return gapp("CBits", gentries(case["entries"]), r)
        if k == "multi":
            a = gres(obs[0], lambda l: glist(gpair(gtag(t), glist(gs(s) for s in ss)) for t, ss in l)) or "(Ok [([(-1)%Z], [])])"
            b = gres(obs[1], lambda l: glist(gpair(gtag(t), glist(gpair(gs(s), gnat(n)) for s, n in cs)) for t, cs in l)) or "(Ok [([(-1)%Z], [])])"
            return gapp("CMulti", gbool(case["sn"]), gbool(case["sl"]), glist(gentries(s) for s in case["shots"]), a, b)
        if k == "collate":
            r = gres(obs, lambda l: glist(gpair(glist(gpair(gtag(t), gs(s)) for t, s in tp), gnat(n)) for tp, n in l)) \
                or "(Ok [([([(-1)%Z], [])], 1%nat)])"
            return gapp("CCollate", glist(gentries(s) for s in case["shots"]), r)

    def nontrivial(self, case, obs):
        k = case["kind"]
        if k == "parse":
            return obs is not None or "[" in case["tag"]
        if k == "bits":
            if obs[0] != "ok":
                return True
            seen = {}
            for t, d in case["entries"]:
                m = re.match(r"^([a-z]\w*)\[(\d+)\]$", t)
                r = m.group(1) if m else t
                seen.setdefault(r, []).append(bool(m))
            return any(len(v) >= 2 and any(v) for v in seen.values())
        if k == "multi":
            return len(case["shots"]) >= 2
        return any(len(s) >= 2 for s in case["shots"])

    def signature(self, case, obs, ctx):
        k = case["kind"]
        if k == "bits":
            vals = [d for _, d in case["entries"]]
            flat = [x for d in vals for x in (d if isinstance(d, list) else [d])]
            if obs[0] == "ok" and any(c not in "01" for _, s in obs[1] for c in s):
                return "shots:nonbit-chars"
            if any(isinstance(x, bool) for x in flat):
                return "shots:bits:bool"
            return "shots:bits"
        if k == "multi":
            return "shots:multi:" + ("sn" if case["sn"] else "") + ("sl" if case["sl"] else "")
        return "shots:" + k

    def shrink(self, case):
        k = case["kind"]
        if k == "bits":
            es = case["entries"]
            for i in range(len(es)):
                yield {**case, "entries": es[:i] + es[i + 1:]}
        elif k in ("multi", "collate"):
            sh = case["shots"]
            for i in range(len(sh)):
                yield {**case, "shots": sh[:i] + sh[i + 1:]}
            for i in range(len(sh)):
                for j in range(len(sh[i])):
                    yield {**case, "shots": sh[:i] + [sh[i][:j] + sh[i][j + 1:]] + sh[i + 1:]}

    def distribution(self, cases, observations):
        d = {}
        for c, o in zip(cases, observations):
            k = c["kind"]
            d.setdefault(k, {"n": 0, "value_errors": 0})
            d[k]["n"] += 1
            oo = o[0] if k == "multi" else o
            if isinstance(oo, list) and oo and oo[0] == "ValueError":
                d[k]["value_errors"] += 1
        return d


PROP = C19()
