"""C06 — operation signatures and port kinds (model: coq/model/Ops.v, spec: coq/spec/OpsS.v)."""
import copy

import fw
import tygen
import c06hist
from fw import gZ, glist, gopt, gpair, gapp, gbool, gnat

# op term schemas: name -> list of (field kind); kinds: row, orow (optional row), ty, oty, sum, osum, F, oF, P,
# name, names, args, oargs, params, bound, int
SCHEMA = {
    "Input": ["row"], "Output": ["orow"],
    "Custom": ["name", "name", "name", "F", "args"],          # op_name, extension, description, signature, args
    "ExtOp": ["name", "name", "oP", "oF", "args"],            # op name, extension, def signature, cached signature
    "MakeTuple": ["orow"], "UnpackTuple": ["orow"], "Noop": ["oty"],
    "Tag": ["int", "sum"], "Some": ["row"], "Left": ["either"], "Right": ["either"],
    "Continue": ["either"], "Break": ["either"],
    "DFG": ["row", "orow", "names"], "CFG": ["row", "orow"],
    "Block": ["row", "osum", "orow", "names"], "Exit": ["orow"],
    "Const": ["ty"], "ConstVal": ["name"], "LoadConst": ["oty"],
    "Conditional": ["sum", "row", "orow"], "Case": ["row", "orow"],
    "TailLoop": ["row", "row", "orow", "names"],
    "FuncDefn": ["name", "row", "params", "orow"], "FuncDecl": ["name", "P"], "Module": [],
    "Call": ["P", "oF", "oargs"], "CallIndirect": ["oF"], "LoadFunc": ["P", "oF", "oargs"],
    "AliasDecl": ["name", "bound"], "AliasDefn": ["name", "ty"],
}
ERR = {"IncompleteOp": "EIncomplete", "InvalidPort": "EInvalidPort", "IndexError": "EIndex",
       "ValueError": "EValue", "AttributeError": "ENoMethod", "NoConcreteFunc": "ENoConcrete"}
POISON = "(TAlias 4294967295%N Any)"          # stands for an answer the printer could not represent
CONSTVALS = ["true", "unit", "tuple", "some", "none"]


def subst_rowvar(t, idx, row):
    """Substitutes the row `row` for RowVar idx in a type term (rows are spliced)."""
    def in_row(r):
        out = []
        for x in r:
            if x[0] == "RowVar" and x[1] == idx:
                out.extend(copy.deepcopy(row))
            else:
                out.append(subst_rowvar(x, idx, row))
        return out
    k = t[0]
    if k == "Sum":
        return ["Sum", [in_row(r) for r in t[1]]]
    if k in ("Tuple", "Option"):
        return [k, in_row(t[1])]
    if k == "Either":
        return [k, in_row(t[1]), in_row(t[2])]
    if k == "Func":
        return ["Func", in_row(t[1]), in_row(t[2]), t[3]]
    return t


class C06(fw.Prop):
    id = "C06"
    props_file = "props/C06.v"
    run_file = "run/C06Run.v"
    run_module = "run.C06Run"
    shard = 400
    rule = ("every class of hugr.ops (21 serialised kinds + MakeTuple/UnpackTuple/Noop/ExtOp/Some/Left/Right/"
            "Continue/Break) over random rows (empty rows, linear types, nested sums incl. UnitSum/Tuple/Option/"
            "Either sugar, function types with row variables, opaque and definition-backed extension types), "
            "optional fields unset with probability ~0.12; Call/LoadFunc over polymorphic signatures whose "
            "instantiation splices a row for a row variable (different arity than the body); per operation one "
            "signature case, one port case for every offset in -1..n+1 in both directions (op.port_kind, "
            "op.port_type, Hugr.port_kind, Hugr.port_type), nth_inputs/nth_outputs for n in -1..k+1, and "
            "constructor cases for Call/LoadFunc; plus a deterministic small-scope sweep (every class x all "
            "combinations of the rows [], [usize], [qubit, usize] in every field, optional fields unset; capped "
            "at 6 / 60 combinations per class); plus histories of ONE Hugr (harness/c06hist.py): raw add_node / "
            "delete_node with the freed index reused by an operation of another signature / `hugr[n].op = ..` / "
            "assignment of an operation's public fields / resolve_extensions, and builder programs (Dfg and "
            "Module+Function roots: partial Noop/MakeTuple/UnpackTuple/CallIndirect/Output completed by add_op and "
            "set_outputs, the same operation object completed twice, nested DFG / TailLoop / Conditional / CFG "
            "builders completing their parent operation, call / load_function, delete_node + add_op reusing the "
            "index); after every step the operation of every live node is read back and every node whose operation "
            "changed is queried again at every offset in both directions (op.port_kind, op.port_type, "
            "Hugr.port_kind, Hugr.port_type, outer/inner signature, num_out), the others at output port 0, vacant "
            "indices must give no answer.  non-trivial = the implementation returned at least one "
            "value (not only exceptions) in the case")
    trusted = ["constants are represented by the type their value reports (val.type_()); typing of values is C14",
               "exception classes are observed but compared only as 'an exception was raised'; for port types "
               "None and an exception are the same 'no type'; answers are compared only where the specification "
               "speaks (operations the implementation refuses to construct are not judged)",
               "sig/port/nth cases of Call and LoadFunc: the operation is read back from the constructed object's "
               "public attributes (signature, instantiation, type_args); the constructor is judged by the 'new' "
               "cases, when the instantiation handed over is known to be the signature's instance",
               "harness/tygen.py: two printers (term -> Gallina, hugr object -> Gallina) cross-checked on every "
               "generated type",
               "histories: the operation a node holds is read back from the operation object's public attributes "
               "(harness/c06hist.py print_op); the answers are checked against the model/specification of THAT "
               "operation -- which types a builder hands to a partial operation is C01's subject, not C06's"]
    assumptions = ["port offsets are >= -1 (Python's negative list indexing below -1 is outside the property)",
                   "type substitution is not computed by hugr-py: the instantiation is the one given to Call/LoadFunc"]

    def __init__(self):
        self.g = tygen.TyGen()
        self.hist = c06hist.Hist(self)

    # ------------------------------------------------------------------ generation
    def rand_field(self, rng, kind, depth):
        g = self.g
        if kind == "row":
            return g.rand_row(rng, depth, rowvars=rng.random() < 0.15)
        if kind == "orow":
            return None if rng.random() < 0.12 else g.rand_row(rng, depth)
        if kind == "ty":
            return g.rand_type(rng, depth)
        if kind == "oty":
            return None if rng.random() < 0.12 else g.rand_type(rng, depth)
        if kind == "sum":
            return g.rand_sum(rng, depth)
        if kind == "osum":
            return None if rng.random() < 0.12 else g.rand_sum(rng, depth)
        if kind == "either":
            return rng.choice([["Either", g.rand_row(rng, depth - 1), g.rand_row(rng, depth - 1)],
                               ["Sum", [g.rand_row(rng, depth - 1), g.rand_row(rng, depth - 1)]]])
        if kind == "F":
            return g.rand_functy(rng, depth)
        if kind == "oF":
            return None if rng.random() < 0.12 else g.rand_functy(rng, depth)
        if kind == "P":
            return g.rand_poly(rng, depth)
        if kind == "oP":
            return None if rng.random() < 0.25 else g.rand_poly(rng, depth)
        if kind == "name":
            return rng.choice(tygen.NAMES)
        if kind == "names":
            return g.rand_reqs(rng)
        if kind == "args":
            return [g.rand_arg(rng, 1) for _ in range(rng.choice([0, 0, 1, 2]))]
        if kind == "oargs":
            return None if rng.random() < 0.3 else [g.rand_arg(rng, 1) for _ in range(rng.choice([0, 1, 2]))]
        if kind == "params":
            return [g.rand_param(rng) for _ in range(rng.choice([0, 0, 1, 2]))]
        if kind == "bound":
            return g.rand_bound(rng)
        if kind == "int":
            return rng.randint(-1, 3)
        raise ValueError(kind)

    def rand_call(self, rng, name, depth):
        """Call / LoadFunc with a row-polymorphic signature and an instantiation of different arity."""
        g = self.g
        b = g.rand_bound(rng)
        body = g.rand_functy(rng, depth)
        rv = ["RowVar", 0, b]
        for r in (body[1], body[2]):
            for _ in range(rng.choice([0, 1, 1, 2])):
                r.insert(rng.randint(0, len(r)), rv)
        if rng.random() < 0.3:
            body[1].append(["Func", [rv, ["USize"]], [rv], []])
        row = g.rand_row(rng, 1)
        while len(row) == 1 and rng.random() < 0.8:
            row = g.rand_row(rng, 1)                      # arity must usually change
        inst = ["F", subst_rowvar(["Func", body[1], body[2], []], 0, row)[1],
                subst_rowvar(["Func", body[1], body[2], []], 0, row)[2], body[3]]
        params = [["PList", ["PType", b]]]
        targs = [["ASeq", [["AType", t] for t in row]]]
        if rng.random() < 0.3:                            # a second, unused parameter
            params.append(["PNat", None])
            targs.append(["ANat", rng.randint(0, 5)])
        return [name, ["P", params, body], inst, targs]

    def rand_op(self, rng, depth=2):
        name = rng.choice(list(SCHEMA))
        if name in ("Call", "LoadFunc") and rng.random() < 0.6:
            return self.rand_call(rng, name, depth)
        if name == "ConstVal":
            return [name, rng.choice(CONSTVALS)]
        op = [name] + [self.rand_field(rng, k, depth) for k in SCHEMA[name]]
        if name == "Tag":
            n = self.n_variants(op[2])
            op[1] = rng.choice([0, 0, max(0, n - 1), rng.randint(0, max(0, n - 1)), n, -1])
        if name in ("Call", "LoadFunc") and op[2] is not None and op[3] is not None and rng.random() < 0.8:
            # usually the right number of type arguments
            k = len(op[1][1])
            op[3] = (op[3] + [["ANat", 0]] * k)[:k]
        return op

    @staticmethod
    def n_variants(s):
        return {"Sum": lambda: len(s[1]), "UnitSum": lambda: s[1], "Tuple": lambda: 1, "Option": lambda: 2,
                "Either": lambda: 2}[s[0]]()

    def width(self, op):
        """Upper estimate of the number of value ports of an op term."""
        w = 1
        for f in op[1:]:
            if isinstance(f, list) and f and isinstance(f[0], list):
                w = max(w, len(f))
                for x in f:
                    if isinstance(x, list) and x and isinstance(x[0], list):
                        w = max(w, len(x))
            if isinstance(f, list) and f and f[0] in ("F", "Sum", "Either", "Tuple", "Option"):
                for x in f[1:]:
                    if isinstance(x, list):
                        w = max(w, len(x))
                        for y in x:
                            if isinstance(y, list) and y and isinstance(y[0], list):
                                w = max(w, len(y))
            if isinstance(f, list) and f and f[0] == "P":
                w = max(w, len(f[2][1]), len(f[2][2]))
        return w

    def cases_for(self, op, rng=None, full=True):
        out = []
        if op[0] in ("Call", "LoadFunc"):
            out.append({"kind": "new", "op": op})
            if not op[1][1] and not self.inst_ok(op):
                # monomorphic function with an unrelated instantiation handed over: also the two well-formed calls
                out.append({"kind": "new", "op": [op[0], op[1], None, None]})
                out.append({"kind": "new", "op": [op[0], op[1], copy.deepcopy(op[1][2]), []]})
        out.append({"kind": "sig", "op": op})
        w = self.width(op) + 2
        if op[0] in ("Call", "LoadFunc") and op[2] is not None:
            w = max(w, len(op[2][1]) + 2, len(op[2][2]) + 2)
        zs = list(range(-1, w + 1))
        if not full and rng is not None:
            zs = [-1, 0] + rng.sample(zs[2:], min(3, len(zs) - 2))
        for d in ("in", "out"):
            for z in zs:
                out.append({"kind": "port", "op": op, "dir": d, "z": z})
        if op[0] in ("Conditional", "Block"):
            s = op[1] if op[0] == "Conditional" else op[2]
            k = self.n_variants(s) if s is not None else 1
            for n in range(-1, k + 2):
                out.append({"kind": "nth", "op": op, "n": n})
        elif rng is not None and rng.random() < 0.05:
            out.append({"kind": "nth", "op": op, "n": 0})
        return out

    def generate(self, rng, tier, ctx):
        n_ops = 260 if tier == "quick" else 3000
        cases = []
        names = list(SCHEMA)
        for i in range(n_ops):
            op = self.rand_op(rng, depth=rng.choice([1, 2, 2, 3]))
            if i < 2 * len(names):                      # every class at least twice
                while op[0] != names[i % len(names)]:
                    op = self.rand_op(rng, depth=2)
            self.check_terms(op)
            cases.extend(self.cases_for(op, rng, full=(tier == "quick" or rng.random() < 0.5)))
        # malformed / edge stream: constructor refusals and degenerate rows
        for _ in range(40 if tier == "quick" else 400):
            p = self.g.rand_poly(rng, 1, nparams=rng.choice([1, 2]))
            inst = None if rng.random() < 0.4 else self.g.rand_functy(rng, 1)
            targs = rng.choice([None, [], [["ANat", 1]], [["ANat", 1], ["AString", "x"]], [["ANat", 1]] * 3])
            cases.append({"kind": "new", "op": [rng.choice(["Call", "LoadFunc"]), p, inst, targs]})
        for op in ([["Tag", 0, ["UnitSum", 0]], ["Tag", 0, ["Sum", []]], ["Conditional", ["UnitSum", 0], [], []],
                    ["Block", [], ["Sum", []], [], []], ["MakeTuple", []], ["UnpackTuple", []], ["Input", []],
                    ["TailLoop", [], [], [], []], ["CallIndirect", ["F", [], [], []]], ["Some", []]]):
            cases.extend(self.cases_for(op))
        cases.extend(self.small_scope(tier))
        # histories of one Hugr (after everything else: the stream of the cases above is unchanged)
        cases.extend(self.hist.generate(rng, tier))
        return cases

    def small_scope(self, tier):
        """Deterministic sweep: every class over all combinations of a few small rows (empty, one copyable,
        linear + copyable) in every field, optional fields also unset."""
        import itertools
        U, Q = ["USize"], ["Qubit"]
        R = [[], [U], [Q, U]]
        F0, F1 = ["F", [], [], []], ["F", [U], [Q, U], []]
        choices = {
            "row": R, "orow": R + [None], "ty": [U, Q], "oty": [U, None],
            "sum": [["UnitSum", 2], ["Sum", [[U], [Q, U]]], ["Sum", []]],
            "osum": [["UnitSum", 2], ["Sum", [[U], [Q, U]]], None],
            "either": [["Either", [U], [Q, U]]], "F": [F0, F1], "oF": [F0, F1, None],
            "P": [["P", [], F1]], "oP": [None, ["P", [], F1], ["P", [["PType", "A"]], F1]],
            "name": ["x"], "names": [[]], "args": [[]], "oargs": [None], "params": [[]], "bound": ["C"],
            "int": [0, 1, 2],
        }
        cap = 6 if tier == "quick" else 60
        out = []
        for name, fields in SCHEMA.items():
            if name == "ConstVal":
                combos = [[v] for v in CONSTVALS]
            else:
                combos = list(itertools.product(*[choices[k] for k in fields]))
            step = max(1, len(combos) // cap)
            for c in combos[::step][:cap + 1]:
                out.extend(self.cases_for([name] + [copy.deepcopy(x) for x in c]))
        return out

    def check_terms(self, op):
        """The two Gallina printers of tygen must agree on every type in the op (harness self-check)."""
        for f, k in zip(op[1:], SCHEMA[op[0]]):
            if f is None:
                continue
            if k in ("row", "orow"):
                for t in f:
                    self.g.selfcheck(t)
            elif k in ("ty", "oty", "sum", "osum", "either"):
                self.g.selfcheck(f)

    def corpus(self, ctx):
        rv = ["RowVar", 0, "A"]
        poly = ["P", [["PList", ["PType", "A"]]], ["F", [rv], [rv], []]]
        inst = ["F", [["USize"], ["Qubit"]], [["USize"], ["Qubit"]], []]
        targs = [["ASeq", [["AType", ["USize"]], ["AType", ["Qubit"]]]]]
        call = ["Call", poly, inst, targs]
        call0 = ["Call", ["P", [["PList", ["PType", "A"]]], ["F", [["USize"], rv], [rv, ["Qubit"]], []]],
                 ["F", [["USize"]], [["Qubit"]], []], [["ASeq", []]]]
        out = [
            # D13: Call.num_out / _function_port_offset were computed from the polymorphic body
            {"kind": "sig", "op": call}, {"kind": "sig", "op": call0},
            {"kind": "port", "op": call, "dir": "in", "z": 1}, {"kind": "port", "op": call, "dir": "in", "z": 2},
            {"kind": "port", "op": call0, "dir": "in", "z": 1}, {"kind": "port", "op": call0, "dir": "in", "z": 2},
        ]
        # D14: the order port of LoadConst / LoadFunc / Call raised instead of OrderKind
        for op in (["LoadConst", ["USize"]], ["LoadFunc", ["P", [], ["F", [["Qubit"]], [], []]], None, None], call,
                   ["Call", ["P", [], ["F", [], [], []]], None, None]):
            for d in ("in", "out"):
                out.append({"kind": "port", "op": op, "dir": d, "z": -1})
        # LoadFunc.num_out was a dataclasses.Field object (the class is not a dataclass)
        out.append({"kind": "sig", "op": ["LoadFunc", ["P", [], ["F", [["Qubit"]], [], []]], None, None]})
        out.append({"kind": "sig", "op": ["LoadFunc", poly, inst, targs]})
        out.extend(self.hist.corpus())
        return out

    # ------------------------------------------------------------------ running the implementation
    def build_op(self, op):
        from hugr import ops, tys, val, ext
        import semver
        g = self.g
        name, a = op[0], op[1:]
        row = g.build_row
        orow = lambda r: None if r is None else g.build_row(r)
        oty = lambda t: None if t is None else g.build_type(t)
        if name == "Input":
            return ops.Input(row(a[0]))
        if name == "Output":
            return ops.Output(orow(a[0]))
        if name == "Custom":
            return ops.Custom(op_name=a[0], signature=g.build_functy(a[3]), description=a[2], extension=a[1],
                              args=[g.build_arg(x) for x in a[4]])
        if name == "ExtOp":
            e = ext.Extension(a[1], semver.Version(0, 1, 0))
            d = ext.OpDef(name=a[0], description="", signature=ext.OpDefSig(
                None if a[2] is None else g.build_poly(a[2]), binary=a[2] is None))
            e.add_op_def(d)
            return ops.ExtOp(d, None if a[3] is None else g.build_functy(a[3]), [g.build_arg(x) for x in a[4]])
        if name == "MakeTuple":
            return ops.MakeTuple(orow(a[0]))
        if name == "UnpackTuple":
            return ops.UnpackTuple(orow(a[0]))
        if name == "Noop":
            return ops.Noop(oty(a[0]))
        if name == "Tag":
            return ops.Tag(a[0], g.build_type(a[1]))
        if name == "Some":
            return ops.Some(*row(a[0]))
        if name in ("Left", "Right", "Continue", "Break"):
            return getattr(ops, name)(g.build_type(a[0]))
        if name == "DFG":
            return ops.DFG(row(a[0]), orow(a[1]), list(a[2]))
        if name == "CFG":
            return ops.CFG(row(a[0]), orow(a[1]))
        if name == "Block":
            return ops.DataflowBlock(row(a[0]), oty(a[1]), orow(a[2]), list(a[3]))
        if name == "Exit":
            return ops.ExitBlock(orow(a[0]))
        if name == "Const":
            return ops.Const(val.Extension("c", g.build_type(a[0]), 0))
        if name == "ConstVal":
            v = {"true": lambda: val.TRUE, "unit": lambda: val.Unit, "tuple": lambda: val.Tuple(val.TRUE, val.Unit),
                 "some": lambda: val.Some(val.FALSE), "none": lambda: val.None_(tys.Qubit, tys.Bool)}[a[0]]()
            return ops.Const(v)
        if name == "LoadConst":
            return ops.LoadConst(oty(a[0]))
        if name == "Conditional":
            return ops.Conditional(g.build_type(a[0]), row(a[1]), orow(a[2]))
        if name == "Case":
            return ops.Case(row(a[0]), orow(a[1]))
        if name == "TailLoop":
            return ops.TailLoop(row(a[0]), row(a[1]), orow(a[2]), list(a[3]))
        if name == "FuncDefn":
            return ops.FuncDefn(a[0], row(a[1]), [g.build_param(p) for p in a[2]], orow(a[3]))
        if name == "FuncDecl":
            return ops.FuncDecl(a[0], g.build_poly(a[1]))
        if name == "Module":
            return ops.Module()
        if name in ("Call", "LoadFunc"):
            cls = ops.Call if name == "Call" else ops.LoadFunc
            return cls(g.build_poly(a[0]), None if a[1] is None else g.build_functy(a[1]),
                       None if a[2] is None else [g.build_arg(x) for x in a[2]])
        if name == "CallIndirect":
            return ops.CallIndirect(None if a[0] is None else g.build_functy(a[0]))
        if name == "AliasDecl":
            return ops.AliasDecl(a[0], g.build_bound(a[1]))
        if name == "AliasDefn":
            return ops.AliasDefn(a[0], g.build_type(a[1]))
        raise ValueError(op)

    def guard(self, f, pr):
        """('ok', literal, repr) or ('err', class name)."""
        try:
            v = f()
        except Exception as e:                              # noqa: BLE001
            return ["err", type(e).__name__]
        try:
            shown = repr(v)[:200]
        except Exception:                                   # noqa: BLE001 -- how an answer prints is not compared
            shown = "<%s>" % type(v).__name__
        try:
            return ["ok", pr(v), shown]
        except Exception as e:                              # noqa: BLE001 -- answer outside the model's vocabulary
            return ["ok", None, "unprintable %s: %s" % (type(e).__name__, shown)]

    def pr_kind(self, k):
        from hugr import tys
        g = self.g
        if isinstance(k, tys.ValueKind):
            return gapp("ValueKind", g.print_type(k.ty))
        if isinstance(k, tys.ConstKind):
            return gapp("ConstKind", g.print_type(k.ty))
        if isinstance(k, tys.FunctionKind):
            return gapp("FunctionKind", g.print_poly(k.ty))
        if isinstance(k, tys.CFKind):
            return "CFKind"
        if isinstance(k, tys.OrderKind):
            return "OrderKind"
        raise TypeError(k)

    def pr_sig(self, s):
        g = self.g
        from hugr import tys
        if not isinstance(s, tys.FunctionType):
            raise TypeError(s)
        return gpair(g.print_row(s.input), g.print_row(s.output), g.gnames(s.runtime_reqs))

    def pr_otype(self, v):
        """A port-type answer: a type, or None = no type."""
        return gopt(None if v is None else self.g.print_type(v))

    def inst_ok(self, op):
        """Is the instantiation handed to the Call / LoadFunc constructor known to be the signature's instance at
        the type arguments (so that the specification's "instantiated signature" is the one handed over)?
        Monomorphic: none handed over, or the body itself.  Polymorphic: the shape rand_call builds -- first
        parameter a list of types instantiated by a sequence, the body with the row spliced for the row variable
        -- recomputed here; anything else is not known to be consistent and is not judged."""
        _, poly, inst, targs = op
        params, body = poly[1], poly[2]
        if not params:
            return inst is None or inst == body
        if inst is None or targs is None or len(targs) != len(params):
            return False
        if params[0][0] != "PList" or params[0][1][0] != "PType" or targs[0][0] != "ASeq":
            return False
        if any(a[0] != "AType" for a in targs[0][1]) or any(p[0] != "PNat" for p in params[1:]):
            return False
        row = [a[1] for a in targs[0][1]]
        want = subst_rowvar(["Func", body[1], body[2], []], 0, row)
        return inst == ["F", want[1], want[2], body[3]]

    def observe(self, case, ctx):
        from hugr.hugr.base import Hugr
        from hugr.hugr.node_port import InPort, OutPort, Node
        g = self.g
        k = case["kind"]
        if k == "hist":
            trace, applied = self.hist.run(case)
            return {"trace": trace, "applied": applied}
        try:
            op = self.build_op(case["op"])
        except Exception as e:                              # noqa: BLE001
            return {"new": ["err", type(e).__name__]}
        if k == "new":
            return {"new": self.guard(lambda: op, lambda o: gpair(
                g.print_poly(o.signature), g.print_functy(o.instantiation), gnat(len(getattr(o, "type_args", ())))))}
        res = {"oplit": self.op_literal(case["op"], op)}
        if k == "sig":
            res["outer"] = self.guard(lambda: op.outer_signature(), self.pr_sig)
            res["inner"] = self.guard(lambda: op.inner_signature(), self.pr_sig)
            res["nout"] = self.guard(lambda: op.num_out, lambda v: gZ(int(v)))
            res["fpo"] = self.guard(lambda: op._function_port_offset(), lambda v: gZ(int(v)))
            res["inst"] = self.guard(lambda: op.instantiation, self.pr_sig)
        elif k == "port":
            port = (InPort if case["dir"] == "in" else OutPort)(Node(0), case["z"])
            res["k"] = self.guard(lambda: op.port_kind(port), self.pr_kind)
            res["t"] = self.guard(lambda: op.port_type(port), self.pr_otype)
            h = Hugr()
            n = h.add_node(op, h.root)
            hport = (InPort if case["dir"] == "in" else OutPort)(n, case["z"])
            res["hk"] = self.guard(lambda: h.port_kind(hport), self.pr_kind)
            res["ht"] = self.guard(lambda: h.port_type(hport), self.pr_otype)
        elif k == "nth":
            res["ins"] = self.guard(lambda: op.nth_inputs(case["n"]), g.print_row)
            res["outs"] = self.guard(lambda: op.nth_outputs(case["n"]), g.print_row)
        return res

    # ------------------------------------------------------------------ literals
    def op_literal(self, t, real=None):
        g = self.g
        name, a = t[0], t[1:]
        R = lambda s: gapp("Ret", s)
        orow = lambda r: gopt(None if r is None else g.coq_row(r))
        oty = lambda x: gopt(None if x is None else g.coq_type(x))
        if name == "Input":
            return R(gapp("OInput", g.coq_row(a[0])))
        if name == "Output":
            return R(gapp("OOutput", orow(a[0])))
        if name == "Custom":
            return R(gapp("OCustom", g.gname(a[1]), g.gname(a[0]), g.gname(a[2]), g.coq_functy(a[3]),
                          glist(g.coq_arg(x) for x in a[4])))
        if name == "ExtOp":
            # the definition's signature as the extension stores it (add_op_def adds the extension to the reqs)
            if real is not None:
                pf = real.op_def().signature.poly_func
                dsig = gopt(None if pf is None else g.print_poly(pf))
            else:
                dsig = gopt(None if a[2] is None else g.coq_poly(a[2]))
            return R(gapp("OExtOp", g.gname(a[1]), g.gname(a[0]), dsig,
                          gopt(None if a[3] is None else g.coq_functy(a[3])), glist(g.coq_arg(x) for x in a[4])))
        if name == "MakeTuple":
            return R(gapp("OMakeTuple", orow(a[0])))
        if name == "UnpackTuple":
            return R(gapp("OUnpackTuple", orow(a[0])))
        if name == "Noop":
            return R(gapp("ONoop", oty(a[0])))
        if name == "Tag":
            return R(gapp("OTag", gZ(a[0]), g.coq_type(a[1])))
        if name == "Some":
            return R(gapp("some_new", g.coq_row(a[0])))
        if name in ("Left", "Continue"):
            return R(gapp("left_new", g.coq_type(a[0])))
        if name in ("Right", "Break"):
            return R(gapp("right_new", g.coq_type(a[0])))
        if name == "DFG":
            return R(gapp("ODFG", g.coq_row(a[0]), orow(a[1]), g.gnames(a[2])))
        if name == "CFG":
            return R(gapp("OCFG", g.coq_row(a[0]), orow(a[1])))
        if name == "Block":
            return R(gapp("OBlock", g.coq_row(a[0]), oty(a[1]), orow(a[2]), g.gnames(a[3])))
        if name == "Exit":
            return R(gapp("OExit", orow(a[0])))
        if name == "Const":
            return R(gapp("OConst", g.coq_type(a[0])))
        if name == "ConstVal":
            # V := the type the value reports
            return R(gapp("OConst", g.print_type(real.val.type_())))
        if name == "LoadConst":
            return R(gapp("OLoadConst", oty(a[0])))
        if name == "Conditional":
            return R(gapp("OConditional", g.coq_type(a[0]), g.coq_row(a[1]), orow(a[2])))
        if name == "Case":
            return R(gapp("OCase", g.coq_row(a[0]), orow(a[1])))
        if name == "TailLoop":
            return R(gapp("OTailLoop", g.coq_row(a[0]), g.coq_row(a[1]), orow(a[2]), g.gnames(a[3])))
        if name == "FuncDefn":
            return R(gapp("OFuncDefn", g.gname(a[0]), g.coq_row(a[1]), glist(g.coq_param(p) for p in a[2]), orow(a[3])))
        if name == "FuncDecl":
            return R(gapp("OFuncDecl", g.gname(a[0]), g.coq_poly(a[1])))
        if name == "Module":
            return R("OModule")
        if name in ("Call", "LoadFunc") and real is not None:
            # the operation as the implementation constructed it (its public attributes); what the constructor
            # does with its arguments is the subject of the "new" cases only
            return R(self.hist.print_op(real))
        if name in ("Call", "LoadFunc"):
            return gapp("call_new" if name == "Call" else "loadfunc_new", g.coq_poly(a[0]),
                        gopt(None if a[1] is None else g.coq_functy(a[1])),
                        gopt(None if a[2] is None else glist(g.coq_arg(x) for x in a[2])))
        if name == "CallIndirect":
            return R(gapp("OCallIndirect", gopt(None if a[0] is None else g.coq_functy(a[0]))))
        if name == "AliasDecl":
            return R(gapp("OAliasDecl", g.gname(a[0]), g.coq_bound(a[1])))
        if name == "AliasDefn":
            return R(gapp("OAliasDefn", g.gname(a[0]), g.coq_type(a[1])))
        raise ValueError(t)

    @staticmethod
    def gres(o, poison):
        if o[0] == "err":
            return gapp("Raise", ERR.get(o[1], "EOther"))
        return gapp("Ret", poison if o[1] is None else o[1])

    def literal(self, case, obs, ctx):
        g = self.g
        k = case["kind"]
        if k == "hist":
            return self.hist.literal(obs)
        t = case["op"]
        psig = "([%s], [], [])" % POISON
        if k == "new":
            a = t[1:]
            o = obs["new"]
            r = self.gres(o, "(mkP [] (mkF [%s] [] []), mkF [] [] [], 0%%nat)" % POISON)
            return gapp("CNew", gbool(t[0] == "Call"), g.coq_poly(a[0]),
                        gopt(None if a[1] is None else g.coq_functy(a[1])),
                        gopt(None if a[2] is None else glist(g.coq_arg(x) for x in a[2])),
                        gbool(self.inst_ok(t)), r)
        if "oplit" not in obs:
            # the implementation refused to construct the operation: there is no operation to ask, and which
            # arguments a constructor accepts is not the property's subject (counted in the distribution)
            oplit = "(Raise EOther)"
            dummy = "(Raise EOther)"
            if k == "sig":
                return gapp("CSig", oplit, dummy, dummy, dummy, dummy, "None")
            if k == "port":
                return gapp("CPort", oplit, "In" if case["dir"] == "in" else "Out", gZ(case["z"]), dummy, dummy, dummy, dummy)
            return gapp("CNth", oplit, gZ(case["n"]), dummy, dummy)
        oplit = obs["oplit"]
        if k == "sig":
            inst = obs["inst"]
            return gapp("CSig", oplit, self.gres(obs["outer"], psig), self.gres(obs["inner"], psig),
                        self.gres(obs["nout"], "(-7)%Z"), self.gres(obs["fpo"], "(-7)%Z"),
                        "None" if inst[0] == "err" else gapp("Some", psig if inst[1] is None else inst[1]))
        if k == "port":
            pk = gapp("ValueKind", POISON)
            return gapp("CPort", oplit, "In" if case["dir"] == "in" else "Out", gZ(case["z"]),
                        self.gres(obs["k"], pk), self.gres(obs["t"], gapp("Some", POISON)), self.gres(obs["hk"], pk),
                        self.gres(obs["ht"], gapp("Some", POISON)))
        if k == "nth":
            return gapp("CNth", oplit, gZ(case["n"]), self.gres(obs["ins"], "[%s]" % POISON),
                        self.gres(obs["outs"], "[%s]" % POISON))
        raise ValueError(k)

    # ------------------------------------------------------------------ composition with C05 (harness/c06bridge.py)
    def extra(self, ctx, tier):
        import c06bridge
        return c06bridge.extra(self, ctx, tier)

    # ------------------------------------------------------------------ reporting
    def describe(self, case, obs):
        if case["kind"] == "hist":
            return {"input": case, "observed": self.hist.describe(obs)}
        o = {k: (v if k == "oplit" else (v[1] if v[0] == "err" else v[2])) for k, v in (obs or {}).items() if k != "oplit"}
        return {"input": case, "observed": o}

    def nontrivial(self, case, obs):
        if case["kind"] == "hist":
            return any(e[0] == "port" and e[7][0] == "ok" for e in obs["trace"])
        if case["kind"] != "new" and "oplit" not in obs:
            return False
        return any(v[0] == "ok" for k, v in obs.items() if k != "oplit")

    def signature(self, case, obs, ctx):
        if case["kind"] == "hist":
            return "ops:hist:%s:%s" % (case.get("root", "raw"), "+".join(sorted({st["s"] for st in case["steps"]})))
        k, name = case["kind"], case["op"][0]
        if k == "port":
            z = case["z"]
            where = "order" if z == -1 else "offset"
            what = obs.get("k", ["?", "?"])
            return "ops:port:%s:%s:%s:%s" % (name, case["dir"], where, what[1] if what[0] == "err" else "kind")
        return "ops:%s:%s" % (k, name)

    def shrink(self, case):
        if case["kind"] == "hist":
            yield from self.hist.shrink(case)
            return
        op = case["op"]
        g = self.g
        if case["kind"] == "port" and case["z"] > 0:
            yield {**case, "z": case["z"] - 1}
        for i, kind in enumerate(SCHEMA[op[0]], start=1):
            f = op[i]
            if f is None:
                continue
            if kind in ("row", "orow"):
                for r in g.shrink_row(f):
                    yield {**case, "op": op[:i] + [r] + op[i + 1:]}
            elif kind in ("F", "oF"):
                for j in (1, 2):
                    for r in g.shrink_row(f[j]):
                        yield {**case, "op": op[:i] + [f[:j] + [r] + f[j + 1:]] + op[i + 1:]}
            elif kind in ("names",) and f:
                yield {**case, "op": op[:i] + [[]] + op[i + 1:]}
            elif kind in ("ty", "oty"):
                for s in g.shrink_type(f):
                    yield {**case, "op": op[:i] + [s] + op[i + 1:]}

    def neighbours(self, case, rng):
        if case["kind"] == "hist":
            return list(self.hist.shrink(case))
        op = case["op"]
        out = self.cases_for(op)
        for c in list(self.shrink(case))[:200]:
            out.extend(self.cases_for(c["op"]))
        return out

    def distribution(self, cases, observations):
        d = {"by_kind": {}, "by_op": {}, "exceptions": {}, "order_port_cases": 0, "arity_changing_calls": 0,
             "incomplete_ops": 0, "linear_rows": 0, "rowvar_ops": 0, "constructions_refused": 0,
             "new_cases_with_known_instance": 0}
        seen = set()
        d["histories"] = self.hist.distribution(cases, observations)
        for c, o in zip(cases, observations):
            d["by_kind"][c["kind"]] = d["by_kind"].get(c["kind"], 0) + 1
            if c["kind"] == "hist":
                continue
            name = c["op"][0]
            d["by_op"][name] = d["by_op"].get(name, 0) + 1
            if o.get("new", ["ok"])[0] == "err":
                d["constructions_refused"] += 1
            if c["kind"] == "new" and self.inst_ok(c["op"]):
                d["new_cases_with_known_instance"] += 1
            for k, v in o.items():
                if k != "oplit" and v[0] == "err":
                    d["exceptions"][v[1]] = d["exceptions"].get(v[1], 0) + 1
            if c["kind"] == "port" and c["z"] == -1:
                d["order_port_cases"] += 1
            key = fw.case_hash(c["op"])
            if c["kind"] == "sig" and key not in seen:
                seen.add(key)
                s = repr(c["op"])
                if name in ("Call", "LoadFunc") and c["op"][2] is not None and (
                        len(c["op"][2][1]) != len(c["op"][1][2][1]) or len(c["op"][2][2]) != len(c["op"][1][2][2])):
                    d["arity_changing_calls"] += 1
                if any(f is None for f in c["op"][1:]):
                    d["incomplete_ops"] += 1
                if "'Qubit'" in s:
                    d["linear_rows"] += 1
                if "'RowVar'" in s:
                    d["rowvar_ops"] += 1
        d["distinct_ops"] = len(seen)
        return d


PROP = C06()
