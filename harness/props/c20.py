"""C20 — rendering draws every node, port and link exactly once
(model: coq/model/Render.v, spec: coq/spec/RenderS.v, proofs: coq/proofs/RenderP.v)."""
import json
import random
import re

import fw
import hobs
import progs
from fw import gZ, gN, glist, gopt, gpair, gapp, gbool, gnat

PAL_FIELDS = ["background", "node", "edge", "dark", "const", "discard", "node_border", "port_border"]
CONFIGS = [("default", False), ("default", True), ("nb", False), ("zx", True), ("nb", True), ("zx", False)]


class ParseError(Exception):
    pass


def gs_plain(s):
    if not s:
        return "[]"
    return "[" + "; ".join(str(ord(c)) for c in s) + "]%Z"


gs = gs_plain


# ----------------------------------------------------------------------------- DOT text -> abstract tree

NODE_START = re.compile(r"^\t+(\d+) \[label=<$")
NODE_END = re.compile(r"^\s*> shape=plain\]$")
SUB_START = re.compile(r"^\t+subgraph cluster(\d+) \{$")
SUB_ATTR = re.compile(r'^\t+color=("[^"]*"|\S+) label="" margin=10$')
CLOSE = re.compile(r"^\t*\}$")
GRAPH_ATTR = re.compile(r'^\tbgcolor=("[^"]*"|\S+) margin=0 nodesep=0.15 rankdir="" ranksep=0.1$')
EDGE = re.compile(r'^\t(\d+):"?out\.(-?\d+)"? -> (\d+):"?in\.(-?\d+)"? \[label=(.*) arrowhead=none arrowsize=1\.0 '
                  r'color=("[^"]*"|\S+) fontcolor=black fontname=monospace fontsize=9 penwidth=1\.5\]$')
TABLE = re.compile(r'<TABLE BORDER="1" CELLBORDER="0" CELLSPACING="1" CELLPADDING="1"\s+BGCOLOR="([^"]*)" COLOR="([^"]*)">')
NAME = re.compile(r"<B>(.*?)</B>(.*?)</FONT></TD></TR>", re.S)
CELL = re.compile(r'PORT="(in|out)\.(-?\d+)" BORDER="1"><FONT POINT-SIZE="10\.0" FACE="monospace" COLOR="[^"]*">(.*?)</FONT></TD>', re.S)


def unq(s):
    if len(s) >= 2 and s[0] == '"' and s[-1] == '"':
        return s[1:-1].replace('\\"', '"')
    return s


def parse_dot(src: str):
    """-> {"bg": colour, "top": node, "edges": [...]}; node = {"stmt": {...}, "cluster": None | {"id", "body": [...], "color"}}"""
    lines = src.split("\n")
    if not re.match(r"^digraph .*\{$|^digraph \{$", lines[0]):
        raise ParseError("header: " + lines[0][:60])
    i = 1
    bg = None
    stack = [{"items": []}]       # top-level pseudo cluster
    edges = []
    n = len(lines)
    while i < n:
        ln = lines[i]
        m = GRAPH_ATTR.match(ln)
        if m and len(stack) == 1 and bg is None:
            bg = unq(m.group(1))
            i += 1
            continue
        m = SUB_START.match(ln)
        if m:
            stack.append({"id": int(m.group(1)), "items": [], "color": None})
            i += 1
            continue
        m = NODE_START.match(ln)
        if m:
            j = i + 1
            while j < n and not NODE_END.match(lines[j]):
                j += 1
            if j >= n:
                raise ParseError("unterminated node statement")
            body = "\n".join(lines[i + 1:j])
            stack[-1]["items"].append(("stmt", parse_stmt(int(m.group(1)), body)))
            i = j + 1
            continue
        m = SUB_ATTR.match(ln)
        if m and len(stack) > 1:
            stack[-1]["color"] = unq(m.group(1))
            i += 1
            continue
        if CLOSE.match(ln):
            if len(stack) > 1:
                c = stack.pop()
                stack[-1]["items"].append(("cluster", c))
            else:
                if any(x.strip() for x in lines[i + 1:]):
                    raise ParseError("text after the closing brace")
                break
            i += 1
            continue
        m = EDGE.match(ln)
        if m and len(stack) == 1:
            edges.append({"src": int(m.group(1)), "sport": int(m.group(2)), "dst": int(m.group(3)),
                          "dport": int(m.group(4)), "label": unq(m.group(5)), "color": unq(m.group(6))})
            i += 1
            continue
        if ln.strip() == "":
            i += 1
            continue
        raise ParseError("unexpected line: " + ln[:120])
    if len(stack) != 1:
        raise ParseError("unbalanced braces")

    def conv(item):
        kind, x = item
        if kind == "stmt":
            return {"stmt": x, "cluster": None}
        # a cluster: its items are child nodes (stmts or clusters) and, last, the cluster's own statement
        items = x["items"]
        if not items or items[-1][0] != "stmt":
            raise ParseError("cluster without its own node statement last")
        own = items[-1][1]
        return {"stmt": own, "cluster": {"id": x["id"], "body": [conv(y) for y in items[:-1]], "color": x["color"]}}

    tops = stack[0]["items"]
    if len(tops) != 1:
        raise ParseError("expected exactly one top-level node/cluster, got %d" % len(tops))
    return {"bg": bg, "top": conv(tops[0]), "edges": edges}


def parse_stmt(idx, body):
    t = TABLE.search(body)
    nm = NAME.search(body)
    if not t or not nm:
        raise ParseError("node statement %d: table/name not found" % idx)
    ins, outs = [], []
    for d, k, txt in CELL.findall(body):
        v = int(k) if txt == k else -999          # the cell text must show the offset
        (ins if d == "in" else outs).append(v)
    if body.count("PORT=") != len(ins) + len(outs):
        raise ParseError("node statement %d: unparsed port cells" % idx)
    # input cells come before the name, output cells after it
    pos_name = nm.start()
    for mm in re.finditer(r'PORT="(in|out)\.', body):
        if (mm.group(1) == "in") != (mm.start() < pos_name):
            ins.append(-998)
            break
    return {"id": idx, "label": nm.group(1), "data": nm.group(2), "ins": ins, "outs": outs,
            "back": t.group(1), "border": t.group(2)}


# ----------------------------------------------------------------------------- the property


def hugr_view(h):
    """what the renderer reads through the public queries"""
    from hugr.ops import AsExtOp
    from hugr import tys

    def info(n):
        op = h[n].op
        nq = op.name()
        nu = op.op_def().name if isinstance(op, AsExtOp) else nq
        return {"idx": n.idx, "nq": nq, "nu": nu, "nin": h.num_in_ports(n), "nout": h.num_out_ports(n),
                "meta": [[str(k), str(v)] for k, v in h[n].metadata.items()]}

    def tree(n):
        return {"info": info(n), "ch": [tree(c) for c in h.children(n)]}
    links = []
    for s, t in h.links():
        try:
            k = h.port_kind(s)
            if isinstance(k, tys.ValueKind):
                kk = ["value", str(k.ty)]
            elif isinstance(k, tys.OrderKind):
                kk = ["order"]
            elif isinstance(k, tys.ConstKind):
                kk = ["const"]
            elif isinstance(k, tys.FunctionKind):
                kk = ["function"]
            elif isinstance(k, tys.CFKind):
                kk = ["cf"]
            else:
                kk = ["error", type(k).__name__]
        except Exception as e:
            kk = ["error", type(e).__name__]
        links.append([s.node.idx, s.offset, t.node.idx, t.offset, kk])
    return {"tree": tree(h.root), "nodes": [n.idx for n in h], "links": links}


class C20(fw.Prop):
    id = "C20"
    props_file = "props/C20.v"
    run_file = "run/C20Run.v"
    run_module = "run.C20Run"
    shard = 6
    rule = ("HUGRs built by generated well-formed builder programs (harness/progs.py: all container kinds, "
            "order/const/function/control-flow edges, metadata incl. non-ASCII and nested values, inserted "
            "sub-HUGRs), optionally reloaded from their JSON, each rendered under 2-3 of the 6 "
            "palette x qualify_op_name configurations; the DOT source is parsed into the abstract tree.  "
            "a third of the HUGRs are then mutated (leaf nodes deleted, "
            "new nodes added so that freed indices are reused and children lists leave index order; the new nodes "
            "carry Custom or extension operations of every flavour).  "
            "45% of the HUGRs have their Custom operations turned into generic ExtOp by Hugr.resolve_extensions; a "
            "second stream of builder programs over Bool/float64/int<n> uses extension operations whose definition "
            "belongs to the instance (OpDef.instantiate, a user AsExtOp class with per-instance op_def) next to "
            "class-per-definition ones (RegisteredOp, std Not/DivMod/Noop) in nested DFGs and conditionals; in 40-50% of "
            "the cases the non-default configurations are drawn by a DotRenderer object that has drawn another HUGR "
            "before and draws the HUGR twice.  "
            "non-trivial = the HUGR has a nested container (cluster inside a cluster) and at least one "
            "non-value link (order/const/function/control-flow)")
    trusted = ["harness/props/c20.py: line-oriented parser of the DOT text the graphviz package emits "
               "(fails closed on any unexpected line); display names and metadata strings are read from the "
               "HUGR through op.name()/op_def().name/str(value) as render.py does",
               "the graphviz Python package (DOT text emission) is outside the model"]
    assumptions = ["hierarchy reached from the root covers the HUGR's nodes (checked per case by the monitor)"]

    def generate(self, rng, tier, ctx):
        n = 75 if tier == "quick" else 1200
        cases = []
        for i in range(n):
            seed = rng.randrange(1 << 30)
            r = rng.random()
            cases.append({"seed": seed, "root": None, "reload": r < 0.25,
                          "mutate": rng.randint(1, 3) if 0.25 <= r < 0.55 else 0,
                          "cfgs": [0] + rng.sample(range(1, 6), 2 if tier == "quick" else 3)})
        # seeded round 2: extension operations whose definition is a property of the INSTANCE
        # (generic ExtOp, classes with a per-instance op_def) and renderers that are used more than once.
        # drawn from a second generator so that the stream above stays what it was
        r2 = random.Random(rng.randrange(1 << 30))
        for c in cases:
            x = r2.random()
            # Custom -> ExtOp through Hugr.resolve_extensions (what a user does after load_json)
            c["resolve"] = x < 0.45
            # configurations other than the first go through DotRenderer objects that have already drawn
            # another HUGR, and draw this one twice
            c["shared"] = r2.random() < 0.4
        for i in range(14 if tier == "quick" else 200):
            cases.append({"ext": r2.randrange(1 << 30), "reload": False, "resolve": False,
                          "shared": r2.random() < 0.5,
                          "cfgs": [0] + r2.sample(range(1, 6), 2 if tier == "quick" else 3)})
        return cases

    def corpus(self, ctx):
        # minimised triggers of defects found on the original tree (DESIGN.md section 5)
        return [
            {"prog": "loadconst_nested", "reload": False, "cfgs": [0, 1]},      # D14: order edge out of a LoadConst
            {"prog": "call_nested", "reload": False, "cfgs": [0, 3]},           # D14: order edge out of a Call
            {"prog": "order_reload", "reload": True, "cfgs": [0, 2]},           # D11: reloaded HUGR with an order edge
            {"prog": "divmod_partial", "reload": False, "cfgs": [0, 1]},        # D7: unused last output still gets a cell
            {"prog": "divmod_partial", "reload": True, "cfgs": [0]},
            {"prog": "index_reuse", "reload": False, "cfgs": [0, 4]},          # children not in index order
            # seeded round 2 (C20-d): display names of extension operations are per instance, not per Python class
            {"prog": "extops_instantiate", "reload": False, "cfgs": [0, 1]},    # fadd, fmul, fneg: three generic ExtOp nodes
            {"prog": "extops_per_instance_class", "reload": False, "cfgs": [0, 5]},   # one AsExtOp class, two definitions
            {"prog": "extops_instantiate", "reload": True, "resolve": True, "cfgs": [0, 2]},   # load_json + resolve_extensions
            {"prog": "extop_single", "reload": False, "shared": True, "cfgs": [0, 2, 1]},   # a renderer that drew another HUGR before
        ]

    def build(self, case):
        if "prog" in case:
            return named_program(case["prog"])
        if "ext" in case or "extprog" in case:
            p = case.get("extprog") or gen_ext_program(random.Random(case["ext"]))
            return run_ext_program(p), p
        p = progs.gen_program(random.Random(case["seed"]), case.get("root"))
        h = progs.run(p).hugr
        if case.get("mutate"):
            if not mutate(h, random.Random(case["seed"] + 17), case["mutate"]):
                h = progs.run(p).hugr          # the store left dangling links (C04's concern): draw it unmutated
        return h, p

    def observe(self, case, ctx):
        from hugr.hugr import Hugr
        from hugr.hugr.render import PALETTE, RenderConfig, DotRenderer
        h, p = self.build(case)
        if case.get("reload"):
            try:
                h = Hugr.load_json(h.to_json())
            except Exception as e:
                return {"error": "reload:" + type(e).__name__, "prog": p}
        if case.get("resolve"):
            try:
                h.resolve_extensions(registry_for(h))
            except Exception as e:
                return {"error": "resolve:" + type(e).__name__, "prog": p}
        before = json.dumps(hobs.dump(h), sort_keys=True, default=repr)
        view = hugr_view(h)
        rs = []
        for ci in case["cfgs"]:
            pal, q = CONFIGS[ci]
            palette = PALETTE[pal]
            cfg = {"pal": {f: getattr(palette, f) for f in PAL_FIELDS}, "qualify": q}
            try:
                if ci == 0:
                    src = h.render_dot().source                    # the public entry point, default config
                elif case.get("shared"):
                    # one DotRenderer object draws a different HUGR first, then this one twice
                    rend = DotRenderer(RenderConfig(palette=palette, qualify_op_name=q))
                    rend.render(warmup_hugr())
                    src = rend.render(h).source
                    src2 = rend.render(h).source
                    if src2 != src:
                        rs.append([cfg, parse_dot(src)])
                        src = src2                                 # both drawings are judged
                else:
                    src = h.render_dot(RenderConfig(palette=palette, qualify_op_name=q)).source
                rs.append([cfg, parse_dot(src)])
            except ParseError as e:
                rs.append([cfg, {"error": "ParseError: " + str(e)[:200]}])
            except Exception as e:
                rs.append([cfg, {"error": type(e).__name__}])
        after = json.dumps(hobs.dump(h), sort_keys=True, default=repr)
        return {"view": view, "rs": rs, "unchanged": before == after, "prog": p}

    # -- literals
    def literal(self, case, obs, ctx):
        col = ctx.__dict__.setdefault("colors", fw.Interner())
        # strings (lists of code points) that occur more than once in a case are bound once by a `let`:
        # three quarters of a literal used to be repeated copies of type labels and operation names
        names = {}

        def gs(x):
            if len(x) < 3:
                return gs_plain(x)
            if x not in names:
                names[x] = "s%d" % len(names)
            return names[x]
        if "error" in obs:
            # the HUGR could not even be obtained: an empty view with a failed rendering
            return ("(CRender {| hv_tree := HNode {| ni_idx := 0; ni_name_q := []; ni_name_u := []; ni_nin := 0%nat; "
                    "ni_nout := 0%nat; ni_meta := [] |} []; hv_nodes := []; hv_links := [] |} [] false)")

        def ginfo(i):
            return ("{| ni_idx := %s; ni_name_q := %s; ni_name_u := %s; ni_nin := %s; ni_nout := %s; ni_meta := %s |}"
                    % (gZ(i["idx"]), gs(i["nq"]), gs(i["nu"]), gnat(i["nin"]), gnat(i["nout"]),
                       glist(gpair(gs(k), gs(v)) for k, v in i["meta"])))

        def gtree(t):
            return gapp("HNode", ginfo(t["info"]), glist(gtree(c) for c in t["ch"]))

        def gkind(k):
            if k[0] == "value":
                return gapp("KValue", gs(k[1]))
            return {"order": "KOrder", "const": "KConst", "function": "KFunction", "cf": "KCF"}.get(k[0], "KOrder")

        def glink(l):
            return "{| l_src := %s; l_soff := %s; l_dst := %s; l_doff := %s; l_kind := %s |}" % (
                gZ(l[0]), gZ(l[1]), gZ(l[2]), gZ(l[3]), gkind(l[4]))

        def gcfg(c):
            return "{| c_pal := {| %s |}; c_qualify := %s |}" % (
                "; ".join("p_%s := %s" % (f, gN(col(c["pal"][f]))) for f in PAL_FIELDS), gbool(c["qualify"]))

        def gstmt(s):
            return ("{| ns_id := %s; ns_label := %s; ns_data := %s; ns_in := %s; ns_out := %s; ns_back := %s; ns_border := %s |}"
                    % (gZ(s["id"]), gs(s["label"]), gs(s["data"]), glist(map(gZ, s["ins"])), glist(map(gZ, s["outs"])),
                       gN(col(s["back"])), gN(col(s["border"]))))

        def gnode(d):
            if d["cluster"] is None:
                return gapp("DLeaf", gstmt(d["stmt"]))
            c = d["cluster"]
            return gapp("DCluster", gZ(c["id"]), glist(gnode(x) for x in c["body"]), gstmt(d["stmt"]), gN(col(c["color"])))

        def gdot(d):
            if "error" in d:
                return "None"
            return "(Some {| d_bg := %s; d_top := %s; d_edges := %s |})" % (
                gN(col(d["bg"])), gnode(d["top"]),
                glist("{| e_src := %s; e_sport := %s; e_dst := %s; e_dport := %s; e_label := %s; e_color := %s |}" % (
                    gZ(e["src"]), gZ(e["sport"]), gZ(e["dst"]), gZ(e["dport"]), gs(e["label"]), gN(col(e["color"])))
                    for e in d["edges"]))
        v = obs["view"]
        bad_kind = any(l[4][0] == "error" for l in v["links"])
        hv = "{| hv_tree := %s; hv_nodes := %s; hv_links := %s |}" % (
            gtree(v["tree"]), glist(map(gZ, v["nodes"])), glist(glink(l) for l in v["links"]))
        rs = glist(gpair(gcfg(c), gdot(d)) for c, d in obs["rs"])
        body = gapp("CRender", hv, rs, gbool(obs["unchanged"] and not bad_kind))
        lets = "".join("let %s : list Z := %s in " % (nm, gs_plain(x)) for x, nm in names.items())
        return "(" + lets + body + ")"

    # -- classification
    def nontrivial(self, case, obs):
        if "error" in obs:
            return True
        v = obs["view"]

        def depth(t):
            return 1 + max([depth(c) for c in t["ch"]], default=0)
        return depth(v["tree"]) >= 3 and any(l[4][0] != "value" for l in v["links"])

    def describe(self, case, obs):
        o = dict(obs)
        prog = o.pop("prog", None)
        small = {"unchanged": o.get("unchanged"), "error": o.get("error"),
                 "renderings": [d.get("error", "ok") if isinstance(d, dict) else "ok" for _, d in o.get("rs", [])],
                 "nodes": len(o["view"]["nodes"]) if "view" in o else None,
                 "links": len(o["view"]["links"]) if "view" in o else None}
        return {"input": case, "program": prog, "observed": small}

    def signature(self, case, obs, ctx):
        if "error" in obs:
            return "render:" + obs["error"]
        errs = sorted({d["error"].split(":")[0] for _, d in obs["rs"] if "error" in d})
        if errs:
            return "render:raises:" + ",".join(errs) + (":reloaded" if case.get("reload") else "")
        if not obs["unchanged"]:
            return "render:modifies-hugr"
        return "render:drawing-differs" + (":reloaded" if case.get("reload") else "")

    def shrink(self, case):
        if "ext" in case or "extprog" in case:
            p = case.get("extprog") or gen_ext_program(random.Random(case["ext"]))
            rest = {k: v for k, v in case.items() if k != "ext"}
            for q in shrink_ext_program(p):
                yield {**rest, "extprog": q}
        if len(case.get("cfgs", [])) > 1:
            for c in case["cfgs"]:
                yield {**case, "cfgs": [c]}

    def neighbours(self, case, rng):
        if "seed" in case:
            for k in range(30):
                yield {**case, "seed": case["seed"] + 1 + k, "cfgs": list(range(6))}
        if "ext" in case:
            for k in range(30):
                yield {**case, "ext": case["ext"] + 1 + k, "cfgs": list(range(6))}

    def distribution(self, cases, observations):
        d = {"reloaded": 0, "mutated": sum(1 for c in cases if c.get("mutate")), "nodes": [], "links_by_kind": {}, "render_errors": 0, "stmt_kinds": {},
             "resolved_extensions": sum(1 for c in cases if c.get("resolve")),
             "reused_renderer": sum(1 for c in cases if c.get("shared")),
             "extension_op_programs": sum(1 for c in cases if "ext" in c or "extprog" in c),
             "hugrs_with_2plus_extension_op_definitions": 0}

        def infos(t):
            yield t["info"]
            for x in t["ch"]:
                yield from infos(x)
        for c, o in zip(cases, observations):
            d["reloaded"] += bool(c.get("reload"))
            if "view" not in o:
                continue
            d["hugrs_with_2plus_extension_op_definitions"] += len({i["nq"] for i in infos(o["view"]["tree"]) if i["nq"] != i["nu"]}) >= 2
            d["nodes"].append(len(o["view"]["nodes"]))
            for l in o["view"]["links"]:
                d["links_by_kind"][l[4][0]] = d["links_by_kind"].get(l[4][0], 0) + 1
            d["render_errors"] += sum(1 for _, x in o["rs"] if "error" in x)
            if o.get("prog") and not isinstance(o["prog"], str):
                for k, v in progs.kinds_of(o["prog"]).items():
                    d["stmt_kinds"][k] = d["stmt_kinds"].get(k, 0) + v
        ns = sorted(d["nodes"])
        d["nodes"] = {"min": ns[0], "median": ns[len(ns) // 2], "max": ns[-1]} if ns else {}
        return d


# ----------------------------------------------------------------------------- extension operations (seeded round 2)
# The display name of an extension operation is a property of the operation INSTANCE: generic ops.ExtOp nodes
# (OpDef.instantiate, Custom.resolve / Hugr.resolve_extensions) and user classes whose op_def() depends on
# the instance share one Python class between many definitions.

_EXT = {}


def ext_env():
    """operations of every flavour, by spec (built once; hugr is imported lazily like everywhere in this file)"""
    if _EXT:
        return _EXT
    from dataclasses import dataclass
    from hugr import ext, ops, tys
    from hugr.std.float import FLOAT_OPS_EXTENSION, FLOAT_T
    from hugr.std.int import INT_OPS_EXTENSION, int_t
    from hugr.std.logic import EXTENSION as LOGIC_EXTENSION, Not
    from hugr.std.int import DivMod

    X = ext.Extension("verif.c20", ext.Version(0, 1, 0))
    B, F = tys.Bool, FLOAT_T
    gate_sigs = {"flip": ([B], [B]), "both": ([B, B], [B]), "scale": ([F, F], [F]), "sign": ([F], [B]),
                 "fork": ([B], [B, B]), "sink": ([F], [])}
    for nm, (i, o) in gate_sigs.items():
        X.add_op_def(ext.OpDef(nm, ext.OpDefSig(tys.FunctionType(i, o)), description="gate " + nm))

    @dataclass(frozen=True)
    class Gate(ops.AsExtOp):                      # one class, one definition per instance (cf. tests/conftest.py OneQbGate)
        which: str

        def op_def(self):
            return X.get_op(self.which)

    @X.register_op("Mix", signature=tys.FunctionType([F, B], [F]))
    @dataclass(frozen=True)
    class MixDef(ops.RegisteredOp):               # one class, one definition
        pass

    @X.register_op("Pick", signature=tys.FunctionType([B, F, F], [F]))
    @dataclass(frozen=True)
    class PickDef(ops.RegisteredOp):
        pass

    def ty(t):
        return {"B": B, "F": F, "I": int_t(5), "J": int_t(6)}[t]

    # spec (tuple) -> (ins, outs, maker).  "f" is float64 as the standard float operations declare it (an unresolved
    # tys.Opaque, which hugr-py does not consider equal to FLOAT_T): usable wherever "F" is needed, but kept apart
    # where the builder compares rows (outputs of the cases of a conditional)
    table = {}

    def put(spec, ins, outs, mk):
        table[spec] = (list(ins), list(outs), mk)
    for nm in ("fadd", "fsub", "fmul", "fdiv", "fmax", "fmin", "fpow"):
        put(("float", nm), "FF", "f", (lambda nm=nm: FLOAT_OPS_EXTENSION.get_op(nm).instantiate()))
    for nm in ("fneg", "fabs", "ffloor", "fceil", "fround"):
        put(("float", nm), "F", "f", (lambda nm=nm: FLOAT_OPS_EXTENSION.get_op(nm).instantiate()))
    for nm in ("feq", "fne", "flt", "fgt", "fle", "fge"):
        put(("float", nm), "FF", "B", (lambda nm=nm: FLOAT_OPS_EXTENSION.get_op(nm).instantiate()))
    for nm in ("And", "Or", "Xor", "Eq"):
        put(("logic", nm), "BB", "B", (lambda nm=nm: LOGIC_EXTENSION.get_op(nm).instantiate()))
    put(("logic", "Not"), "B", "B", lambda: LOGIC_EXTENSION.get_op("Not").instantiate())
    for w, t in ((5, "I"), (6, "J")):
        for nm in ("iadd", "isub", "imul", "iand", "ior", "ixor", "imax_u", "imin_s"):
            put(("int", nm, w), t + t, t,
                (lambda nm=nm, w=w, t=t: INT_OPS_EXTENSION.get_op(nm).instantiate(
                    [tys.BoundedNatArg(w)], tys.FunctionType([ty(t), ty(t)], [ty(t)]))))
        for nm in ("ineg", "inot", "iabs"):
            put(("int", nm, w), t, t,
                (lambda nm=nm, w=w, t=t: INT_OPS_EXTENSION.get_op(nm).instantiate(
                    [tys.BoundedNatArg(w)], tys.FunctionType([ty(t)], [ty(t)]))))
        for nm in ("ieq", "ilt_u", "ige_s"):
            put(("int", nm, w), t + t, "B",
                (lambda nm=nm, w=w, t=t: INT_OPS_EXTENSION.get_op(nm).instantiate(
                    [tys.BoundedNatArg(w)], tys.FunctionType([ty(t), ty(t)], [tys.Bool]))))
    for nm, (i, o) in gate_sigs.items():
        code = lambda r: "".join("B" if x is B else "F" for x in r)
        put(("gate", nm), code(i), code(o), (lambda nm=nm: Gate(nm)))
        put(("gatedef", nm), code(i), code(o), (lambda nm=nm: X.get_op(nm).instantiate()))
    put(("reg", "Mix"), "FB", "F", lambda: MixDef())
    put(("reg", "Pick"), "BFF", "F", lambda: PickDef())
    put(("std", "Not"), "B", "B", lambda: Not)
    put(("std", "DivMod"), "II", "II", lambda: DivMod)
    for t in "BFIJ":
        put(("noop", t), t, t, (lambda t=t: ops.Noop(ty(t))))
        put(("custom", "c" + t), t + t, t,
            (lambda t=t: ops.Custom("c" + t, tys.FunctionType([ty(t), ty(t)], [ty(t)]), extension="verif.ext")))
    _EXT.update({"table": table, "ty": ty, "ext": X,
                 "std": [FLOAT_OPS_EXTENSION, INT_OPS_EXTENSION, LOGIC_EXTENSION]})
    return _EXT


def mk_ext_op(spec):
    return ext_env()["table"][tuple(spec)][2]()


def registry_for(h):
    """the standard extensions plus a definition for every operation name the HUGR uses from an extension that
    is not a standard one, so that Hugr.resolve_extensions turns every Custom operation into an ExtOp"""
    from hugr import ext, ops, tys
    from hugr.std import PRELUDE
    from hugr.std.float import FLOAT_OPS_EXTENSION, FLOAT_TYPES_EXTENSION
    from hugr.std.int import INT_OPS_EXTENSION, INT_TYPES_EXTENSION
    from hugr.std.logic import EXTENSION as LOGIC_EXTENSION
    reg = ext.ExtensionRegistry()
    std = [PRELUDE, FLOAT_OPS_EXTENSION, FLOAT_TYPES_EXTENSION, INT_OPS_EXTENSION, INT_TYPES_EXTENSION, LOGIC_EXTENSION]
    for e in std:
        reg.add_extension(e)
    known = {e.name for e in std}
    mine = {}
    for n in h:
        op = h[n].op
        if isinstance(op, ops.Custom) and op.extension and op.extension not in known:
            e = mine.get(op.extension)
            if e is None:
                e = mine[op.extension] = ext.Extension(op.extension, ext.Version(0, 1, 0))
            if op.op_name not in e.operations:
                e.add_op_def(ext.OpDef(op.op_name, ext.OpDefSig(None, binary=True), description=op.description))
    for e in mine.values():
        reg.add_extension(e)
    return reg


_WARM = []


def warmup_hugr():
    """the HUGR a shared DotRenderer draws before the one under test: one node of every flavour of operation"""
    if not _WARM:
        _WARM.append(run_ext_program({"ins": ["F", "F", "B", "I"], "outs": [4, 8, 10], "body": [
            {"k": "op", "op": ["float", "fadd"], "args": [0, 1], "outs": [4]},
            {"k": "op", "op": ["gate", "flip"], "args": [2], "outs": [5]},
            {"k": "op", "op": ["reg", "Mix"], "args": [4, 5], "outs": [6]},
            {"k": "op", "op": ["std", "Not"], "args": [5], "outs": [7]},
            {"k": "dfg", "args": [7], "ins": [20], "outs": [8], "inner_outs": [21], "body": [
                {"k": "op", "op": ["logic", "Xor"], "args": [20, 2], "outs": [21]}]},
            {"k": "op", "op": ["int", "iadd", 5], "args": [3, 3], "outs": [9]},
            {"k": "op", "op": ["custom", "cI"], "args": [9, 3], "outs": [10]},
        ]}))
    return _WARM[0]


OP_WEIGHT = {"float": 5, "logic": 4, "int": 3, "gate": 5, "gatedef": 2, "reg": 2, "std": 1, "noop": 1, "custom": 1}


def gen_ext_program(rng):
    """a well-formed builder program (as data) over Bool/float64/int<5>/int<6> whose operations are extension
    operations of every flavour, with nested DFGs and conditionals that also use wires of enclosing regions"""
    env = ext_env()
    table = env["table"]
    specs = sorted(table, key=repr)
    weights = [OP_WEIGHT[s[0]] for s in specs]
    counter = [0]

    def fresh():
        counter[0] += 1
        return counter[0] - 1

    def region(avail, outer, depth, budget):
        """avail: [(wire, ty)] defined in this region; outer: wires of enclosing regions"""
        body = []
        for _ in range(budget):
            pool = avail + (outer if rng.random() < 0.3 else [])
            r = rng.random()
            if r < 0.14 and depth < 3 and pool:
                args = [rng.choice(pool) for _ in range(rng.randint(0, 2))]
                ins = [(fresh(), t) for _, t in args]
                inner, inner_avail = region(list(ins), avail + outer, depth + 1, rng.randint(1, 4))
                k = rng.randint(1, min(2, len(inner_avail))) if inner_avail else 0
                io = rng.sample(inner_avail, k)
                outs = [(fresh(), t) for _, t in io]
                body.append({"k": "dfg", "args": [w for w, _ in args], "ins": [w for w, _ in ins], "body": inner,
                             "inner_outs": [w for w, _ in io], "outs": [w for w, _ in outs]})
                avail = avail + outs
                continue
            if r < 0.22 and depth < 3 and any(t == "B" for _, t in pool):
                cond = rng.choice([w for w, t in pool if t == "B"])
                args = [rng.choice(pool) for _ in range(rng.randint(1, 2))]
                cases, out_tys = [], None
                for ci in range(2):
                    ins = [(fresh(), t) for _, t in args]
                    inner, inner_avail = region(list(ins), avail + outer, depth + 1, rng.randint(0, 3))
                    if out_tys is None:
                        io = rng.sample(inner_avail, rng.randint(1, min(2, len(inner_avail))))
                        out_tys = [t for _, t in io]
                    else:
                        io = []
                        for t in out_tys:
                            c = [x for x in inner_avail if x[1] == t]
                            if not c:          # produce one from the inputs of the case
                                src = next(x for x in ins if x[1] == t) if any(x[1] == t for x in ins) else None
                                if src is None:
                                    break
                                c = [src]
                            io.append(rng.choice(c))
                        if len(io) != len(out_tys):
                            cases = None
                            break
                    cases.append({"ins": [w for w, _ in ins], "body": inner, "outs": [w for w, _ in io]})
                if cases is None:
                    continue
                outs = [(fresh(), t) for t in out_tys]
                body.append({"k": "cond", "cond": cond, "args": [w for w, _ in args], "cases": cases,
                             "outs": [w for w, _ in outs]})
                avail = avail + outs
                continue
            for _try in range(8):
                spec = rng.choices(specs, weights)[0]
                ins, outs, _mk = table[spec]
                have = {t.upper() for _, t in pool}
                if all(t in have for t in ins):
                    break
            else:
                continue
            args = [rng.choice([w for w, t in pool if t.upper() == ti]) for ti in ins]
            ows = [(fresh(), t) for t in outs]
            st = {"k": "op", "op": list(spec), "args": args, "outs": [w for w, _ in ows]}
            if rng.random() < 0.15:
                st["md"] = rng.choice([{"note": "x<y"}, {"k": [1, 2]}, {"ü": None, "n": 3}])
            body.append(st)
            avail = avail + ows
        return body, avail

    in_tys = [rng.choice("BBFFIJ") for _ in range(rng.randint(1, 4))]
    ins = [(fresh(), t) for t in in_tys]
    body, avail = region(list(ins), [], 0, rng.randint(3, 12))
    outs = rng.sample(avail, rng.randint(0, min(3, len(avail))))
    return {"ins": in_tys, "body": body, "outs": [w for w, _ in outs]}


def run_ext_program(p):
    from hugr.build import Dfg
    ty = ext_env()["ty"]
    d = Dfg(*[ty(t) for t in p["ins"]])
    wires = dict(enumerate(d.inputs()))

    def body(b, stmts):
        for st in stmts:
            k = st["k"]
            if k == "op":
                kw = {"metadata": st["md"]} if st.get("md") is not None else {}
                n = b.add_op(mk_ext_op(st["op"]), *[wires[w] for w in st["args"]], **kw)
                for i, w in enumerate(st["outs"]):
                    wires[w] = n.out(i)
            elif k == "dfg":
                with b.add_nested(*[wires[w] for w in st["args"]]) as inner:
                    for w, x in zip(st["ins"], inner.inputs()):
                        wires[w] = x
                    body(inner, st["body"])
                    inner.set_outputs(*[wires[w] for w in st["inner_outs"]])
                for i, w in enumerate(st["outs"]):
                    wires[w] = inner.parent_node.out(i)
            elif k == "cond":
                with b.add_conditional(wires[st["cond"]], *[wires[w] for w in st["args"]]) as cb:
                    for i, c in enumerate(st["cases"]):
                        with cb.add_case(i) as cc:
                            for w, x in zip(c["ins"], cc.inputs()):
                                wires[w] = x
                            body(cc, c["body"])
                            cc.set_outputs(*[wires[w] for w in c["outs"]])
                for i, w in enumerate(st["outs"]):
                    wires[w] = cb.parent_node.out(i)
            else:
                raise ValueError(k)
    body(d, p["body"])
    d.set_outputs(*[wires[w] for w in p["outs"]])
    return d.hugr


def shrink_ext_program(p):
    """drop trailing statements of the outermost body (outputs that lose their wire are dropped too)"""
    def defined(stmts, acc):
        for st in stmts:
            acc.update(st["outs"])
        return acc
    for cut in (len(p["body"]) // 2, len(p["body"]) - 1):
        if 0 <= cut < len(p["body"]):
            b = p["body"][:cut]
            ok = defined(b, set(range(len(p["ins"]))))
            yield {"ins": p["ins"], "body": b, "outs": [w for w in p["outs"] if w in ok]}


def mutate(h, rng, k):
    """delete leaf nodes and add new ones (free indices are reused, so children lists are no longer in
    index order); returns False if the store is left with a link to a dead node"""
    from hugr import ops, tys
    for _ in range(k):
        leaves = [n for n in h if h[n].parent is not None and not h.children(n)
                  and type(h[n].op).__name__ not in ("Input", "Output", "ExitBlock")]
        if not leaves:
            break
        n = rng.choice(leaves)
        p = h[n].parent
        try:
            h.delete_node(n)
        except Exception:
            return False           # the store's own defect (C04), not the renderer's
        if any(a.node.idx == n.idx or b.node.idx == n.idx for a, b in h.links()):
            return False           # dangling link left behind (C04)
        parents = [p] + [m for m in h if h.children(m) and type(h[m].op).__name__ in ("DFG", "FuncDefn", "Case", "TailLoop", "DataflowBlock")]
        par = rng.choice(parents)
        if rng.random() < 0.5:
            op = ops.Custom("mut", tys.FunctionType([tys.Bool], [tys.Bool]), extension="verif.ext")
        else:              # extension operations of every flavour (generic ExtOp, per-instance classes, registered classes)
            table = ext_env()["table"]
            op = mk_ext_op(rng.choice(sorted(table, key=repr)))
        new = h.add_node(op, par, op.num_out)
        tgt = [m for m in h.children(par) if m != new and type(h[m].op).__name__ != "Input"]
        if tgt and rng.random() < 0.7:
            h.add_order_link(new, rng.choice(tgt))
    live = {n.idx for n in h}
    return all(s.node.idx in live and t.node.idx in live for s, t in h.links())


def named_program(name):
    from hugr import ops, tys, val
    from hugr.build import Dfg, Module
    from hugr.std.int import DivMod, INT_T
    from hugr.std.logic import Not
    if name == "loadconst_nested":
        d = Dfg()
        l = d.load(val.TRUE)
        with d.add_nested() as inner:
            r = inner.add_op(Not, l)
            inner.set_outputs(r)
        d.set_outputs(inner)
        return d.hugr, name
    if name == "call_nested":
        m = Module()
        f = m.declare_function("f", tys.PolyFuncType([], tys.FunctionType([], [tys.Bool, tys.Bool])))
        g = m.define_main([])
        c = g.call(f)
        with g.add_nested() as inner:
            r = inner.add_op(Not, c[0])
            inner.set_outputs(r)
        g.set_outputs(inner, c[1])
        return m.hugr, name
    if name == "order_reload":
        d = Dfg(tys.Bool)
        (b,) = d.inputs()
        n1 = d.add_op(Not, b)
        n2 = d.add_op(Not, b)
        d.add_state_order(n1, n2)
        d.set_outputs(n1, n2)
        return d.hugr, name
    if name == "divmod_partial":
        d = Dfg(INT_T, INT_T)
        a, b = d.inputs()
        dm = d.add_op(DivMod, a, b, metadata={"k": [1, {"x": None}], "ü": "a<b"})
        with d.add_nested() as inner:
            r = inner.add_op(ops.Noop(), dm[0])
            inner.set_outputs(r)
        d.set_outputs(inner)
        return d.hugr, name
    if name == "index_reuse":
        d = Dfg(tys.Bool)
        (b,) = d.inputs()
        first = d.add_op(ops.Noop(), b)
        second = d.add_op(ops.Noop(), first)
        d.hugr.delete_node(first)
        third = d.add_op(ops.Noop(), b)
        d.hugr.add_link(third.out(0), second.inp(0))
        d.set_outputs(second)
        return d.hugr, name
    if name == "extops_instantiate":       # the demo of seeded change C20-d
        from hugr.std.float import FLOAT_OPS_EXTENSION, FLOAT_T
        d = Dfg(FLOAT_T, FLOAT_T, tys.Bool)
        a, b, c = d.inputs()
        s = d.add_op(FLOAT_OPS_EXTENSION.get_op("fadd").instantiate(), a, b)
        p = d.add_op(FLOAT_OPS_EXTENSION.get_op("fmul").instantiate(), s, b)
        n = d.add_op(FLOAT_OPS_EXTENSION.get_op("fneg").instantiate(), p)
        nc = d.add_op(Not, c)
        d.set_outputs(n, nc)
        return d.hugr, name
    if name == "extops_per_instance_class":
        return run_ext_program({"ins": ["B", "F"], "outs": [3, 4], "body": [
            {"k": "op", "op": ["gate", "flip"], "args": [0], "outs": [2]},
            {"k": "op", "op": ["gate", "both"], "args": [2, 0], "outs": [3]},
            {"k": "op", "op": ["gate", "scale"], "args": [1, 1], "outs": [4]}]}), name
    if name == "extop_single":
        return run_ext_program({"ins": ["F"], "outs": [1], "body": [
            {"k": "op", "op": ["float", "fmul"], "args": [0, 0], "outs": [1]}]}), name
    raise ValueError(name)


PROP = C20()
