"""C20 — rendering draws every node, port and link exactly once
(model: coq/model/Render.v, spec: coq/spec/RenderS.v, proofs: coq/proofs/RenderP.v)."""
import html
import json
import os
import pickle
import random
import re
import sys

import fw
import hobs
import progs
from fw import gZ, gN, glist, gopt, gpair, gapp, gbool, gnat

PAL_FIELDS = ["background", "node", "edge", "dark", "const", "discard", "node_border", "port_border"]
CONFIGS = [("default", False), ("default", True), ("nb", False), ("zx", True), ("nb", True), ("zx", False)]


class ParseError(Exception):
    pass


def gs_plain(s):
    if not s:
        return "[]"
    return "[" + "; ".join(str(ord(c)) for c in s) + "]%Z"


gs = gs_plain


# ----------------------------------------------------------------------------- DOT text -> abstract tree
# A tokenising parser of the DOT language and of the HTML-like node labels.  It extracts what the property speaks
# of - node statements (name = node index) with their display name and port cells, clusters and their nesting, edge
# statements with their end nodes / port offsets / label - and is insensitive to everything else (none of it is
# promised by the property): whitespace and line breaks between tokens and between the elements of a label, `;`/`,`
# separators, quoting style of identifiers and of attribute values, order of attributes in an attribute list or a
# tag, styling attributes (present, absent, or hoisted into `node [...]` / `edge [...]` / `graph [...]` default
# statements, which are APPLIED with DOT's scoping: to the statements after them in the same graph or subgraph and
# in subgraphs opened after them), the graph's identifier and a `strict` keyword, order of the statements inside a
# graph or cluster body (kept as found: Coq compares sibling statements and edges as multisets), subgraphs that are
# not clusters (transparent groups, e.g. `{rank=same ...}`), compass points on edge ends and `tailport`/`headport`
# attributes instead of `node:port`, inline formatting of the label (B/I/U/FONT wrappers or none, where the metadata
# text stands, missing BGCOLOR/COLOR), the text shown inside a port cell, the spelling of the port identifiers
# (`in.3`, `in_3`, `i3` ...: letters, an optional separator, the offset).  Colours, metadata text, cell texts, and the
# orders found are handed on for the DIAGNOSTICS only (model drift, never a verdict).
# It fails closed (ParseError) on what would not be a drawing of the kind the property describes: a node statement
# without an HTML-like label or whose name is not a node index, a label whose tags are unbalanced, text outside table
# cells, a port identifier without an offset or whose direction cannot be told, an edge statement inside a cluster
# that does not hold both its end nodes, a cluster without exactly one statement of its own node directly inside,
# more than one top-level node, undirected edges, trailing text.

_WS = re.compile(r'(?:\s+|//[^\n]*|/\*.*?\*/|^#[^\n]*)*', re.S | re.M)
_IDENT = re.compile(r'[A-Za-z_\u0080-\uffff][A-Za-z0-9_\u0080-\uffff]*')
_NUMERAL = re.compile(r'-?(?:\.\d+|\d+(?:\.\d*)?)')
_QUOTED = re.compile(r'"((?:[^"\\]|\\.)*)"', re.S)
_PORTID = re.compile(r'([A-Za-z]*)([._:]?)(-?\d+)$')
_CLUSTER = re.compile(r'cluster[_.\-]?(\d+)$')
_COMPASS = {"n", "ne", "e", "se", "s", "sw", "w", "nw", "c", "_"}
_TAGNAMES = "TABLE|TR|TD|FONT|BR|B|I|U|O|SUB|SUP|S|IMG|HR|VR"
_TAG = re.compile(r'<(/?)(' + _TAGNAMES + r')((?:\s+[A-Za-z_:][-A-Za-z0-9_:.]*\s*=\s*(?:"[^"]*"|\'[^\']*\'))*)\s*(/?)>', re.I)
_ATTR = re.compile(r'([A-Za-z_:][-A-Za-z0-9_:.]*)\s*=\s*(?:"([^"]*)"|\'([^\']*)\')')
_VOID = {"BR", "IMG", "HR", "VR"}
_LINE = "\x00"                                       # stands for a <BR/> while the text of a cell is assembled


def unq(s):
    return s.replace('\\"', '"')


class _Dot:
    def __init__(self, src):
        self.s = src
        self.i = 0

    def ws(self):
        self.i = _WS.match(self.s, self.i).end()

    def peek(self, lit):
        self.ws()
        return self.s.startswith(lit, self.i)

    def take(self, lit):
        if self.peek(lit):
            self.i += len(lit)
            return True
        return False

    def expect(self, lit):
        if not self.take(lit):
            raise ParseError("expected %r at: %s" % (lit, self.s[self.i:self.i + 60]))

    def ident(self):
        """an ID of the DOT language: ("id"|"num"|"str"|"html", value)"""
        self.ws()
        s, i = self.s, self.i
        if i >= len(s):
            raise ParseError("unexpected end of text")
        if s[i] == '"':
            m = _QUOTED.match(s, i)
            if not m:
                raise ParseError("unterminated string")
            self.i = m.end()
            v = unq(m.group(1))
            while self.peek("+") and self.s.startswith('"', _WS.match(self.s, self.i + 1).end()):   # "a" + "b"
                self.take("+")
                self.ws()
                m = _QUOTED.match(self.s, self.i)
                if not m:
                    raise ParseError("unterminated string")
                self.i = m.end()
                v += unq(m.group(1))
            return ("str", v)
        if s[i] == "<":
            return ("html", self.html())
        m = _NUMERAL.match(s, i)
        if m:
            self.i = m.end()
            return ("num", m.group(0))
        m = _IDENT.match(s, i)
        if m:
            self.i = m.end()
            return ("id", m.group(0))
        raise ParseError("identifier expected at: " + s[i:i + 60])

    def html(self):
        """an HTML-like label <...>: one element (a TABLE, possibly inside FONT/B/... wrappers).  The label may hold
        arbitrary unescaped text (names, metadata), so its end is found by following the known tags: it ends after the
        tag that closes the first element; every `<` that does not begin a well-formed known tag is text"""
        s = self.s
        start = self.i + 1
        stack, root, pos = [], None, start
        for m in _TAG.finditer(s, start):
            close, name, attrs, selfclose = m.group(1), m.group(2).upper(), m.group(3), m.group(4)
            text = s[pos:m.start()]
            pos = m.end()
            if not stack:
                if text.strip() or close or selfclose or name in _VOID:
                    raise ParseError("node label is not one HTML element")
            elif text:
                stack[-1]["ch"].append(text)
            if close:
                if stack[-1]["tag"] != name:
                    raise ParseError("unbalanced tag </%s> in <%s>" % (name, stack[-1]["tag"]))
                el = stack.pop()
                el["close"] = (m.start(), m.end())
                if not stack:
                    root = el
                    break
                continue
            el = {"tag": name, "ch": [], "open": (m.start(), m.end()), "close": (m.end(), m.end()),
                  "attrs": {a.group(1).upper(): (a.group(2) if a.group(2) is not None else a.group(3))
                            for a in _ATTR.finditer(attrs)}}
            if stack:
                stack[-1]["ch"].append(el)
            if selfclose or name in _VOID:
                continue
            stack.append(el)
        if root is None:
            raise ParseError("unterminated HTML label")
        self.i = root["close"][1]
        self.expect(">")
        return root

    def attr_list(self):
        """zero or more [ a=b c=d, e=f; ... ] -> dict (a later assignment wins, as in DOT)"""
        d = {}
        while self.take("["):
            while not self.take("]"):
                k = self.ident()
                if k[0] == "html":
                    raise ParseError("attribute name expected")
                self.expect("=")
                d[k[1]] = self.ident()
                if not self.take(","):
                    self.take(";")
        return d


def _plain(v, what):
    if v is None:
        return ""
    if v[0] == "html":
        raise ParseError(what + ": HTML value not expected")
    return v[1]


def _label_text(v):
    """the text an edge label shows: a plain string, or the text of an HTML-like label (formatting dropped)"""
    if v is None or v[0] != "html":
        return _plain(v, "edge label").strip()       # blanks around a label do not show (the view strips them too)

    def text_of(el):
        return "".join(c if isinstance(c, str) else (" " if c["tag"] == "BR" else text_of(c)) for c in el["ch"])
    return html.unescape(text_of(v[1])).strip()


def _node_index(v):
    if v[0] == "html" or not re.fullmatch(r"-?\d+", v[1]):
        raise ParseError("node statement name is not a node index: %r" % (v[1] if v[0] != "html" else "<html>"))
    return int(v[1])


def _is_kw(a, *words):
    return a[0] == "id" and a[1].lower() in words


def _port_of(v, what):
    """a port identifier -> (prefix in lower case, offset)"""
    m = _PORTID.match(_plain(v, what)) if v is not None else None
    if not m:
        raise ParseError("%s: not <letters><offset>: %r" % (what, None if v is None else str(v[1])[:40]))
    return (m.group(1).lower(), int(m.group(3)))


def _split_compass(v):
    """value of a tailport/headport attribute: "port" or "port:compass" """
    if v is None or v[0] == "html":
        return v
    t = v[1]
    if ":" in t and t.rsplit(":", 1)[1] in _COMPASS:
        t = t.rsplit(":", 1)[0]
    return None if t in _COMPASS else (v[0], t)


def parse_dot(src: str):
    """-> {"bg": colour, "top": node, "edges": [...], "notes": [...]};
    node = {"stmt": {...}, "cluster": None | {"id", "body": [...], "color"}}"""
    p = _Dot(src)
    p.ws()
    kw = p.ident()
    notes = set()
    if _is_kw(kw, "strict"):
        notes.add("strict")
        kw = p.ident()
    if not _is_kw(kw, "digraph"):
        raise ParseError("header: " + src[:60])
    if not p.peek("{"):
        p.ident()                                   # the graph's name: not promised
    p.expect("{")
    edges = []

    def endpoint(first=None):
        n = first if first is not None else p.ident()
        if _is_kw(n, "subgraph") or n[0] == "html":
            raise ParseError("edge end that is not a node")
        port = None
        if p.take(":"):
            port = p.ident()
            if p.take(":"):
                p.ident()                            # compass point: where the line touches the cell, not which cell
            elif port[0] == "id" and port[1] in _COMPASS:
                port = None
        return (n, port)

    def body(path, ndef, edef):
        items, attrs = [], {}
        ndef, edef = dict(ndef), dict(edef)        # defaults set in here end with this body
        while not p.take("}"):
            if p.take(";"):
                continue
            if p.peek("{"):                          # anonymous subgraph: a transparent group
                p.expect("{")
                items.extend(body(path, ndef, edef)["items"])
                notes.add("plain subgraph")
                if p.peek("->"):
                    raise ParseError("edge end that is not a node")
                continue
            a = p.ident()
            if _is_kw(a, "subgraph"):
                name = None if p.peek("{") else p.ident()
                p.expect("{")
                m = _CLUSTER.match(name[1]) if name is not None and name[0] in ("id", "str") else None
                if m:
                    cid = int(m.group(1))
                    c = body(path + [cid], ndef, edef)
                    again = [x for x in items if x[0] == "cluster" and x[1] == cid]
                    if again:                        # the same subgraph opened again: DOT adds to it
                        again[0][2]["items"].extend(c["items"])
                        again[0][2]["attrs"].update(c["attrs"])
                        notes.add("cluster opened more than once")
                    else:
                        items.append(("cluster", cid, c))
                elif name is not None and name[0] in ("id", "str") and name[1].startswith("cluster"):
                    raise ParseError("cluster whose name does not end in a node index: %r" % name[1][:40])
                else:
                    items.extend(body(path, ndef, edef)["items"])     # not a cluster: a transparent group
                    notes.add("plain subgraph")
                if p.peek("->"):
                    raise ParseError("edge end that is not a node")
                continue
            if _is_kw(a, "node", "edge", "graph") and p.peek("["):
                at = p.attr_list()
                {"node": ndef, "edge": edef, "graph": attrs}[a[1].lower()].update(at)
                if a[1].lower() != "graph":
                    notes.add("%s defaults" % a[1].lower())
                continue
            if p.take("="):                          # graph / cluster attribute
                if a[0] == "html":
                    raise ParseError("attribute name expected")
                attrs[a[1]] = p.ident()
                continue
            if p.peek("--"):
                raise ParseError("undirected edge")
            ends = [endpoint(a)]
            while p.take("->"):
                ends.append(endpoint())
            if len(ends) > 1:                        # an edge statement (a chain a -> b -> c is one edge per arrow)
                at = {**edef, **p.attr_list()}
                for k, ((x, xp), (y, yp)) in enumerate(zip(ends, ends[1:])):
                    xp = xp if xp is not None else _split_compass(at.get("tailport"))
                    yp = yp if yp is not None else _split_compass(at.get("headport"))
                    edges.append({"src": _node_index(x), "sp": _port_of(xp, "edge source port"),
                                  "dst": _node_index(y), "dp": _port_of(yp, "edge target port"),
                                  "label": _label_text(at.get("label")),
                                  "color": _plain(at.get("color"), "edge colour"), "path": path})
                continue
            if ends[0][1] is not None:
                raise ParseError("unexpected statement at: " + p.s[p.i:p.i + 60])
            at = {**ndef, **p.attr_list()}           # a node statement
            lab = at.get("label")
            if lab is None or lab[0] != "html":
                raise ParseError("node statement without an HTML label")
            idx = _node_index(a)
            items.append(("stmt", idx, parse_stmt(idx, lab[1])))
        return {"items": items, "attrs": attrs}

    top = body([], {}, {})
    p.ws()
    if p.i != len(src):
        raise ParseError("text after the closing brace")

    inside = {}                                      # node index -> ids of the clusters its statement stands in

    def conv(item, path):
        if item[0] == "stmt":
            inside.setdefault(item[1], set()).update(path)
            return {"stmt": item[2], "cluster": None}
        _, cid, c = item
        own = [x for x in c["items"] if x[0] == "stmt" and x[1] == cid]
        if len(own) != 1:
            raise ParseError("cluster%d holds %d node statements of its own node" % (cid, len(own)))
        inside.setdefault(cid, set()).update(path + [cid])
        rest = [x for x in c["items"] if x is not own[0]]
        return {"stmt": own[0][2], "cluster": {"id": cid, "body": [conv(y, path + [cid]) for y in rest],
                                               "color": _plain(c["attrs"].get("color"), "cluster colour"),
                                               "own_at": c["items"].index(own[0]) - len(rest)}}

    tops = top["items"]
    if len(tops) != 1:
        raise ParseError("expected exactly one top-level node/cluster, got %d" % len(tops))
    tree = conv(tops[0], [])

    # which spelling of the port identifiers means which direction: in*/out* by name, anything else by use
    # (the tail of an edge is an output port, its head an input port)
    dirs = {"in": "in", "i": "in", "inp": "in", "input": "in", "out": "out", "o": "out", "outp": "out", "output": "out"}

    def learn(prefix, d):
        if dirs.setdefault(prefix, d) != d:
            raise ParseError("edge %s names a port %r" % ("tail" if d == "out" else "head", prefix))
    for e in edges:
        learn(e["sp"][0], "out")
        learn(e["dp"][0], "in")

    def direction(prefix):
        if prefix not in dirs:
            raise ParseError("cannot tell the direction of port prefix %r" % prefix)
        return dirs[prefix]
    # the property promises one cell per input and per output port, not where the cells stand: the offsets of each
    # direction are handed over as a sorted multiset (a missing or repeated cell still shows against 0..n-1)
    todo = [tree]                                     # iterative: hierarchies are nested up to 66 deep and more
    while todo:
        node = todo.pop()
        st = node["stmt"]
        ins, outs = [], []
        for (prefix, k), shown in st.pop("cells"):
            (ins if direction(prefix) == "in" else outs).append((k, shown))
        st["ins"], st["outs"] = sorted(k for k, _ in ins), sorted(k for k, _ in outs)
        st["cells_in_order"] = [k for k, _ in ins] == st["ins"] and [k for k, _ in outs] == st["outs"]
        st["cells_show_offset"] = all(str(k) == t for k, t in ins + outs)
        if node["cluster"]:
            todo.extend(node["cluster"]["body"])
    out_edges = []
    for e in edges:
        if e["path"]:
            notes.add("edge inside a cluster")
            for n in (e["src"], e["dst"]):
                if not set(e["path"]) <= inside.get(n, set()):
                    raise ParseError("edge statement inside a cluster that does not hold its end node %d" % n)
        out_edges.append({"src": e["src"], "sport": e["sp"][1], "dst": e["dst"], "dport": e["dp"][1],
                          "label": e["label"], "color": e["color"]})
    return {"bg": _plain(top["attrs"].get("bgcolor"), "bgcolor"), "top": tree, "edges": out_edges, "notes": sorted(notes)}


def parse_stmt(idx, root):
    """the HTML-like label of a node statement -> display name, remaining text, port cells, colours.
    Port cells are the TD elements with a PORT attribute.  The text of the statement is the text of its other cells
    (inline formatting tags dropped, <BR/> = line break, surrounding blanks dropped); the display name is the first
    line of the first cell that shows any text, everything after it is `data` (today: the metadata lines)"""
    cells, blocks = [], []

    def has_table(el):
        return any(not isinstance(c, str) and (c["tag"] == "TABLE" or has_table(c)) for c in el["ch"])

    def text_of(el):
        return "".join(c if isinstance(c, str) else (_LINE if c["tag"] == "BR" else text_of(c)) for c in el["ch"])

    def walk(el):
        if el["tag"] == "TD" and "PORT" in el["attrs"]:
            cells.append((_port_of(("str", el["attrs"]["PORT"]), "node statement %d: PORT" % idx),
                          html.unescape(text_of(el).replace(_LINE, " ")).strip()))
            return
        if el["tag"] != "TABLE" and el["tag"] != "TR" and not has_table(el):
            blocks.append(text_of(el))               # a cell (or a table-less label) holding text
            return
        for c in el["ch"]:
            if isinstance(c, str):
                if c.strip():
                    raise ParseError("node statement %d: text outside the cells" % idx)
            else:
                walk(c)
    walk(root)
    # character references (a renderer that escapes names: &lt; for <) stand for the characters they display as
    lines = [[html.unescape(l).strip() for l in b.split(_LINE)] for b in blocks if b.replace(_LINE, "").strip()]
    label = lines[0][0] if lines else ""
    data = "\n".join([l for l in lines[0][1:]] + [l for b in lines[1:] for l in b]) if lines else ""
    table = root
    while table["tag"] != "TABLE" and any(not isinstance(c, str) for c in table["ch"]):
        table = next(c for c in table["ch"] if not isinstance(c, str))
    at = table["attrs"] if table["tag"] == "TABLE" else {}
    return {"id": idx, "label": label, "data": data, "cells": cells,
            "back": at.get("BGCOLOR", ""), "border": at.get("COLOR", "")}


# ----------------------------------------------------------------------------- the property


def hugr_view(h):
    """what the renderer reads through the public queries"""
    from hugr.ops import AsExtOp
    from hugr import tys

    def info(n):
        op = h[n].op
        # surrounding blanks are dropped on both sides: the label text is read up to blanks around it
        nq = op.name().strip()
        nu = op.op_def().name.strip() if isinstance(op, AsExtOp) else nq
        return {"idx": n.idx, "nq": nq, "nu": nu, "nin": h.num_in_ports(n), "nout": h.num_out_ports(n),
                "meta": [[str(k), str(v)] for k, v in h[n].metadata.items()]}

    def tree(n):
        return {"info": info(n), "ch": [tree(c) for c in h.children(n)]}
    links = []
    for s, t in h.links():
        try:
            k = h.port_kind(s)
            if isinstance(k, tys.ValueKind):
                kk = ["value", str(k.ty).strip()]
            elif isinstance(k, tys.OrderKind):
                kk = ["order"]
            elif isinstance(k, tys.ConstKind):
                kk = ["const"]
            elif isinstance(k, tys.FunctionKind):
                kk = ["function"]
            elif isinstance(k, tys.CFKind):
                kk = ["cf"]
            else:
                kk = ["error", type(k).__name__]
        except Exception as e:
            kk = ["error", type(e).__name__]
        links.append([s.node.idx, s.offset, t.node.idx, t.offset, kk])
    return {"tree": tree(h.root), "nodes": [n.idx for n in h], "links": links}


def drift(view, cfg, d):
    """DIAGNOSTICS ONLY (evidence: "model drift", never a verdict): in what the property does NOT promise, where does
    this drawing differ from the model of today's render.py - colours chosen from the palette, metadata lines, labels
    on non-value edges, text of the port cells, order of cells / sibling statements / edge statements, default
    statements and other constructs the parser met"""
    pal, out = cfg["pal"], set(d.get("notes", []))
    info = {}
    todo = [view["tree"]]
    while todo:
        t = todo.pop()
        info[t["info"]["idx"]] = t
        todo.extend(t["ch"])
    if d["bg"] != pal["background"]:
        out.add("colours differ")
    todo = [d["top"]]
    while todo:
        n = todo.pop()
        st, cl = n["stmt"], n["cluster"]
        t = info.get(st["id"])
        if t is None:
            continue
        want = (pal["edge"], pal["port_border"]) if cl else (pal["node"], pal["background"])
        if (st["back"], st["border"]) != want or (cl and cl["color"] != pal["edge"]):
            out.add("colours differ")
        meta = t["info"]["meta"]
        lines = ([""] + [html.unescape("%s: %s" % (k, v)).strip() for k, v in meta]) if meta else []
        if st["data"] != "\n".join(lines):
            out.add("metadata text differs")
        if not st["cells_in_order"]:
            out.add("port cells not in offset order")
        if not st["cells_show_offset"]:
            out.add("port cell text is not the offset")
        if cl:
            if cl["own_at"] != 0 or [x["stmt"]["id"] for x in cl["body"]] != [c["info"]["idx"] for c in t["ch"]]:
                out.add("statement order inside a cluster differs")
            todo.extend(cl["body"])
    colour = {"value": pal["edge"], "order": pal["dark"], "cf": pal["dark"], "const": pal["const"], "function": pal["const"]}
    if [(e["src"], e["sport"], e["dst"], e["dport"]) for e in d["edges"]] != [tuple(l[:4]) for l in view["links"]]:
        out.add("edge statement order differs")
    kinds = {(l[0], l[1]): l[4][0] for l in view["links"]}
    for e in d["edges"]:
        k = kinds.get((e["src"], e["sport"]))
        if k in colour and e["color"] != colour[k]:
            out.add("colours differ")
        if k is not None and k != "value" and e["label"]:
            out.add("non-value edge labelled")
    return sorted(out)


def sizes_of(view):
    """largest port count, child count, depth, links on one port, name length of a HUGR view (iterative: deep trees)"""
    sz = {"ports": 0, "children": 0, "depth": 0, "fan": 0, "name": 0}
    todo = [(view["tree"], 1)]
    while todo:
        t, dep = todo.pop()
        i = t["info"]
        sz["ports"] = max(sz["ports"], i["nin"], i["nout"])
        sz["children"] = max(sz["children"], len(t["ch"]))
        sz["depth"] = max(sz["depth"], dep)
        sz["name"] = max(sz["name"], len(i["nq"]))
        todo.extend((c, dep + 1) for c in t["ch"])
    per = {}
    for l in view["links"]:
        for key in ((0, l[0], l[1]), (1, l[2], l[3])):
            per[key] = per.get(key, 0) + 1
    sz["fan"] = max(per.values(), default=0)
    return sz


def degeneracy_of(view):
    """which degenerate shapes a HUGR view has (distribution only)"""
    linked_in, linked_out = {}, {}
    for l in view["links"]:
        linked_out.setdefault(l[0], set()).add(l[1])
        linked_in.setdefault(l[2], set()).add(l[3])
    r = {"hugrs_without_any_link": not view["links"], "hugrs_without_any_link_but_with_ports": False,
         "hugrs_of_a_single_node": len(view["nodes"]) == 1, "hugrs_with_a_linkless_node_that_has_ports": False,
         "hugrs_with_an_unlinked_port_below_a_linked_one": False, "hugrs_with_a_container_operation_without_children": False}
    containers = ("DFG", "CFG", "Conditional", "TailLoop", "Case", "Module", "FuncDefn", "DataflowBlock")
    todo = [view["tree"]]
    while todo:
        t = todo.pop()
        i = t["info"]
        todo.extend(t["ch"])
        if i["nin"] + i["nout"] > 0:
            if not view["links"]:
                r["hugrs_without_any_link_but_with_ports"] = True
            if i["idx"] not in linked_in and i["idx"] not in linked_out:
                r["hugrs_with_a_linkless_node_that_has_ports"] = True
        for n, linked in ((i["nin"], linked_in.get(i["idx"], set())), (i["nout"], linked_out.get(i["idx"], set()))):
            if any(k not in linked and any(j > k for j in linked) for k in range(n)):
                r["hugrs_with_an_unlinked_port_below_a_linked_one"] = True
        if not t["ch"] and (i["nq"].split("(")[0] in containers):
            r["hugrs_with_a_container_operation_without_children"] = True
    return r


class C20(fw.Prop):
    id = "C20"
    props_file = "props/C20.v"
    run_file = "run/C20Run.v"
    run_module = "run.C20Run"
    shard = 6
    rule = ("HUGRs built by generated well-formed builder programs (harness/progs.py: all container kinds, "
            "order/const/function/control-flow edges, metadata incl. non-ASCII and nested values, inserted "
            "sub-HUGRs), optionally reloaded from their JSON, each rendered under 2-3 of the 6 "
            "palette x qualify_op_name configurations (the first through render_dot() without a configuration: "
            "whatever RenderConfig() is); the DOT source is parsed into the abstract tree; judged: node statements "
            "(index, one of the node's two display names, cells 0..n-1 per direction), clusters and their nesting, edge "
            "statements (end nodes, offsets, type label on value edges), HUGR unchanged, and across configurations "
            "everything but colours and - when qualification differs - names; colours, metadata text, labels of "
            "non-value edges, cell texts and every order are diagnostics only (model drift).  "
            "a third of the HUGRs are then mutated (leaf nodes deleted, "
            "new nodes added so that freed indices are reused and children lists leave index order; the new nodes "
            "carry Custom or extension operations of every flavour).  "
            "45% of the HUGRs have their Custom operations turned into generic ExtOp by Hugr.resolve_extensions; a "
            "second stream of builder programs over Bool/float64/int<n> uses extension operations whose definition "
            "belongs to the instance (OpDef.instantiate, a user AsExtOp class with per-instance op_def) next to "
            "class-per-definition ones (RegisteredOp, std Not/DivMod/Noop) in nested DFGs and conditionals; in 40-50% of "
            "the cases the non-default configurations are drawn by a DotRenderer object that has drawn another HUGR "
            "before and draws the HUGR twice.  "
            "a third stream (10 quick / 60 thorough, plus 8 corpus entries) sits on size boundaries: nodes with 15..257 "
            "input or output ports (Input, Output, MakeTuple, UnpackTuple, DFG, Custom, Conditional, Case, Call, "
            "FuncDefn, Tag, DataflowBlock successors), containers with up to 1100 children, one port carrying up to "
            "~130 links, nesting up to 66 deep, operation names / metadata keys and values / type labels of "
            "hundreds of characters.  "
            "a fourth stream (16 quick / 120 thorough, plus 8 corpus entries) of degenerate HUGRs: no link at all "
            "(regions that discard every input, modules whose functions ignore their arguments, unused declarations "
            "and constants, every link deleted again), nodes with ports and no link (Hugr.add_node, insert_hugr of "
            "sub-HUGRs nobody is wired to), unlinked ports below the only linked one, order links only, single-node "
            "HUGRs of every operation, containers holding only Input/Output or nothing, unfinished CFGs/loops.  "
            "non-trivial = the HUGR has a nested container (cluster inside a cluster) and at least one "
            "non-value link (order/const/function/control-flow), or it has a node with more than 16 ports in one "
            "direction, more than 16 children, or nesting deeper than 16, or it has no link at all but a node with ports, "
            "or its history customises a renderer made without a configuration.  "
            "a fifth stream (12 quick / 100 thorough, plus 4 corpus entries) renders a HUGR (extension-operation or progs "
            "program) several times around a HISTORY: renderers made without a configuration whose public config is "
            "customised (qualify_op_name, palette), configuration objects changed after a renderer got them, config "
            "assigned as a whole, explicit configurations used, on the HUGR itself / another HUGR / nothing drawn; the "
            "judged renderings go through render_dot(), render_dot(config=None), DotRenderer().render, "
            "DotRenderer(None), DotRenderer(RenderConfig()), an explicit configuration, a configuration object re-used "
            "with changed attributes, a renderer made at the start of the history and left alone; every two renderings of a case under equal options must be the same drawing, "
            "colours and names included (determined_b).  "
            "40% of all cases get metadata put on after building (h[node].metadata[key] = value): the root's \"name\" "
            "(the graph identifier render.py reads; identifiers of every spelling DOT quotes, now and then not a string), "
            "\"name\" and look-alike keys (label, id, title, color) on the root and on inner nodes, string and non-string "
            "values; the before/after comparison of the HUGR covers the metadata dict of every node")
    trusted = ["harness/props/c20.py: tokenising parser of the DOT text the graphviz package emits and of the HTML-like "
               "node labels (insensitive to whitespace, quoting style, attribute and statement order, styling attributes "
               "and where they are set - node/edge/graph default statements are applied with DOT's scoping -, inline "
               "formatting of the label, spelling of the port identifiers; fails closed on structure that is not a "
               "drawing of nodes with port cells, clusters and edges); display names and metadata strings are read from "
               "the HUGR through op.name()/op_def().name/str(value) as render.py does, blanks around names and type "
               "labels dropped on both sides",
               "the graphviz Python package (DOT text emission) is outside the model"]
    assumptions = ["hierarchy reached from the root covers the HUGR's nodes (checked per case by the monitor)"]

    def generate(self, rng, tier, ctx):
        n = 75 if tier == "quick" else 1200
        cases = []
        for i in range(n):
            seed = rng.randrange(1 << 30)
            r = rng.random()
            cases.append({"seed": seed, "root": None, "reload": r < 0.25,
                          "mutate": rng.randint(1, 3) if 0.25 <= r < 0.55 else 0,
                          "cfgs": [0] + rng.sample(range(1, 6), 2 if tier == "quick" else 3)})
        # seeded round 2: extension operations whose definition is a property of the INSTANCE
        # (generic ExtOp, classes with a per-instance op_def) and renderers that are used more than once.
        # drawn from a second generator so that the stream above stays what it was
        r2 = random.Random(rng.randrange(1 << 30))
        for c in cases:
            x = r2.random()
            # Custom -> ExtOp through Hugr.resolve_extensions (what a user does after load_json)
            c["resolve"] = x < 0.45
            # configurations other than the first go through DotRenderer objects that have already drawn
            # another HUGR, and draw this one twice
            c["shared"] = r2.random() < 0.4
        for i in range(14 if tier == "quick" else 200):
            cases.append({"ext": r2.randrange(1 << 30), "reload": False, "resolve": False,
                          "shared": r2.random() < 0.5,
                          "cfgs": [0] + r2.sample(range(1, 6), 2 if tier == "quick" else 3)})
        # seeded round 3: size boundaries (nodes with 17..257 ports, many children, many links on one port, deep
        # nesting, long names and metadata); a third generator, so that the two streams above stay what they were
        r3 = random.Random(r2.randrange(1 << 30))
        for i in range(10 if tier == "quick" else 60):
            cases.append({"big": r3.randrange(1 << 30), "heavy": tier != "quick", "reload": r3.random() < 0.2,
                          "resolve": False, "shared": r3.random() < 0.3,
                          "cfgs": [0] + r3.sample(range(1, 6), 1 if tier == "quick" else 2)})
        # seeded round 4: degenerate HUGRs (no link at all, nodes with ports but no link, a single node, containers that
        # hold nothing); a fourth generator, so that the three streams above stay what they were
        r4 = random.Random(r3.randrange(1 << 30))
        for i in range(16 if tier == "quick" else 120):
            seed = r4.randrange(1 << 30)
            rel, sh = r4.random() < 0.3, r4.random() < 0.3
            cases.append({"deg": seed, "reload": rel and deg_reloadable(gen_deg_program(random.Random(seed))),
                          "resolve": False, "shared": sh,
                          "cfgs": [0] + r4.sample(range(1, 6), 1 if tier == "quick" else 2)})
        # seeded round 5: renderings around HISTORIES of creating / customising / using other renderers and
        # configuration objects (state leaking between renderings: a shared default configuration, a remembered last
        # configuration, a cache keyed by a configuration object); a fifth generator, so that the four streams above
        # stay what they were
        r5 = random.Random(r4.randrange(1 << 30))
        for i in range(12 if tier == "quick" else 100):
            seed = r5.randrange(1 << 30)
            c = {"ext": seed} if r5.random() < 0.7 else {"seed": seed, "root": None, "mutate": 0}
            if "seed" in c:
                # each case holds 3-8 drawings of its HUGR: keep the big builder programs out (literal size)
                try:
                    if len(list(progs.run(progs.gen_program(random.Random(seed), None)).hugr)) > 60:
                        c = {"ext": seed}
                except Exception:
                    c = {"ext": seed}
            c.update({"reload": r5.random() < 0.15, "resolve": False, "shared": False,
                      "cfgs": [0] + r5.sample(range(1, 6), r5.randint(0, 1)),
                      "hist": gen_history(r5, 2 if tier == "quick" else 3)})
            cases.append(c)
        # seeded round 6: metadata on the ROOT and on inner nodes under the keys render.py reads ("name" of the root =
        # graph identifier) and look-alikes, put on after building (h[node].metadata[key] = value); a sixth generator,
        # so that the five streams above stay what they were (the same programs, some now decorated)
        r6 = random.Random(r5.randrange(1 << 30))
        for c in cases:
            if r6.random() < 0.4:
                c["md"] = gen_md(r6)
        return cases

    def corpus(self, ctx):
        # minimised triggers of defects found on the original tree (DESIGN.md section 5)
        return [
            {"prog": "loadconst_nested", "reload": False, "cfgs": [0, 1]},      # D14: order edge out of a LoadConst
            {"prog": "call_nested", "reload": False, "cfgs": [0, 3]},           # D14: order edge out of a Call
            {"prog": "order_reload", "reload": True, "cfgs": [0, 2]},           # D11: reloaded HUGR with an order edge
            {"prog": "divmod_partial", "reload": False, "cfgs": [0, 1]},        # D7: unused last output still gets a cell
            {"prog": "divmod_partial", "reload": True, "cfgs": [0]},
            {"prog": "index_reuse", "reload": False, "cfgs": [0, 4]},          # children not in index order
            # seeded round 2 (C20-d): display names of extension operations are per instance, not per Python class
            {"prog": "extops_instantiate", "reload": False, "cfgs": [0, 1]},    # fadd, fmul, fneg: three generic ExtOp nodes
            {"prog": "extops_per_instance_class", "reload": False, "cfgs": [0, 5]},   # one AsExtOp class, two definitions
            {"prog": "extops_instantiate", "reload": True, "resolve": True, "cfgs": [0, 2]},   # load_json + resolve_extensions
            {"prog": "extop_single", "reload": False, "shared": True, "cfgs": [0, 2, 1]},   # a renderer that drew another HUGR before
            # seeded round 3 (C20-f): one cell per port also for nodes with more than 16 ports, one statement per child
            # and one edge per link however many there are
            {"bigprog": {"form": "tuple", "w": 17, "tys": "B", "rot": 0}, "reload": False, "cfgs": [0, 1]},   # the demo of C20-f
            {"bigprog": {"form": "custom", "w": 33, "w2": 18, "tys": "BQ"}, "reload": False, "cfgs": [0, 4]},
            {"bigprog": {"form": "call", "w": 17, "w2": 17, "tys": "BU"}, "reload": True, "cfgs": [0]},
            {"bigprog": {"form": "tag", "w": 101, "tys": "BQ"}, "reload": False, "cfgs": [0]},      # offsets of three digits
            {"bigprog": {"form": "cfg", "n": 17}, "reload": False, "cfgs": [0, 3]},              # 17 control-flow ports, 17 links into one port
            {"bigprog": {"form": "children", "n": 130, "fan": True}, "reload": False, "shared": True, "cfgs": [0, 2]},
            {"bigprog": {"form": "deep", "d": 33}, "reload": False, "cfgs": [0, 5]},
            {"bigprog": {"form": "names", "L": 257, "K": 17, "V": 300}, "reload": False, "cfgs": [0, 1]},
            # seeded round 4 (C20-g): one cell per port also when the HUGR has no link at all / the node has no link
            {"degprog": {"root": "dfg", "tys": "BB", "keep": [], "items": []}, "reload": False, "cfgs": [0, 1]},   # the demo of C20-g
            {"degprog": {"root": "module", "fns": [{"tys": "BBB", "keep": [], "items": []}], "decls": ["B"], "consts": 1,
                         "alias": False, "call": False}, "reload": True, "cfgs": [0, 4]},           # a function that ignores its arguments
            {"degprog": {"root": "dfg", "tys": "BQ", "keep": [0, 1], "items": [], "unlink": "all"}, "reload": False,
             "shared": True, "cfgs": [0, 2]},                                                    # every link deleted again
            {"degprog": {"root": "dfg", "tys": "B", "keep": [], "items": [
                {"k": "iso", "a": 2, "b": 3, "at": 0, "op": "custom"}, {"k": "empty_dfg"}, {"k": "const"},
                {"k": "iso", "a": 1, "b": 1, "at": 1, "op": "DFG"}, {"k": "ins_cond", "n": 2, "tys": "B"}]},
             "reload": False, "cfgs": [0, 3]},                             # nodes with ports and no link, empty containers
            {"degprog": {"root": "dfg", "tys": "B", "keep": [], "items": [{"k": "gap", "a": 4, "b": 1, "j": 3}, {"k": "order"}]},
             "reload": False, "cfgs": [0, 5]},                             # ports 0..2 below the only linked one; an order link
            {"degprog": {"root": "single", "op": "Module", "tys": ""}, "reload": False, "cfgs": [0, 1]},        # Hugr(): one node
            {"degprog": {"root": "dfg", "tys": "", "keep": [], "items": []}, "reload": True, "cfgs": [0]},      # Dfg(): no port, no link
            {"degprog": {"root": "cfg", "tys": "BU", "blocks": 0}, "reload": False, "cfgs": [0, 2]},            # a CFG nobody finished
            # seeded round 5 (C20-i): what a rendering shows is determined by the HUGR and the options of THAT rendering,
            # not by renderers / configurations created, customised or used before.  Every history has two phases with
            # opposite settings, so that the drawings after the first and after the second differ under a leak whatever
            # state the process is in
            {"prog": "extops_instantiate", "reload": False, "cfgs": [0], "hist": [              # the demo of C20-i
                {"k": "dflt", "q": True, "pal": "nb", "draw": "h", "first": False}, {"k": "draw", "path": "dot"},
                {"k": "draw", "path": "rend"},
                {"k": "dflt", "q": False, "pal": "zx", "draw": None, "first": False}, {"k": "draw", "path": "dot"}]},
            {"prog": "order_reload", "reload": False, "cfgs": [0], "hist": [                    # the palette alone (colours)
                {"k": "dflt", "q": None, "pal": "zx", "draw": None, "first": True}, {"k": "draw", "path": "rend"},
                {"k": "dflt", "q": None, "pal": "nb", "draw": "warm", "first": False}, {"k": "draw", "path": "dotnone"}]},
            {"prog": "extops_per_instance_class", "reload": False, "cfgs": [0], "hist": [       # qualification alone, nothing drawn
                {"k": "draw", "path": "rend"},
                {"k": "dflt", "q": True, "pal": None, "draw": None, "first": False}, {"k": "draw", "path": "rendnone"},
                {"k": "dflt", "q": False, "pal": None, "draw": None, "first": False}, {"k": "draw", "path": "fresh"},
                {"k": "dflt", "q": True, "pal": None, "draw": None, "first": False}, {"k": "draw", "path": "dot"}]},
            {"prog": "extops_instantiate", "reload": True, "resolve": True, "cfgs": [0, 4], "hist": [
                # explicit configurations given / assigned / re-used with changed attributes before default renderings
                {"k": "hold", "ci": None}, {"k": "hold", "ci": 1},
                {"k": "explicit", "ci": 4, "draw": "h"}, {"k": "draw", "path": "dot"}, {"k": "draw", "path": "held", "i": 0},
                {"k": "assign", "ci": 3, "draw": "h"}, {"k": "draw", "path": "rend"}, {"k": "draw", "path": "held", "i": 1},
                {"k": "cfgobj", "ci": 0, "q": True, "pal": "nb", "draw": "h"}, {"k": "draw", "path": "fresh"},
                {"k": "draw", "path": "recfg", "ci0": 1, "ci": 2}, {"k": "draw", "path": "explicit", "ci": 4},
                {"k": "explicit", "ci": 5, "draw": "warm"}, {"k": "draw", "path": "dotnone"}]},
            # seeded round 6 (C20-j): rendering leaves the metadata of every node alone - also the root's "name" entry,
            # which render.py reads as the graph identifier
            {"prog": "order_reload", "reload": False, "cfgs": [0, 1],
             "md": [["root", "name", "simple_id"], ["root", "author", "me"], [3, "name", "not"]]},      # the demo of C20-j
            {"prog": "divmod_partial", "reload": True, "cfgs": [0], "md": [["root", "name", "a b"]]},
            {"prog": "call_nested", "reload": False, "shared": True, "cfgs": [0, 3],
             "md": [["root", "name", "digraph"], [1, "name", "f"], [2, "label", "x"]]},
            # known finding on the unchanged tree: a root name that is not a string makes render_dot raise TypeError
            {"prog": "order_reload", "reload": False, "cfgs": [0], "md": [["root", "name", 5]]},
        ]

    def build(self, case):
        if "prog" in case:
            return named_program(case["prog"])
        if "ext" in case or "extprog" in case:
            p = case.get("extprog") or gen_ext_program(random.Random(case["ext"]))
            return run_ext_program(p), p
        if "big" in case or "bigprog" in case:
            p = case.get("bigprog") or gen_big_program(random.Random(case["big"]), case.get("heavy", False))
            return run_big_program(p), p
        if "deg" in case or "degprog" in case:
            p = case.get("degprog") or gen_deg_program(random.Random(case["deg"]))
            return run_deg_program(p), p
        p = progs.gen_program(random.Random(case["seed"]), case.get("root"))
        h = progs.run(p).hugr
        if case.get("mutate"):
            if not mutate(h, random.Random(case["seed"] + 17), case["mutate"]):
                h = progs.run(p).hugr          # the store left dangling links (C04's concern): draw it unmutated
        return h, p

    @staticmethod
    def parse(src, view, cfg):
        d = parse_dot(src)
        try:
            d["drift"] = drift(view, cfg, d)
        except Exception as e:                          # a diagnostic never decides anything
            d["drift"] = ["diagnostic failed: " + type(e).__name__]
        return d

    def observe(self, case, ctx):
        # A history case is observed in a forked child: under a leak (state shared between renderers) a history would
        # change what every LATER case of this process sees, verdicts would depend on the order of the cases and a
        # replay file would not reproduce in a fresh process.  The parent never runs a history, so every child starts
        # from the state of a process that has only made plain renderings.
        if case.get("hist") and hasattr(os, "fork"):
            return self.observe_isolated(case, ctx)
        return self.observe_here(case, ctx)

    def observe_isolated(self, case, ctx):
        sys.stdout.flush()
        sys.stderr.flush()
        r, w = os.pipe()
        pid = os.fork()
        if pid == 0:
            try:
                os.close(r)
                try:
                    data = pickle.dumps(("ok", self.observe_here(case, ctx)))
                except BaseException as e:
                    data = pickle.dumps(("raised", type(e).__name__ + ": " + str(e)[:300]))
                with os.fdopen(w, "wb") as f:
                    f.write(data)
            finally:
                os._exit(0)
        os.close(w)
        with os.fdopen(r, "rb") as f:
            data = f.read()
        os.waitpid(pid, 0)
        if not data:
            raise RuntimeError("isolated observation of a history case died")
        tag, val = pickle.loads(data)
        if tag != "ok":
            raise RuntimeError("isolated observation of a history case raised " + val)
        return val

    def observe_here(self, case, ctx):
        from hugr.hugr import Hugr
        from hugr.hugr.render import PALETTE, RenderConfig, DotRenderer
        h, p = self.build(case)
        for sel, key, val in case.get("md", []):
            nodes = list(h)
            nd = h[h.root if sel == "root" else nodes[sel % len(nodes)]]
            # a new dict: the builders keep the dict they were given, which belongs to the program data of the case
            nd.metadata = {**nd.metadata, key: val}
        if case.get("reload"):
            try:
                h = Hugr.load_json(h.to_json())
            except Exception as e:
                return {"error": "reload:" + type(e).__name__, "prog": p}
        if case.get("resolve"):
            try:
                h.resolve_extensions(registry_for(h))
            except Exception as e:
                return {"error": "resolve:" + type(e).__name__, "prog": p}
        before = json.dumps(hobs.dump(h), sort_keys=True, default=repr)
        view = hugr_view(h)
        rn = h[h.root].metadata.get("name")
        odd_name = bool(rn) and not isinstance(rn, str)       # known finding: render.py hands it to graphviz as it is
        rs = []
        for ci in case["cfgs"]:
            pal, q = CONFIGS[ci]
            palette = PALETTE[pal]
            if ci == 0:
                # the public entry point without a configuration: whatever the default configuration is (which
                # palette and which qualification is the default is not part of the property)
                dflt = RenderConfig()
                palette, q = dflt.palette, bool(dflt.qualify_op_name)
            cfg = {"pal": {f: getattr(palette, f) for f in PAL_FIELDS}, "qualify": q}
            try:
                if ci == 0:
                    src = h.render_dot().source                    # the public entry point, default config
                elif case.get("shared"):
                    # one DotRenderer object draws a different HUGR first, then this one twice
                    rend = DotRenderer(RenderConfig(palette=palette, qualify_op_name=q))
                    rend.render(warmup_hugr())
                    src = rend.render(h).source
                    src2 = rend.render(h).source
                    if src2 != src:
                        rs.append([cfg, self.parse(src, view, cfg)])
                        src = src2                                 # both drawings are judged
                else:
                    src = h.render_dot(RenderConfig(palette=palette, qualify_op_name=q)).source
                rs.append([cfg, self.parse(src, view, cfg)])
            except ParseError as e:
                rs.append([cfg, {"error": "ParseError: " + str(e)[:200]}])
            except Exception as e:
                rs.append([cfg, {"error": type(e).__name__}])
        notes, held = [], []
        for st in case.get("hist", []):
            self.hist_step(st, h, view, rs, notes, held)
        after = json.dumps(hobs.dump(h), sort_keys=True, default=repr)
        return {"view": view, "rs": rs, "unchanged": before == after, "prog": p, "hist_notes": notes,
                "root_name_not_a_string": odd_name}

    def hist_step(self, st, h, view, rs, notes, held):
        """one step of a history (seeded round 5).  `draw` steps are renderings of the HUGR under options that are
        beyond doubt (no configuration given: whatever RenderConfig() is; or a configuration holding the stated
        values at the time of the call) - they are judged, and compared with every other rendering of the case made
        under equal options.  All other steps are activity AROUND them: renderers made without a configuration whose
        public `config` is customised, configuration objects changed after a renderer got them, `config` assigned,
        explicit configurations used - their drawings are not judged (when a renderer reads its options is not part
        of the property), only that they do not raise."""
        from hugr.hugr.render import PALETTE, RenderConfig, DotRenderer
        k = st["k"]

        def declared(palette, q):
            return {"pal": {f: getattr(palette, f) for f in PAL_FIELDS}, "qualify": bool(q)}

        def dflt():
            d = RenderConfig()
            return d.palette, bool(d.qualify_op_name)

        def setopts(c, q, pal):
            try:
                if q is not None:
                    c.qualify_op_name = q
                if pal is not None:
                    c.palette = PALETTE[pal]
                return True
            except Exception as e:                      # options that cannot be changed: nothing to observe
                notes.append("options not settable: " + type(e).__name__)
                return False

        def around(rend, which):
            # a drawing made by a customised renderer: must not raise, is not judged otherwise
            if which is None:
                return
            try:
                rend.render(h if which == "h" else warmup_hugr())
            except Exception as e:
                rs.append([declared(*dflt()), {"error": type(e).__name__}])
        if k == "hold":
            # a renderer made now (without a configuration, or with one nobody touches afterwards), used later by a
            # `draw` step with path "held": its options are those of its creation
            try:
                if st.get("ci") is None:
                    palette, q = dflt()
                    held.append((DotRenderer(), declared(palette, q)))
                else:
                    pal, q = CONFIGS[st["ci"]]
                    held.append((DotRenderer(RenderConfig(palette=PALETTE[pal], qualify_op_name=q)), declared(PALETTE[pal], q)))
            except Exception as e:
                rs.append([declared(*dflt()), {"error": type(e).__name__}])
        elif k == "draw" and st["path"] == "held":
            if not held:
                return
            rend, cfg = held[st.get("i", 0) % len(held)]
            try:
                rs.append([cfg, self.parse(rend.render(h).source, view, cfg)])
            except ParseError as e:
                rs.append([cfg, {"error": "ParseError: " + str(e)[:200]}])
            except Exception as e:
                rs.append([cfg, {"error": type(e).__name__}])
        elif k == "draw":
            path = st["path"]
            if path in ("explicit", "recfg"):
                pal, q = CONFIGS[st["ci"]]
                palette = PALETTE[pal]
            else:
                palette, q = dflt()
            cfg = declared(palette, q)
            try:
                if path == "dot":
                    src = h.render_dot().source
                elif path == "dotnone":
                    src = h.render_dot(config=None).source
                elif path == "rend":
                    src = DotRenderer().render(h).source
                elif path == "rendnone":
                    src = DotRenderer(None).render(h).source
                elif path == "fresh":
                    src = DotRenderer(RenderConfig()).render(h).source
                elif path == "explicit":
                    src = h.render_dot(RenderConfig(palette=palette, qualify_op_name=q)).source
                elif path == "recfg":
                    # one configuration object, used, changed, used again by a NEW renderer
                    p0, q0 = CONFIGS[st.get("ci0", 0)]
                    c = RenderConfig(palette=PALETTE[p0], qualify_op_name=q0)
                    h.render_dot(c)
                    if not setopts(c, q, pal):
                        return
                    src = h.render_dot(c).source
                else:
                    raise ValueError(path)
                rs.append([cfg, self.parse(src, view, cfg)])
            except ParseError as e:
                rs.append([cfg, {"error": "ParseError: " + str(e)[:200]}])
            except Exception as e:
                rs.append([cfg, {"error": type(e).__name__}])
        elif k == "dflt":
            # a renderer made without a configuration, customised through its public attribute
            try:
                rend = DotRenderer()
            except Exception as e:
                rs.append([declared(*dflt()), {"error": type(e).__name__}])
                return
            if st.get("first"):
                around(rend, st.get("draw") or "warm")
            if setopts(rend.config, st.get("q"), st.get("pal")):
                around(rend, st.get("draw"))
        elif k == "cfgobj":
            # a configuration object changed after a renderer got it
            pal, q = CONFIGS[st["ci"]]
            c = RenderConfig(palette=PALETTE[pal], qualify_op_name=q)
            rend = DotRenderer(c)
            around(rend, st.get("draw"))
            if setopts(c, st.get("q"), st.get("pal")):
                around(rend, st.get("draw"))
        elif k == "assign":
            # the public attribute assigned as a whole
            pal, q = CONFIGS[st["ci"]]
            rend = DotRenderer()
            try:
                rend.config = RenderConfig(palette=PALETTE[pal], qualify_op_name=q)
            except Exception as e:
                notes.append("config not assignable: " + type(e).__name__)
                return
            around(rend, st.get("draw"))
        elif k == "explicit":
            pal, q = CONFIGS[st["ci"]]
            try:
                (h if st.get("draw") == "h" else warmup_hugr()).render_dot(
                    RenderConfig(palette=PALETTE[pal], qualify_op_name=q))
            except Exception as e:
                rs.append([declared(PALETTE[pal], q), {"error": type(e).__name__}])
        else:
            raise ValueError(k)

    # -- literals
    def literal(self, case, obs, ctx):
        col = ctx.__dict__.setdefault("colors", fw.Interner())
        # strings (lists of code points) that occur more than once in a case are bound once by a `let`:
        # three quarters of a literal used to be repeated copies of type labels and operation names
        names = {}

        def gs(x):
            if len(x) < 3:
                return gs_plain(x)
            if x not in names:
                names[x] = "s%d" % len(names)
            return names[x]
        if "error" in obs:
            # the HUGR could not even be obtained: an empty view with a failed rendering
            return ("(CRender {| hv_tree := HNode {| ni_idx := 0; ni_name_q := []; ni_name_u := []; ni_nin := 0%nat; "
                    "ni_nout := 0%nat; ni_meta := [] |} []; hv_nodes := []; hv_links := [] |} [] false)")

        def ginfo(i):
            return ("{| ni_idx := %s; ni_name_q := %s; ni_name_u := %s; ni_nin := %s; ni_nout := %s; ni_meta := %s |}"
                    % (gZ(i["idx"]), gs(i["nq"]), gs(i["nu"]), gnat(i["nin"]), gnat(i["nout"]),
                       glist(gpair(gs(k), gs(v)) for k, v in i["meta"])))

        def gtree(t):
            return gapp("HNode", ginfo(t["info"]), glist(gtree(c) for c in t["ch"]))

        def gkind(k):
            if k[0] == "value":
                return gapp("KValue", gs(k[1]))
            return {"order": "KOrder", "const": "KConst", "function": "KFunction", "cf": "KCF"}.get(k[0], "KOrder")

        def glink(l):
            return "{| l_src := %s; l_soff := %s; l_dst := %s; l_doff := %s; l_kind := %s |}" % (
                gZ(l[0]), gZ(l[1]), gZ(l[2]), gZ(l[3]), gkind(l[4]))

        def gcfg(c):
            return "{| c_pal := {| %s |}; c_qualify := %s |}" % (
                "; ".join("p_%s := %s" % (f, gN(col(c["pal"][f]))) for f in PAL_FIELDS), gbool(c["qualify"]))

        def gstmt(s):
            return ("{| ns_id := %s; ns_label := %s; ns_data := %s; ns_in := %s; ns_out := %s; ns_back := %s; ns_border := %s |}"
                    % (gZ(s["id"]), gs(s["label"]), gs(s["data"]), glist(map(gZ, s["ins"])), glist(map(gZ, s["outs"])),
                       gN(col(s["back"])), gN(col(s["border"]))))

        def gnode(d):
            if d["cluster"] is None:
                return gapp("DLeaf", gstmt(d["stmt"]))
            c = d["cluster"]
            return gapp("DCluster", gZ(c["id"]), glist(gnode(x) for x in c["body"]), gstmt(d["stmt"]), gN(col(c["color"])))

        def gdot(d):
            if "error" in d:
                return "None"
            return "(Some {| d_bg := %s; d_top := %s; d_edges := %s |})" % (
                gN(col(d["bg"])), gnode(d["top"]),
                glist("{| e_src := %s; e_sport := %s; e_dst := %s; e_dport := %s; e_label := %s; e_color := %s |}" % (
                    gZ(e["src"]), gZ(e["sport"]), gZ(e["dst"]), gZ(e["dport"]), gs(e["label"]), gN(col(e["color"])))
                    for e in d["edges"]))
        v = obs["view"]
        bad_kind = any(l[4][0] == "error" for l in v["links"])
        hv = "{| hv_tree := %s; hv_nodes := %s; hv_links := %s |}" % (
            gtree(v["tree"]), glist(map(gZ, v["nodes"])), glist(glink(l) for l in v["links"]))
        rs = glist(gpair(gcfg(c), gdot(d)) for c, d in obs["rs"])
        body = gapp("CRender", hv, rs, gbool(obs["unchanged"] and not bad_kind))
        lets = "".join("let %s : list Z := %s in " % (nm, gs_plain(x)) for x, nm in names.items())
        return "(" + lets + body + ")"

    # -- classification
    def nontrivial(self, case, obs):
        if "error" in obs:
            return True
        v = obs["view"]
        if any(st["k"] == "dflt" and (st.get("q") is not None or st.get("pal") is not None) for st in case.get("hist", [])):
            return True          # a renderer made without a configuration is customised between judged renderings

        def depth(t):
            return 1 + max([depth(c) for c in t["ch"]], default=0)
        if depth(v["tree"]) >= 3 and any(l[4][0] != "value" for l in v["links"]):
            return True
        sz = sizes_of(v)
        if sz["ports"] > 16 or sz["children"] > 16 or sz["depth"] > 16:
            return True
        return not v["links"] and sz["ports"] > 0          # ports to draw although the HUGR has no link

    def describe(self, case, obs):
        o = dict(obs)
        prog = o.pop("prog", None)
        small = {"unchanged": o.get("unchanged"), "error": o.get("error"),
                 "renderings": [d.get("error", "ok") if isinstance(d, dict) else "ok" for _, d in o.get("rs", [])],
                 "nodes": len(o["view"]["nodes"]) if "view" in o else None,
                 "links": len(o["view"]["links"]) if "view" in o else None}
        return {"input": case, "program": prog, "observed": small}

    def signature(self, case, obs, ctx):
        if "error" in obs:
            return "render:" + obs["error"]
        errs = sorted({d["error"].split(":")[0] for _, d in obs["rs"] if "error" in d})
        if errs == ["TypeError"] and obs.get("root_name_not_a_string"):
            return "render:raises:TypeError:root-name-not-a-string"
        if errs:
            return "render:raises:" + ",".join(errs) + (":reloaded" if case.get("reload") else "")
        if not obs["unchanged"]:
            return "render:modifies-hugr"
        if case.get("hist") and self.history_dependent(obs):
            return "render:depends-on-history"
        return "render:drawing-differs" + (":reloaded" if case.get("reload") else "")

    @staticmethod
    def history_dependent(obs):
        # two renderings of the case under equal options that are not the same drawing (label of the failure only;
        # the verdict is the monitor's `determined_b`)
        def key(d):
            return json.dumps([d["bg"], d["top"], sorted(json.dumps(e, sort_keys=True) for e in d["edges"])], sort_keys=True)
        seen = {}
        for c, d in obs["rs"]:
            if "error" in d:
                continue
            kc = json.dumps(c, sort_keys=True)
            try:
                kd = key(d)
            except Exception:
                continue
            if seen.setdefault(kc, kd) != kd:
                return True
        return False

    def shrink(self, case):
        if "ext" in case or "extprog" in case:
            p = case.get("extprog") or gen_ext_program(random.Random(case["ext"]))
            rest = {k: v for k, v in case.items() if k != "ext"}
            for q in shrink_ext_program(p):
                yield {**rest, "extprog": q}
        if "big" in case or "bigprog" in case:
            p = case.get("bigprog") or gen_big_program(random.Random(case["big"]), case.get("heavy", False))
            rest = {k: v for k, v in case.items() if k not in ("big", "heavy")}
            for q in shrink_big_program(p):
                yield {**rest, "bigprog": q}
        if "deg" in case or "degprog" in case:
            p = case.get("degprog") or gen_deg_program(random.Random(case["deg"]))
            rest = {k: v for k, v in case.items() if k != "deg"}
            for q in shrink_deg_program(p):
                yield {**rest, "degprog": q, "reload": bool(rest.get("reload")) and deg_reloadable(q)}
        if case.get("hist"):
            yield from ({**case, "hist": hh} for hh in shrink_history(case["hist"]))
        if case.get("md"):
            for i in range(len(case["md"])):
                yield {**case, "md": case["md"][:i] + case["md"][i + 1:]}
        if len(case.get("cfgs", [])) > 1:
            for c in case["cfgs"]:
                yield {**case, "cfgs": [c]}

    def neighbours(self, case, rng):
        if "seed" in case:
            for k in range(30):
                yield {**case, "seed": case["seed"] + 1 + k, "cfgs": list(range(6))}
        if "ext" in case:
            for k in range(30):
                yield {**case, "ext": case["ext"] + 1 + k, "cfgs": list(range(6))}
        if "big" in case:
            for k in range(30):
                yield {**case, "big": case["big"] + 1 + k}
        if "deg" in case:
            for k in range(30):
                yield {**case, "deg": case["deg"] + 1 + k, "reload": False}

    def distribution(self, cases, observations):
        d = {"reloaded": 0, "mutated": sum(1 for c in cases if c.get("mutate")), "nodes": [], "links_by_kind": {}, "render_errors": 0, "stmt_kinds": {},
             "resolved_extensions": sum(1 for c in cases if c.get("resolve")),
             "reused_renderer": sum(1 for c in cases if c.get("shared")),
             "extension_op_programs": sum(1 for c in cases if "ext" in c or "extprog" in c),
             "hugrs_with_2plus_extension_op_definitions": 0,
             "size_boundary_programs": sum(1 for c in cases if "big" in c or "bigprog" in c),
             "hugrs_with_a_node_of_17plus_ports": 0, "hugrs_with_a_node_of_17plus_children": 0,
             "max_ports_in_one_direction": 0, "max_children": 0, "max_depth": 0, "max_links_on_one_port": 0,
             "max_name_length": 0,
             "degenerate_programs": sum(1 for c in cases if "deg" in c or "degprog" in c),
             "hugrs_without_any_link": 0, "hugrs_without_any_link_but_with_ports": 0, "hugrs_of_a_single_node": 0,
             "hugrs_with_a_linkless_node_that_has_ports": 0, "hugrs_with_an_unlinked_port_below_a_linked_one": 0,
             "hugrs_with_a_container_operation_without_children": 0,
             "hugrs_with_added_metadata": sum(1 for c in cases if c.get("md")),
             "hugrs_with_a_root_name": sum(1 for c in cases if any(m[0] == "root" and m[1] == "name" for m in c.get("md", []))),
             "hugrs_with_a_truthy_root_name_that_is_not_a_string": sum(1 for o in observations if o.get("root_name_not_a_string")),
             "history_cases": sum(1 for c in cases if c.get("hist")),
             "history_steps_by_kind": {}, "history_judged_renderings_by_path": {},
             "history_cases_with_an_extension_operation": 0, "history_notes": {}}
        for c, o in zip(cases, observations):
            for st in c.get("hist", []):
                if st["k"] == "draw":
                    d["history_judged_renderings_by_path"][st["path"]] = d["history_judged_renderings_by_path"].get(st["path"], 0) + 1
                else:
                    d["history_steps_by_kind"][st["k"]] = d["history_steps_by_kind"].get(st["k"], 0) + 1
            for nt in o.get("hist_notes", []):
                d["history_notes"][nt] = d["history_notes"].get(nt, 0) + 1

        dd = d["diagnostic only, no verdict (model drift): renderings that differ from the model of today's render.py in "
               "what the property does not promise"] = {"renderings": 0}

        def infos(t):
            yield t["info"]
            for x in t["ch"]:
                yield from infos(x)
        for c, o in zip(cases, observations):
            d["reloaded"] += bool(c.get("reload"))
            if "view" not in o:
                continue
            d["hugrs_with_2plus_extension_op_definitions"] += len({i["nq"] for i in infos(o["view"]["tree"]) if i["nq"] != i["nu"]}) >= 2
            d["history_cases_with_an_extension_operation"] += bool(c.get("hist")) and any(i["nq"] != i["nu"] for i in infos(o["view"]["tree"]))
            sz = sizes_of(o["view"])
            dg = degeneracy_of(o["view"])
            for k in dg:
                d[k] += dg[k]
            d["hugrs_with_a_node_of_17plus_ports"] += sz["ports"] > 16
            d["hugrs_with_a_node_of_17plus_children"] += sz["children"] > 16
            for k1, k2 in (("ports", "max_ports_in_one_direction"), ("children", "max_children"), ("depth", "max_depth"),
                           ("fan", "max_links_on_one_port"), ("name", "max_name_length")):
                d[k2] = max(d[k2], sz[k1])
            d["nodes"].append(len(o["view"]["nodes"]))
            for l in o["view"]["links"]:
                d["links_by_kind"][l[4][0]] = d["links_by_kind"].get(l[4][0], 0) + 1
            d["render_errors"] += sum(1 for _, x in o["rs"] if "error" in x)
            for _, x in o["rs"]:
                dd["renderings"] += 1
                for k in x.get("drift", []):
                    dd[k] = dd.get(k, 0) + 1
            if o.get("prog") and not isinstance(o["prog"], str):
                for k, v in progs.kinds_of(o["prog"]).items():
                    d["stmt_kinds"][k] = d["stmt_kinds"].get(k, 0) + v
        ns = sorted(d["nodes"])
        d["nodes"] = {"min": ns[0], "median": ns[len(ns) // 2], "max": ns[-1]} if ns else {}
        return d


# ----------------------------------------------------------------------------- extension operations (seeded round 2)
# The display name of an extension operation is a property of the operation INSTANCE: generic ops.ExtOp nodes
# (OpDef.instantiate, Custom.resolve / Hugr.resolve_extensions) and user classes whose op_def() depends on
# the instance share one Python class between many definitions.

_EXT = {}


def ext_env():
    """operations of every flavour, by spec (built once; hugr is imported lazily like everywhere in this file)"""
    if _EXT:
        return _EXT
    from dataclasses import dataclass
    from hugr import ext, ops, tys
    from hugr.std.float import FLOAT_OPS_EXTENSION, FLOAT_T
    from hugr.std.int import INT_OPS_EXTENSION, int_t
    from hugr.std.logic import EXTENSION as LOGIC_EXTENSION, Not
    from hugr.std.int import DivMod

    X = ext.Extension("verif.c20", ext.Version(0, 1, 0))
    B, F = tys.Bool, FLOAT_T
    gate_sigs = {"flip": ([B], [B]), "both": ([B, B], [B]), "scale": ([F, F], [F]), "sign": ([F], [B]),
                 "fork": ([B], [B, B]), "sink": ([F], [])}
    for nm, (i, o) in gate_sigs.items():
        X.add_op_def(ext.OpDef(nm, ext.OpDefSig(tys.FunctionType(i, o)), description="gate " + nm))

    @dataclass(frozen=True)
    class Gate(ops.AsExtOp):                      # one class, one definition per instance (cf. tests/conftest.py OneQbGate)
        which: str

        def op_def(self):
            return X.get_op(self.which)

    @X.register_op("Mix", signature=tys.FunctionType([F, B], [F]))
    @dataclass(frozen=True)
    class MixDef(ops.RegisteredOp):               # one class, one definition
        pass

    @X.register_op("Pick", signature=tys.FunctionType([B, F, F], [F]))
    @dataclass(frozen=True)
    class PickDef(ops.RegisteredOp):
        pass

    def ty(t):
        return {"B": B, "F": F, "I": int_t(5), "J": int_t(6)}[t]

    # spec (tuple) -> (ins, outs, maker).  "f" is float64 as the standard float operations declare it (an unresolved
    # tys.Opaque, which hugr-py does not consider equal to FLOAT_T): usable wherever "F" is needed, but kept apart
    # where the builder compares rows (outputs of the cases of a conditional)
    table = {}

    def put(spec, ins, outs, mk):
        table[spec] = (list(ins), list(outs), mk)
    for nm in ("fadd", "fsub", "fmul", "fdiv", "fmax", "fmin", "fpow"):
        put(("float", nm), "FF", "f", (lambda nm=nm: FLOAT_OPS_EXTENSION.get_op(nm).instantiate()))
    for nm in ("fneg", "fabs", "ffloor", "fceil", "fround"):
        put(("float", nm), "F", "f", (lambda nm=nm: FLOAT_OPS_EXTENSION.get_op(nm).instantiate()))
    for nm in ("feq", "fne", "flt", "fgt", "fle", "fge"):
        put(("float", nm), "FF", "B", (lambda nm=nm: FLOAT_OPS_EXTENSION.get_op(nm).instantiate()))
    for nm in ("And", "Or", "Xor", "Eq"):
        put(("logic", nm), "BB", "B", (lambda nm=nm: LOGIC_EXTENSION.get_op(nm).instantiate()))
    put(("logic", "Not"), "B", "B", lambda: LOGIC_EXTENSION.get_op("Not").instantiate())
    for w, t in ((5, "I"), (6, "J")):
        for nm in ("iadd", "isub", "imul", "iand", "ior", "ixor", "imax_u", "imin_s"):
            put(("int", nm, w), t + t, t,
                (lambda nm=nm, w=w, t=t: INT_OPS_EXTENSION.get_op(nm).instantiate(
                    [tys.BoundedNatArg(w)], tys.FunctionType([ty(t), ty(t)], [ty(t)]))))
        for nm in ("ineg", "inot", "iabs"):
            put(("int", nm, w), t, t,
                (lambda nm=nm, w=w, t=t: INT_OPS_EXTENSION.get_op(nm).instantiate(
                    [tys.BoundedNatArg(w)], tys.FunctionType([ty(t)], [ty(t)]))))
        for nm in ("ieq", "ilt_u", "ige_s"):
            put(("int", nm, w), t + t, "B",
                (lambda nm=nm, w=w, t=t: INT_OPS_EXTENSION.get_op(nm).instantiate(
                    [tys.BoundedNatArg(w)], tys.FunctionType([ty(t), ty(t)], [tys.Bool]))))
    for nm, (i, o) in gate_sigs.items():
        code = lambda r: "".join("B" if x is B else "F" for x in r)
        put(("gate", nm), code(i), code(o), (lambda nm=nm: Gate(nm)))
        put(("gatedef", nm), code(i), code(o), (lambda nm=nm: X.get_op(nm).instantiate()))
    put(("reg", "Mix"), "FB", "F", lambda: MixDef())
    put(("reg", "Pick"), "BFF", "F", lambda: PickDef())
    put(("std", "Not"), "B", "B", lambda: Not)
    put(("std", "DivMod"), "II", "II", lambda: DivMod)
    for t in "BFIJ":
        put(("noop", t), t, t, (lambda t=t: ops.Noop(ty(t))))
        put(("custom", "c" + t), t + t, t,
            (lambda t=t: ops.Custom("c" + t, tys.FunctionType([ty(t), ty(t)], [ty(t)]), extension="verif.ext")))
    _EXT.update({"table": table, "ty": ty, "ext": X,
                 "std": [FLOAT_OPS_EXTENSION, INT_OPS_EXTENSION, LOGIC_EXTENSION]})
    return _EXT


def mk_ext_op(spec):
    return ext_env()["table"][tuple(spec)][2]()


def registry_for(h):
    """the standard extensions plus a definition for every operation name the HUGR uses from an extension that
    is not a standard one, so that Hugr.resolve_extensions turns every Custom operation into an ExtOp"""
    from hugr import ext, ops, tys
    from hugr.std import PRELUDE
    from hugr.std.float import FLOAT_OPS_EXTENSION, FLOAT_TYPES_EXTENSION
    from hugr.std.int import INT_OPS_EXTENSION, INT_TYPES_EXTENSION
    from hugr.std.logic import EXTENSION as LOGIC_EXTENSION
    reg = ext.ExtensionRegistry()
    std = [PRELUDE, FLOAT_OPS_EXTENSION, FLOAT_TYPES_EXTENSION, INT_OPS_EXTENSION, INT_TYPES_EXTENSION, LOGIC_EXTENSION]
    for e in std:
        reg.add_extension(e)
    known = {e.name for e in std}
    mine = {}
    for n in h:
        op = h[n].op
        if isinstance(op, ops.Custom) and op.extension and op.extension not in known:
            e = mine.get(op.extension)
            if e is None:
                e = mine[op.extension] = ext.Extension(op.extension, ext.Version(0, 1, 0))
            if op.op_name not in e.operations:
                e.add_op_def(ext.OpDef(op.op_name, ext.OpDefSig(None, binary=True), description=op.description))
    for e in mine.values():
        reg.add_extension(e)
    return reg


_WARM = []


def warmup_hugr():
    """the HUGR a shared DotRenderer draws before the one under test: one node of every flavour of operation"""
    if not _WARM:
        _WARM.append(run_ext_program({"ins": ["F", "F", "B", "I"], "outs": [4, 8, 10], "body": [
            {"k": "op", "op": ["float", "fadd"], "args": [0, 1], "outs": [4]},
            {"k": "op", "op": ["gate", "flip"], "args": [2], "outs": [5]},
            {"k": "op", "op": ["reg", "Mix"], "args": [4, 5], "outs": [6]},
            {"k": "op", "op": ["std", "Not"], "args": [5], "outs": [7]},
            {"k": "dfg", "args": [7], "ins": [20], "outs": [8], "inner_outs": [21], "body": [
                {"k": "op", "op": ["logic", "Xor"], "args": [20, 2], "outs": [21]}]},
            {"k": "op", "op": ["int", "iadd", 5], "args": [3, 3], "outs": [9]},
            {"k": "op", "op": ["custom", "cI"], "args": [9, 3], "outs": [10]},
        ]}))
    return _WARM[0]


OP_WEIGHT = {"float": 5, "logic": 4, "int": 3, "gate": 5, "gatedef": 2, "reg": 2, "std": 1, "noop": 1, "custom": 1}


def gen_ext_program(rng):
    """a well-formed builder program (as data) over Bool/float64/int<5>/int<6> whose operations are extension
    operations of every flavour, with nested DFGs and conditionals that also use wires of enclosing regions"""
    env = ext_env()
    table = env["table"]
    specs = sorted(table, key=repr)
    weights = [OP_WEIGHT[s[0]] for s in specs]
    counter = [0]

    def fresh():
        counter[0] += 1
        return counter[0] - 1

    def region(avail, outer, depth, budget):
        """avail: [(wire, ty)] defined in this region; outer: wires of enclosing regions"""
        body = []
        for _ in range(budget):
            pool = avail + (outer if rng.random() < 0.3 else [])
            r = rng.random()
            if r < 0.14 and depth < 3 and pool:
                args = [rng.choice(pool) for _ in range(rng.randint(0, 2))]
                ins = [(fresh(), t) for _, t in args]
                inner, inner_avail = region(list(ins), avail + outer, depth + 1, rng.randint(1, 4))
                k = rng.randint(1, min(2, len(inner_avail))) if inner_avail else 0
                io = rng.sample(inner_avail, k)
                outs = [(fresh(), t) for _, t in io]
                body.append({"k": "dfg", "args": [w for w, _ in args], "ins": [w for w, _ in ins], "body": inner,
                             "inner_outs": [w for w, _ in io], "outs": [w for w, _ in outs]})
                avail = avail + outs
                continue
            if r < 0.22 and depth < 3 and any(t == "B" for _, t in pool):
                cond = rng.choice([w for w, t in pool if t == "B"])
                args = [rng.choice(pool) for _ in range(rng.randint(1, 2))]
                cases, out_tys = [], None
                for ci in range(2):
                    ins = [(fresh(), t) for _, t in args]
                    inner, inner_avail = region(list(ins), avail + outer, depth + 1, rng.randint(0, 3))
                    if out_tys is None:
                        io = rng.sample(inner_avail, rng.randint(1, min(2, len(inner_avail))))
                        out_tys = [t for _, t in io]
                    else:
                        io = []
                        for t in out_tys:
                            c = [x for x in inner_avail if x[1] == t]
                            if not c:          # produce one from the inputs of the case
                                src = next(x for x in ins if x[1] == t) if any(x[1] == t for x in ins) else None
                                if src is None:
                                    break
                                c = [src]
                            io.append(rng.choice(c))
                        if len(io) != len(out_tys):
                            cases = None
                            break
                    cases.append({"ins": [w for w, _ in ins], "body": inner, "outs": [w for w, _ in io]})
                if cases is None:
                    continue
                outs = [(fresh(), t) for t in out_tys]
                body.append({"k": "cond", "cond": cond, "args": [w for w, _ in args], "cases": cases,
                             "outs": [w for w, _ in outs]})
                avail = avail + outs
                continue
            for _try in range(8):
                spec = rng.choices(specs, weights)[0]
                ins, outs, _mk = table[spec]
                have = {t.upper() for _, t in pool}
                if all(t in have for t in ins):
                    break
            else:
                continue
            args = [rng.choice([w for w, t in pool if t.upper() == ti]) for ti in ins]
            ows = [(fresh(), t) for t in outs]
            if spec[0] == "noop":
                # Noop takes its type from the wire it is given ("f", the float64 of the standard float operations'
                # declarations, stays "f"): once in ~8000 programs the builder then refused a conditional whose cases
                # disagreed on "f"/"F" (a crash of the generator, not a drawing); same random stream as before
                ows = [(ows[0][0], dict(pool)[args[0]])]
            st = {"k": "op", "op": list(spec), "args": args, "outs": [w for w, _ in ows]}
            if rng.random() < 0.15:
                st["md"] = rng.choice([{"note": "x<y"}, {"k": [1, 2]}, {"ü": None, "n": 3}])
            body.append(st)
            avail = avail + ows
        return body, avail

    in_tys = [rng.choice("BBFFIJ") for _ in range(rng.randint(1, 4))]
    ins = [(fresh(), t) for t in in_tys]
    body, avail = region(list(ins), [], 0, rng.randint(3, 12))
    outs = rng.sample(avail, rng.randint(0, min(3, len(avail))))
    return {"ins": in_tys, "body": body, "outs": [w for w, _ in outs]}


def run_ext_program(p):
    from hugr.build import Dfg
    ty = ext_env()["ty"]
    d = Dfg(*[ty(t) for t in p["ins"]])
    wires = dict(enumerate(d.inputs()))

    def body(b, stmts):
        for st in stmts:
            k = st["k"]
            if k == "op":
                kw = {"metadata": st["md"]} if st.get("md") is not None else {}
                n = b.add_op(mk_ext_op(st["op"]), *[wires[w] for w in st["args"]], **kw)
                for i, w in enumerate(st["outs"]):
                    wires[w] = n.out(i)
            elif k == "dfg":
                with b.add_nested(*[wires[w] for w in st["args"]]) as inner:
                    for w, x in zip(st["ins"], inner.inputs()):
                        wires[w] = x
                    body(inner, st["body"])
                    inner.set_outputs(*[wires[w] for w in st["inner_outs"]])
                for i, w in enumerate(st["outs"]):
                    wires[w] = inner.parent_node.out(i)
            elif k == "cond":
                with b.add_conditional(wires[st["cond"]], *[wires[w] for w in st["args"]]) as cb:
                    for i, c in enumerate(st["cases"]):
                        with cb.add_case(i) as cc:
                            for w, x in zip(c["ins"], cc.inputs()):
                                wires[w] = x
                            body(cc, c["body"])
                            cc.set_outputs(*[wires[w] for w in c["outs"]])
                for i, w in enumerate(st["outs"]):
                    wires[w] = cb.parent_node.out(i)
            else:
                raise ValueError(k)
    body(d, p["body"])
    d.set_outputs(*[wires[w] for w in p["outs"]])
    return d.hugr


def shrink_ext_program(p):
    """drop trailing statements of the outermost body (outputs that lose their wire are dropped too)"""
    def defined(stmts, acc):
        for st in stmts:
            acc.update(st["outs"])
        return acc
    for cut in (len(p["body"]) // 2, len(p["body"]) - 1):
        if 0 <= cut < len(p["body"]):
            b = p["body"][:cut]
            ok = defined(b, set(range(len(p["ins"]))))
            yield {"ins": p["ins"], "body": b, "outs": [w for w in p["outs"] if w in ok]}

# ----------------------------------------------------------------------------- size boundaries (seeded round 3)
# "one cell per input and output port", "one node statement per HUGR node", "one edge statement per link" hold for every
# count: programs (as data) whose HUGRs have nodes with 17..257 ports in either direction (Input, Output, MakeTuple,
# UnpackTuple, DFG, Custom, Conditional, Case, Call, FuncDefn bodies, Tag, DataflowBlock successors), containers with
# up to 1100 children (node indices of 2-4 digits), one port carrying many links, nesting 17..65 deep, operation names,
# metadata keys/values and type labels hundreds of characters long.

BOUNDS = [15, 16, 17, 18, 31, 32, 33, 34, 63, 64, 65, 66, 99, 100, 101, 127, 128, 129, 130, 255, 256, 257]
BIG_FORMS = ["tuple", "custom", "nested", "cond", "call", "tag", "cfg", "children", "deep", "names"]


def _bound(rng, heavy, cap=None):
    """a port/child count around a power of two (or of ten); small ones are much more likely in the quick tier"""
    if rng.random() < 0.25:
        v = rng.randint(10, 48)
    else:
        pool = [b for b in BOUNDS if (heavy or b <= 130)]
        v = rng.choices(pool, [1.0 / b for b in pool])[0]
    return min(v, cap) if cap else v


def gen_big_program(rng, heavy=False):
    form = rng.choice(BIG_FORMS)
    tys_ = "".join(rng.choice("BBQUP") for _ in range(rng.randint(1, 4)))
    if form == "tuple":
        w = _bound(rng, heavy)
        return {"form": form, "w": w, "tys": tys_, "rot": rng.randrange(w)}
    if form in ("custom", "nested", "call"):
        a, b = _bound(rng, heavy), _bound(rng, heavy)
        if rng.random() < 0.3:
            a, b = rng.choice([(a, rng.randint(0, 3)), (rng.randint(0, 3), b)])
        return {"form": form, "w": a, "w2": b, "tys": tys_}
    if form in ("cond", "tag"):
        return {"form": form, "w": _bound(rng, heavy), "tys": tys_}
    if form == "cfg":
        return {"form": form, "n": _bound(rng, heavy, 66)}
    if form == "children":
        n = _bound(rng, heavy)
        if heavy and rng.random() < 0.15:
            n = rng.choice([999, 1000, 1001, 1100])
        return {"form": form, "n": n, "fan": rng.random() < 0.5}
    if form == "deep":
        return {"form": form, "d": _bound(rng, heavy, 66)}
    L = rng.choice([63, 64, 65, 255, 256, 257] + ([1023, 1024, 1025] if heavy else []))
    return {"form": "names", "L": L, "K": _bound(rng, heavy, 130), "V": rng.choice([80, 255, 256, 257, 600])}


def _text(n, salt=0):
    """n characters, no two neighbouring windows alike (so that a truncated or folded string shows)"""
    alphabet = "abcdefghijklmnopqrstuvwxyzABCDEFGHIJKLMNOPQRSTUVWXYZ0123456789_.\u00fc"
    return "".join(alphabet[(i * 7 + i // 11 + salt) % len(alphabet)] for i in range(n))


def run_big_program(p):
    from hugr import ops, tys
    from hugr.build import Cfg, Dfg, Module
    from hugr.std.logic import Not
    tymap = {"B": tys.Bool, "Q": tys.Qubit, "U": tys.Unit, "P": tys.Tuple(tys.Bool, tys.Unit)}

    def row(n):
        pat = p.get("tys") or "B"
        return [tymap[pat[i % len(pat)]] for i in range(n)]

    def wide_op(a, b):
        return ops.Custom("wide", tys.FunctionType(row(a), row(b)), extension="verif.ext")
    form = p["form"]
    if form == "tuple":
        w = p["w"]
        d = Dfg(*row(w))
        t = d.add_op(ops.MakeTuple(), *d.inputs())
        u = d.add_op(ops.UnpackTuple(), t)
        k = p.get("rot", 0) % max(w, 1)
        # rotated only when all wires have one type (the row of the outputs is not compared, but keep it well typed)
        order = list(range(w))
        if len(set(p.get("tys") or "B")) == 1:
            order = order[k:] + order[:k]
        d.set_outputs(*[u[i] for i in order])
        return d.hugr
    if form == "custom":
        d = Dfg(*row(p["w"]))
        n = d.add_op(wide_op(p["w"], p["w2"]), *d.inputs())
        d.set_outputs(*[n[i] for i in range(p["w2"])])
        return d.hugr
    if form == "nested":
        d = Dfg(*row(p["w"]))
        with d.add_nested(*d.inputs()) as inner:
            n = inner.add_op(wide_op(p["w"], p["w2"]), *inner.inputs())
            inner.set_outputs(*[n[i] for i in range(p["w2"])])
        d.set_outputs(*[inner.parent_node.out(i) for i in range(p["w2"])])
        return d.hugr
    if form == "cond":
        d = Dfg(tys.Bool, *row(p["w"]))
        c, *rest = d.inputs()
        with d.add_conditional(c, *rest) as cb:
            for i in range(2):
                with cb.add_case(i) as cc:
                    cc.set_outputs(*cc.inputs())
        d.set_outputs(*[cb.parent_node.out(i) for i in range(p["w"])])
        return d.hugr
    if form == "call":
        m = Module()
        f = m.define_function("wide_fn", row(p["w"]), row(p["w2"]))
        n = f.add_op(wide_op(p["w"], p["w2"]), *f.inputs())
        f.set_outputs(*[n[i] for i in range(p["w2"])])
        g = m.define_function("main", row(p["w"]), row(p["w2"]))
        c = g.call(f.parent_node, *g.inputs())
        g.set_outputs(*[c[i] for i in range(p["w2"])])
        return m.hugr
    if form == "tag":
        d = Dfg(*row(p["w"]))
        t = d.add_op(ops.Tag(1, tys.Sum([[tys.Bool], row(p["w"])])), *d.inputs())
        d.set_outputs(t)
        return d.hugr
    if form == "cfg":
        n = p["n"]
        c = Cfg(tys.Bool)
        e = c.add_entry()
        t = e.add_op(ops.Tag(n - 1, tys.Sum([[] for _ in range(n)])))
        e.set_block_outputs(t, *e.inputs())
        for i in range(n):
            b = c.add_successor(e[i])
            b.set_single_succ_outputs(*b.inputs())
            c.branch_exit(b[0])                      # n control-flow links into the one port of the exit block
        return c.hugr
    if form == "children":
        d = Dfg(tys.Bool)
        (x,) = d.inputs()
        outs = []
        for i in range(p["n"]):
            nd = d.add_op(Not, x)
            if p.get("fan"):
                outs.append(nd[0])               # n links leave the one output port of the Input node
            else:
                x = nd[0]
        d.set_outputs(*(outs if p.get("fan") else [x]))
        return d.hugr
    if form == "deep":
        d = Dfg(tys.Bool)
        (x,) = d.inputs()
        stack = [d]
        for i in range(p["d"]):
            inner = stack[-1].add_nested(x)
            (x,) = inner.inputs()
            stack.append(inner)
        x = stack[-1].add_op(Not, x)[0]
        while len(stack) > 1:
            inner = stack.pop()
            inner.set_outputs(x)
            x = inner.parent_node.out(0)
        d.set_outputs(x)
        return d.hugr
    if form == "names":
        d = Dfg(tys.Bool)
        (x,) = d.inputs()
        md = {_text(3 + (i * 5) % 40, i): i for i in range(p["K"])}
        md[_text(p["L"], 3)] = _text(p["V"], 5)
        op = ops.Custom(_text(p["L"], 0), tys.FunctionType([tys.Bool], [tys.Bool]), extension=_text(p["L"] // 2, 1))
        n = d.add_op(op, x, metadata=md)
        n2 = d.add_op(ops.Custom(_text(p["L"] - 1, 0), tys.FunctionType([tys.Bool], [tys.Bool]), extension="verif.ext"), n[0],
                      metadata={"k": _text(p["V"] + 1, 9)})
        d.set_outputs(n2[0])
        return d.hugr
    raise ValueError(form)


def shrink_big_program(p):
    """smaller counts: first just past the nearest smaller boundary, then halves and predecessors"""
    for key in ("w", "w2", "n", "d", "L", "K", "V"):
        v = p.get(key)
        if not isinstance(v, int) or v <= 0:
            continue
        cands = [b for b in (1, 2, 9, 10, 11, 17, 33, 65, 101, 129, 257) if b < v] + [v // 2, v - 1]
        seen = set()
        for c in cands:
            if c in seen or c >= v or c < (1 if key in ("n", "d", "L") else 0):
                continue
            seen.add(c)
            q = {**p, key: c}
            if "rot" in q:
                q["rot"] = 0
            yield q
    if p.get("tys") not in (None, "B"):
        yield {**p, "tys": "B"}
    if p.get("fan"):
        yield {**p, "fan": False}


# ----------------------------------------------------------------------------- degenerate HUGRs (seeded round 4)
# "one cell per input and output port", "one node statement per HUGR node", "one cluster per node that has children"
# also hold where there is next to nothing to draw: HUGRs without any link (a region that discards all its inputs, a
# module whose functions ignore their arguments, declarations and constants nobody uses, every link deleted again),
# nodes that have ports but no link (added through Hugr.add_node, unused constants, sub-HUGRs put in by insert_hugr),
# ports below the only linked one, order links only, a single node of any operation, containers that hold nothing
# but their Input/Output nodes or nothing at all.  Programs as data; the port counts are whatever the HUGR reports.

DEG_ROOTS = ["dfg", "dfg", "dfg", "funcdefn", "module", "module", "cfg", "cond", "tailloop", "single"]
DEG_SINGLE = ["Module", "DFG", "Custom", "CFG", "Conditional", "TailLoop", "Case", "FuncDefn", "FuncDecl", "Const",
              "Input", "Output", "DataflowBlock", "ExitBlock", "Tag", "MakeTuple", "UnpackTuple", "Noop", "LoadConst",
              "Call", "ExtOp", "AliasDefn"]
DEG_ITEMS = ["iso", "iso", "gap", "const", "empty_dfg", "ins_dfg", "ins_cond", "ins_cfg", "ins_loop", "used", "order"]


def gen_deg_program(rng):
    def row(lo=0, hi=4):
        return "".join(rng.choice("BBQUP") for _ in range(rng.randint(lo, hi)))

    def items(n):
        out = []
        for _ in range(n):
            k = rng.choice(DEG_ITEMS)
            it = {"k": k}
            if k == "iso":                   # a node with b output ports and no link (Hugr.add_node); also container
                #                              operations without a single child (drawn as a node, not as a cluster)
                it.update(a=rng.randint(0, 3), b=rng.randint(0, 4), at=rng.randint(0, 3),
                          op=rng.choice(["custom", "custom", "custom", "DFG", "CFG", "Conditional", "TailLoop"]))
            elif k == "gap":                 # only port j of its inputs is linked: offsets 0..j-1 exist, unlinked
                it.update(a=rng.randint(1, 5), b=rng.randint(0, 2), j=rng.randint(0, 4))
            elif k in ("ins_dfg", "ins_loop"):
                it.update(tys=row(0, 3), keep=rng.random() < 0.3)
            elif k == "ins_cond":
                it.update(n=rng.randint(0, 3), tys=row(0, 2))
            elif k == "ins_cfg":
                it.update(tys=row(0, 2), blocks=rng.random() < 0.5)
            out.append(it)
        return out

    root = rng.choice(DEG_ROOTS)
    linkless = rng.random() < 0.65
    p = {"root": root}
    if root == "single":
        p["op"] = rng.choice(DEG_SINGLE)
        p["tys"] = row(0, 3)
        return p
    if root in ("dfg", "funcdefn", "tailloop"):
        p["tys"] = row(0, 5)
        p["keep"] = [] if linkless else sorted(rng.sample(range(len(p["tys"])), rng.randint(0, min(2, len(p["tys"])))))
        its = items(rng.randint(0, 4))
        if linkless:
            its = [i for i in its if i["k"] not in ("gap", "used", "order")]
        p["items"] = its
    elif root == "module":
        p["fns"] = [{"tys": row(0, 4), "keep": [], "items": [i for i in items(rng.randint(0, 2)) if i["k"] not in ("gap", "used", "order")]}
                    for _ in range(rng.randint(0, 3))]
        p["decls"] = [row(0, 3) for _ in range(rng.randint(0, 2))]
        p["consts"] = rng.randint(0, 2)
        p["alias"] = rng.random() < 0.3
        p["call"] = (not linkless) and len(p["fns"]) >= 1 and rng.random() < 0.7
    elif root == "cfg":
        p["tys"] = row(0, 3)
        p["blocks"] = 0 if linkless else rng.randint(0, 2)       # 0: the entry block is never given its branch
    elif root == "cond":
        p["n"] = rng.randint(0, 3)
        p["tys"] = row(0, 3)
        p["keep"] = not linkless and bool(p["tys"])
    if not linkless and rng.random() < 0.35:
        p["unlink"] = rng.choice(["all", "all", "first", "last"])       # links deleted again after building
    return p


def run_deg_program(p):
    from hugr import ops, tys, val
    from hugr.hugr import Hugr
    from hugr.build import Cfg, Dfg, Module
    from hugr.build.cond_loop import Conditional, TailLoop
    from hugr.build.dfg import Function
    tymap = {"B": tys.Bool, "Q": tys.Qubit, "U": tys.Unit, "P": tys.Tuple(tys.Bool, tys.Unit)}

    def row(code):
        return [tymap[c] for c in code]

    def custom(a, b, name="deg"):
        return ops.Custom(name, tys.FunctionType([tys.Bool] * a, [tys.Bool] * b), extension="verif.ext")

    def unit_sum(n):
        return tys.Sum([[] for _ in range(n)])

    def fill(b, its, wires):
        """b: a dataflow builder; wires: wires of the region (possibly none)"""
        h = b.hugr
        for it in its:
            k = it["k"]
            if k == "iso":
                ra, rb = [tys.Bool] * it["a"], [tys.Bool] * it["b"]
                op = {"custom": lambda: custom(it["a"], it["b"], "iso%d" % it["at"]), "DFG": lambda: ops.DFG(ra, rb),
                      "CFG": lambda: ops.CFG(ra, rb), "Conditional": lambda: ops.Conditional(unit_sum(2), ra, rb),
                      "TailLoop": lambda: ops.TailLoop(ra, rb)}[it.get("op", "custom")]()
                h.add_node(op, b.parent_node, it["b"])
            elif k == "gap":
                n = h.add_node(custom(it["a"], it["b"], "gap"), b.parent_node, it["b"])
                if wires:
                    h.add_link(wires[0].out_port(), n.inp(min(it["j"], it["a"] - 1)))
            elif k == "const":
                b.add_const(val.TRUE)                                   # one output port (constant edge), never loaded
            elif k == "empty_dfg":
                with b.add_nested() as inner:                           # a container that holds its Input/Output only
                    inner.set_outputs()
            elif k == "ins_dfg":
                d = Dfg(*row(it["tys"]))
                d.set_outputs(*(d.inputs() if it["keep"] else []))
                h.insert_hugr(d.hugr, b.parent_node)                    # a sub-HUGR nobody is wired to
            elif k == "ins_loop":
                t = TailLoop([], row(it["tys"]))
                if it["keep"]:
                    c = t.add_op(ops.Tag(1, tys.Sum([[], []])))
                    t.set_loop_outputs(c, *t.inputs())
                h.insert_hugr(t.hugr, b.parent_node)
            elif k == "ins_cond":
                c = Conditional(unit_sum(it["n"]), row(it["tys"]))
                for i in range(it["n"]):
                    with c.add_case(i) as cc:
                        cc.set_outputs()
                h.insert_hugr(c.hugr, b.parent_node)
            elif k == "ins_cfg":
                c = Cfg(*row(it["tys"]))
                if it["blocks"]:
                    e = c.add_entry()
                    e.set_single_succ_outputs()
                    c.branch_exit(e[0])
                h.insert_hugr(c.hugr, b.parent_node)
            elif k == "used":
                if wires:
                    b.add_op(custom(1, 1, "used"), wires[0])            # linked input, unlinked output
            elif k == "order":
                b.add_state_order(b.input_node, b.output_node)
            else:
                raise ValueError(k)

    root = p["root"]
    if root == "single":
        r = row(p.get("tys", ""))
        op = {
            "Module": lambda: ops.Module(), "DFG": lambda: ops.DFG(r, r), "Custom": lambda: custom(len(r), 2),
            "CFG": lambda: ops.CFG(r, r), "Conditional": lambda: ops.Conditional(unit_sum(2), r),
            "TailLoop": lambda: ops.TailLoop(r, r), "Case": lambda: ops.Case(r), "FuncDefn": lambda: ops.FuncDefn("f", r),
            "FuncDecl": lambda: ops.FuncDecl("g", tys.PolyFuncType([], tys.FunctionType(r, r))),
            "Const": lambda: ops.Const(val.TRUE), "Input": lambda: ops.Input(r), "Output": lambda: ops.Output(r),
            "DataflowBlock": lambda: ops.DataflowBlock(r), "ExitBlock": lambda: ops.ExitBlock(r),
            "Tag": lambda: ops.Tag(0, tys.Sum([r, []])), "MakeTuple": lambda: ops.MakeTuple(r),
            "UnpackTuple": lambda: ops.UnpackTuple(r), "Noop": lambda: ops.Noop(tys.Bool),
            "LoadConst": lambda: ops.LoadConst(tys.Bool),
            "Call": lambda: ops.Call(tys.PolyFuncType([], tys.FunctionType(r, r))),
            "ExtOp": lambda: mk_ext_op(("gate", "fork")), "AliasDefn": lambda: ops.AliasDefn("A", tys.Bool),
        }[p["op"]]()
        h = Hugr(op)
    elif root in ("dfg", "funcdefn", "tailloop"):
        r = row(p["tys"])
        b = Dfg(*r) if root == "dfg" else Function("main", r) if root == "funcdefn" else TailLoop([], r)
        ins = b.inputs()
        fill(b, p.get("items", []), ins)
        keep = [ins[i] for i in p.get("keep", []) if i < len(ins)]
        if root == "tailloop":
            if keep:                                  # otherwise the loop body is left without outputs
                c = b.add_op(ops.Tag(1, tys.Sum([[], []])))
                b.set_loop_outputs(c, *keep)
        else:
            b.set_outputs(*keep)
        h = b.hugr
    elif root == "module":
        m = Module()
        fns = []
        for i, f in enumerate(p.get("fns", [])):
            fb = m.define_function("f%d" % i, row(f["tys"]), [])
            fill(fb, f.get("items", []), fb.inputs())
            fb.set_outputs()
            fns.append(fb)
        for i, d in enumerate(p.get("decls", [])):
            m.declare_function("d%d" % i, tys.PolyFuncType([], tys.FunctionType(row(d), [])))
        for i in range(p.get("consts", 0)):
            m.add_const(val.TRUE if i % 2 else val.FALSE)
        if p.get("alias"):
            m.add_alias_defn("A", tys.Bool)
        if p.get("call") and fns:
            g = m.define_function("caller", row(p["fns"][0]["tys"]), [])
            g.call(fns[0].parent_node, *g.inputs())
            g.set_outputs()
        h = m.hugr
    elif root == "cfg":
        c = Cfg(*row(p["tys"]))
        if p.get("blocks", 0) >= 1:
            e = c.add_entry()
            e.set_single_succ_outputs(*e.inputs())
            if p["blocks"] >= 2:
                b2 = c.add_successor(e[0])
                b2.set_single_succ_outputs(*b2.inputs())
                c.branch_exit(b2[0])
            else:
                c.branch_exit(e[0])
        h = c.hugr
    elif root == "cond":
        c = Conditional(unit_sum(p["n"]), row(p["tys"]))
        for i in range(p["n"]):
            with c.add_case(i) as cc:
                cc.set_outputs(*(cc.inputs() if p.get("keep") else []))
        h = c.hugr
    else:
        raise ValueError(root)
    un = p.get("unlink")
    if un:
        ls = list(h.links())
        if un == "first":
            ls = ls[:1]
        elif un == "last":
            ls = ls[-1:]
        for s, t in ls:
            h.delete_link(s, t)
    return h


def deg_reloadable(p):
    """built by the builders alone (no node put in through Hugr.add_node, nothing deleted, a complete region)"""
    def plain(its):
        return all(i["k"] in ("const", "empty_dfg", "order") for i in its)
    if p.get("unlink"):
        return False
    if p["root"] in ("dfg", "funcdefn"):
        return plain(p.get("items", []))
    if p["root"] == "module":
        return all(plain(f.get("items", [])) for f in p.get("fns", []))
    return False


def shrink_deg_program(p):
    if p.get("unlink") and p["unlink"] != "all":
        yield {**p, "unlink": "all"}
    for key in ("items", "fns", "decls"):
        v = p.get(key)
        if v:
            for i in range(len(v)):
                yield {**p, key: v[:i] + v[i + 1:]}
    for i, f in enumerate(p.get("fns", [])):
        for j in range(len(f.get("items", []))):
            g = {**f, "items": f["items"][:j] + f["items"][j + 1:]}
            yield {**p, "fns": p["fns"][:i] + [g] + p["fns"][i + 1:]}
        if len(f["tys"]) > 1:
            g = {**f, "tys": f["tys"][:-1]}
            yield {**p, "fns": p["fns"][:i] + [g] + p["fns"][i + 1:]}
    for key in ("consts", "n", "blocks"):
        if isinstance(p.get(key), int) and not isinstance(p.get(key), bool) and p[key] > 0:
            yield {**p, key: p[key] - 1}
    for key in ("alias", "call"):
        if p.get(key):
            yield {**p, key: False}
    t = p.get("tys")
    if t and len(t) > 1:
        q = {**p, "tys": t[:-1]}
        if isinstance(q.get("keep"), list):
            q["keep"] = [i for i in q["keep"] if i < len(t) - 1]
        yield q
    if t and set(t) != {"B"}:
        yield {**p, "tys": "B" * len(t)}
    if isinstance(p.get("keep"), list) and p["keep"]:
        yield {**p, "keep": p["keep"][:-1]}


# ----------------------------------------------------------------------------- histories (seeded round 5)
# What a rendering shows is determined by the HUGR and the options of that rendering.  A history is a list of steps:
# activity around the judged renderings (see C20.hist_step) and `draw` steps - renderings under options beyond doubt.

DEFAULT_PATHS = ["dot", "dot", "rend", "rend", "dotnone", "rendnone", "fresh"]


def gen_history(rng, phases):
    def around():
        x = rng.random()
        tgt = rng.choice(["h", "h", "warm", None])
        if x < 0.5:
            q, pal = rng.choice([(True, None), (None, "nb"), (None, "zx"), (True, "nb"), (True, "zx"), (False, "nb"),
                                 (False, None), (None, "default"), (False, "default")])
            return {"k": "dflt", "q": q, "pal": pal, "draw": tgt, "first": rng.random() < 0.3}
        if x < 0.65:
            return {"k": "cfgobj", "ci": rng.randrange(6), "q": rng.choice([True, False, None]),
                    "pal": rng.choice(["nb", "zx", "default", None]), "draw": tgt or "h"}
        if x < 0.8:
            return {"k": "assign", "ci": rng.randrange(1, 6), "draw": tgt}
        return {"k": "explicit", "ci": rng.randrange(1, 6), "draw": tgt or "warm"}

    def judged():
        if rng.random() < 0.8:
            return {"k": "draw", "path": rng.choice(DEFAULT_PATHS)}
        if rng.random() < 0.5:
            return {"k": "draw", "path": "explicit", "ci": rng.randrange(1, 6)}
        return {"k": "draw", "path": "recfg", "ci0": rng.randrange(6), "ci": rng.randrange(1, 6)}
    steps = []
    nheld = rng.choice([0, 0, 1, 1, 2])
    for _ in range(nheld):
        steps.append({"k": "hold", "ci": rng.choice([None, None, 1, 2, 3, 4, 5])})
    if rng.random() < 0.5:
        steps.append({"k": "draw", "path": rng.choice(["rend", "dotnone", "fresh"])})
    for ph in range(rng.randint(2, phases)):
        for _ in range(rng.randint(1, 2)):
            steps.append(around())
        if nheld and rng.random() < 0.6:
            steps.append({"k": "draw", "path": "held", "i": rng.randrange(nheld)})
        else:
            steps.append(judged())
        if rng.random() < 0.25:
            steps.append(judged())
    return steps


MD_KEYS = ["name", "name", "name", "label", "id", "title", "author", "color"]
MD_STRINGS = ["simple_id", "main", "a b", "digraph", "node", "x<y", "7", "\u00fc", "a-b", "", "strict", "cluster0", "in.0"]
MD_OTHER = [5, 0, None, True, ["l", 1], {"a": 1}, 2.5]


def gen_md(rng):
    """metadata put on after building: [selector, key, value] with selector "root" or a position in list(hugr).
    The root's "name" is the graph identifier: strings of every spelling DOT quotes; values that are not strings only
    now and then (known finding: TypeError on the unchanged tree when truthy)"""
    md = []
    if rng.random() < 0.75:
        md.append(["root", "name", rng.choice(MD_OTHER) if rng.random() < 0.04 else rng.choice(MD_STRINGS)])
    for _ in range(rng.randint(0 if md else 1, 3)):
        sel = "root" if rng.random() < 0.4 else rng.randrange(40)
        key = rng.choice(MD_KEYS)
        if sel == "root" and key == "name":
            key = "label"
        md.append([sel, key, rng.choice(MD_STRINGS) if rng.random() < 0.7 else rng.choice(MD_OTHER)])
    return md


def shrink_history(hist):
    for i in range(len(hist)):
        yield hist[:i] + hist[i + 1:]
    for i, st in enumerate(hist):
        if st["k"] in ("dflt", "cfgobj"):
            for f in ("draw", "q", "pal"):
                if st.get(f) is not None and not (f == "draw" and st["k"] == "cfgobj"):
                    yield hist[:i] + [{**st, f: None}] + hist[i + 1:]
            if st.get("first"):
                yield hist[:i] + [{**st, "first": False}] + hist[i + 1:]
        elif st["k"] == "assign" and st.get("draw") is not None:
            yield hist[:i] + [{**st, "draw": None}] + hist[i + 1:]


def mutate(h, rng, k):
    """delete leaf nodes and add new ones (free indices are reused, so children lists are no longer in
    index order); returns False if the store is left with a link to a dead node"""
    from hugr import ops, tys
    for _ in range(k):
        leaves = [n for n in h if h[n].parent is not None and not h.children(n)
                  and type(h[n].op).__name__ not in ("Input", "Output", "ExitBlock")]
        if not leaves:
            break
        n = rng.choice(leaves)
        p = h[n].parent
        try:
            h.delete_node(n)
        except Exception:
            return False           # the store's own defect (C04), not the renderer's
        if any(a.node.idx == n.idx or b.node.idx == n.idx for a, b in h.links()):
            return False           # dangling link left behind (C04)
        parents = [p] + [m for m in h if h.children(m) and type(h[m].op).__name__ in ("DFG", "FuncDefn", "Case", "TailLoop", "DataflowBlock")]
        par = rng.choice(parents)
        if rng.random() < 0.5:
            op = ops.Custom("mut", tys.FunctionType([tys.Bool], [tys.Bool]), extension="verif.ext")
        else:              # extension operations of every flavour (generic ExtOp, per-instance classes, registered classes)
            table = ext_env()["table"]
            op = mk_ext_op(rng.choice(sorted(table, key=repr)))
        new = h.add_node(op, par, op.num_out)
        tgt = [m for m in h.children(par) if m != new and type(h[m].op).__name__ != "Input"]
        if tgt and rng.random() < 0.7:
            h.add_order_link(new, rng.choice(tgt))
    live = {n.idx for n in h}
    return all(s.node.idx in live and t.node.idx in live for s, t in h.links())


def named_program(name):
    from hugr import ops, tys, val
    from hugr.build import Dfg, Module
    from hugr.std.int import DivMod, INT_T
    from hugr.std.logic import Not
    if name == "loadconst_nested":
        d = Dfg()
        l = d.load(val.TRUE)
        with d.add_nested() as inner:
            r = inner.add_op(Not, l)
            inner.set_outputs(r)
        d.set_outputs(inner)
        return d.hugr, name
    if name == "call_nested":
        m = Module()
        f = m.declare_function("f", tys.PolyFuncType([], tys.FunctionType([], [tys.Bool, tys.Bool])))
        g = m.define_main([])
        c = g.call(f)
        with g.add_nested() as inner:
            r = inner.add_op(Not, c[0])
            inner.set_outputs(r)
        g.set_outputs(inner, c[1])
        return m.hugr, name
    if name == "order_reload":
        d = Dfg(tys.Bool)
        (b,) = d.inputs()
        n1 = d.add_op(Not, b)
        n2 = d.add_op(Not, b)
        d.add_state_order(n1, n2)
        d.set_outputs(n1, n2)
        return d.hugr, name
    if name == "divmod_partial":
        d = Dfg(INT_T, INT_T)
        a, b = d.inputs()
        dm = d.add_op(DivMod, a, b, metadata={"k": [1, {"x": None}], "ü": "a<b"})
        with d.add_nested() as inner:
            r = inner.add_op(ops.Noop(), dm[0])
            inner.set_outputs(r)
        d.set_outputs(inner)
        return d.hugr, name
    if name == "index_reuse":
        d = Dfg(tys.Bool)
        (b,) = d.inputs()
        first = d.add_op(ops.Noop(), b)
        second = d.add_op(ops.Noop(), first)
        d.hugr.delete_node(first)
        third = d.add_op(ops.Noop(), b)
        d.hugr.add_link(third.out(0), second.inp(0))
        d.set_outputs(second)
        return d.hugr, name
    if name == "extops_instantiate":       # the demo of seeded change C20-d
        from hugr.std.float import FLOAT_OPS_EXTENSION, FLOAT_T
        d = Dfg(FLOAT_T, FLOAT_T, tys.Bool)
        a, b, c = d.inputs()
        s = d.add_op(FLOAT_OPS_EXTENSION.get_op("fadd").instantiate(), a, b)
        p = d.add_op(FLOAT_OPS_EXTENSION.get_op("fmul").instantiate(), s, b)
        n = d.add_op(FLOAT_OPS_EXTENSION.get_op("fneg").instantiate(), p)
        nc = d.add_op(Not, c)
        d.set_outputs(n, nc)
        return d.hugr, name
    if name == "extops_per_instance_class":
        return run_ext_program({"ins": ["B", "F"], "outs": [3, 4], "body": [
            {"k": "op", "op": ["gate", "flip"], "args": [0], "outs": [2]},
            {"k": "op", "op": ["gate", "both"], "args": [2, 0], "outs": [3]},
            {"k": "op", "op": ["gate", "scale"], "args": [1, 1], "outs": [4]}]}), name
    if name == "extop_single":
        return run_ext_program({"ins": ["F"], "outs": [1], "body": [
            {"k": "op", "op": ["float", "fmul"], "args": [0, 0], "outs": [1]}]}), name
    raise ValueError(name)


PROP = C20()
